"""C16 - symmetry groups are proper point groups; orientation reduction is canonical.

Specification: specs/SymGroup.tla (configurations SymGroup_q / _t / _cache / _cache3 / _ties / _conc / _conct /
_early / _hkl500 / _wide / _blocks).

Binding (DESIGN.md section 5, C16):
  mode B  every sequence of named-group calls TLC explores (symcache hit / miss) is replayed against
          ImageD11.sym_u with a cleared cache: group list identical to the model's closure *in
          generation order*, cache keys, object identity on a hit, earlier objects untouched;
  mode B  two threads: TLC explores every interleaving of the steps of generate_group (lookup, constructor, each
          additem / makegroup step, publish, return) for two concurrent FIRST calls and checks that no caller
          ever holds a group that is not closed / not of the full order (SymGroup_conc: every name against
          itself + nine pairs, cubic / hexagonal preempted at some rows only; SymGroup_conct: all 55 pairs,
          every step; SymGroup_early: the publish-before-built variant violates the invariant).  The real
          generate_group is driven by two threads in FRESH interpreters (harness/c16_conc_child.py: symcache
          replaced by a logging dict subclass, group.__init__ / additem / op wrapped - hook points where a
          thread parks until the controller grants a step; nothing in the tree is edited) under cut / cut2 /
          round-robin / seeded random schedules, so that the second thread looks the cache up in the middle of
          the first thread's build.  Judged: what every caller holds AT ITS RETURN satisfies the group clauses
          and never changes afterwards (the property), the list is the model's closure, and the history of
          dictionary accesses / hits / object sharing is that of a terminal state TLC reached (conformance);
  mode A  every orbit record TLC emits (exact integer UBI x every group element applied beforehand,
          every hkl of the box and of BigHkls - static and seeded triples with entries up to 499 - x every
          group element) is fed to sym_u.find_uniq_u / sym_u.find_uniq_hkls (int64, float64, int32 input) and
          compared with the specification's result for that start; the property clauses (member of the orbit,
          canonical, idempotent, metric kept, same indexed lattice; hkl: lexicographic maximum of the orbit)
          are re-evaluated on the *real* outputs in exact integer arithmetic;
  mode A  the documented range of the key, |h| < 1000, beyond the lexicographic domain (SymGroup_wide.cfg): static,
          seeded and power-of-two boundary hkl with entries 500..999 (511 / 512 / 513, 767 .. 769, 998, 999 in every
          position with either sign) x every group element applied beforehand, handed over as int64 / float64 /
          int32 array and compared with the specification's scan for that start (exact, key ties included);
          clauses on the real outputs: member of the orbit, a largest-key member, idempotent, the int32 / float64
          answer is the int64 answer (specification KeyFits32: key and intermediates of the pinned base stay inside
          32 bit, the STARTING key is computed in the caller's integer type), and where ONE orbit member has the
          largest pinned key (h*1000 + k)*1000 + l - in particular where the key is injective on the orbit,
          HklKeyMax - every start returns that member (canonical WITHIN the orbit);
  mode A  hkl LISTS (specification mode l: find_uniq_hkls as it handles a 3 x n array - one pass per operator over
          all columns, mask per column): every list of 1 .. ListMax columns over ListPool, column j turned by its
          own group element, every start ONE real call with the whole array (int64 / float64 / int32; C / Fortran /
          strided / reversed views; one column also as a 1-D array), compared with the specification's array and
          with the list law ListColumnwise (column by column the lexicographic maximum of that column's orbit,
          whatever the neighbours, the position and the length).  The law does not mention the length, so every
          emitted hkl is scaled: lists of ListSizes columns (1, 2, 3, 255 .. 257, 1023, 1025, 4097, 16385, 32769,
          65535, 65536, 65537, 2*65536+17, 300000; thorough + 2^20+1) and two seeded lengths, for every group, in
          families mixed (a third of the columns the specification's pool hkl - expectation: the specification's
          result -, the others seeded - expectation: the lexicographic maximum computed here, exact int64; every
          column turned by its own seeded group element) / canonical (every column already reduced) / constant (one
          column n times), dtypes int64 / int32 / float64 and layouts rotating over groups and lengths (thorough:
          all nine combinations up to 1.4e5 columns); judged per column (vectorised), plus position independence:
          the same list permuted gives the permuted result.  SymGroup_blocks.cfg: the block-wise variant that
          forgets the trailing n % blocksize columns violates ListColumnwise (thorough).
  plus    the users on MANY orientations in one call: refinegrains.makeuniq with 1, 2, 257, 1000 .. 3000 entries per
          group (one seeded low-order group: 65536 + k; thorough: 70001 / 20001 for every group), every entry a
          seeded symmetry image of one of K float orientations, filled in seeded key order - every entry must become
          the largest-trace member of its own orbit; grid_index_parallel.uniq_grain_list with 1 .. 600 (3000) images
          of K pairwise distinct orientations in seeded order - K grains, each found as often as it was handed in;
  plus    harness-side families where the model is covariant: hkl arrays of 1 .. 1000 seeded columns with
          entries up to 499 per dtype (expectation: lexicographic maximum, python / int64) and ONE set of ~220
          columns with entries 500..999 per group handed over as int64, int32 and float64 (expectation where one
          orbit member has the largest pinned key: that member, from every start; everywhere: in the orbit, largest
          key, idempotent, same answer for every dtype); a seventh of the columns of the long lists are of that range; float
          orientations of conforming cells scaled 0.25 x, 1 x, 100 x (1 A .. 1e3 A) handed over as array / nested
          list / Fortran / strided array / with func=np.trace / debug=1; exact tie orientations turned by
          0 .. 1e-3 rad (near ties: canonical not judged, every other clause is); the users
          refinegrains.makeuniq and grid_index_parallel.uniq_grain_list on exact records and on generic float
          orientations (far-apart grain stays separate, alias trigonalP) and (thorough: the import costs 25 s)
          sinograms.point_by_point.initializer + idxpoint.

Domain of the hkl clauses: int64 / int32 / float64 arrays with |h|, |k|, |l| <= 999 (the documented range of the
key).  Orbit within 499: the lexicographic maximum.  Beyond (two orbit members can share the packed key:
SymGroup_hkl500.cfg): in the orbit / largest key / idempotent / dtype independent always, "the same member from
every start" where the largest pinned key is attained once (decided orbit by orbit in exact integers here and in
the specification); orbits with a shared largest key, int16 and float32 input are counted under
notes["observations"], never judged.

Findings
  C16-find-uniq-u-trace-tie : exact trace ties make find_uniq_u starting-point dependent (F12).
          Excused only when (a) exact integer arithmetic shows the maximal trace is attained by
          >= 2 orbit members, (b) the real outputs equal the specification's first-strict-maximum
          scan from every start, (c) the set of real outputs is exactly the set of maximisers.
          (Only judge_u, on exact integer records, can excuse: no float, hkl or two-thread case ever does.)
  C16-trigonal-setting      : sym_u.trigonal() does not preserve the metric of the gamma = 120 cell.
"""
from __future__ import print_function
import os, sys, json, re, io, math, time, itertools, contextlib, copy, subprocess
import common

PROP = "C16"
NAMES = ["cubic", "hexagonal", "trigonal", "rhombohedralP", "tetragonal", "orthorhombic",
         "monoclinic_c", "monoclinic_a", "monoclinic_b", "triclinic"]
ORDER = {"cubic": 24, "hexagonal": 12, "trigonal": 6, "rhombohedralP": 6, "tetragonal": 8,
         "orthorhombic": 4, "monoclinic_c": 2, "monoclinic_a": 2, "monoclinic_b": 2, "triclinic": 1}
TIE_ID = "C16-find-uniq-u-trace-tie"
TRIG_ID = "C16-trigonal-setting"
TRIGONAL_FIXED = ("-y,x-y,z", "y,x,-z")          # the repaired generator set (TrigonalFixed = TRUE)
WORKERS = int(os.environ.get("C16_TLC_WORKERS", "16"))     # (development on a loaded box: C16_TLC_WORKERS=4)
HERE = os.path.dirname(os.path.dirname(os.path.abspath(__file__)))
CONC_CHILD = os.path.join(HERE, "c16_conc_child.py")
SHADOW = None      # set by run() / selftest(): the child processes import the same shadow package
METRIC_CLAUSES = ("MetricPreserved", "Holohedry", "TransposeMatters", "MetricKept", "HklNormKept")

np = None          # set by _imports() after use_shadow
sym_u = None
OBSERVATIONS = {}  # behaviour outside the property's statement: counted in the evidence notes, never judged


# ------------------------------------------------------------------------------------------
# exact integer 3x3 algebra on nested lists (python ints: no overflow, no rounding)

def mm(A, B):
    return [[sum(A[i][k] * B[k][j] for k in range(3)) for j in range(3)] for i in range(3)]


def mv(A, v):
    return [sum(A[i][k] * v[k] for k in range(3)) for i in range(3)]


def tr(A):
    return [[A[j][i] for j in range(3)] for i in range(3)]


def det(A):
    return (A[0][0] * (A[1][1] * A[2][2] - A[1][2] * A[2][1])
            - A[0][1] * (A[1][0] * A[2][2] - A[1][2] * A[2][0])
            + A[0][2] * (A[1][0] * A[2][1] - A[1][1] * A[2][0]))


def adj(A):
    def c(i, j):
        r = [k for k in range(3) if k != i]
        s = [k for k in range(3) if k != j]
        return (-1) ** (i + j) * (A[r[0]][s[0]] * A[r[1]][s[1]] - A[r[0]][s[1]] * A[r[1]][s[0]])
    return [[c(j, i) for j in range(3)] for i in range(3)]


def trace(A):
    return A[0][0] + A[1][1] + A[2][2]


def tup(A):
    return tuple(tuple(r) for r in A)


I3 = [[1, 0, 0], [0, 1, 0], [0, 0, 1]]


def hklkey(h):
    return (h[0] * 1000 + h[1]) * 1000 + h[2]


def as_int_matrix(x):
    """real output (numpy) -> nested list of python ints, or None when an entry is not an exact integer"""
    a = np.asarray(x, dtype=float)
    r = np.round(a)
    if a.shape != (3, 3) or not np.all(np.isfinite(a)) or not np.all(a == r):
        return None
    return [[int(v) for v in row] for row in r]


def parse_opstring(s):
    """independent reading of a symmetry string: row j = coefficients of x, y, z in expression j"""
    parts = s.split(",")
    if len(parts) != 3:
        raise ValueError(s)
    tab = []
    for p in parts:
        p = p.replace(" ", "")
        row = [0, 0, 0]
        pos = 0
        for m in re.finditer(r"([+-]?)([xyz])", p):
            if m.start() != pos:
                raise ValueError(s)
            pos = m.end()
            row["xyz".index(m.group(2))] += -1 if m.group(1) == "-" else 1
        if pos != len(p) or pos == 0:
            raise ValueError(s)
        tab.append(row)
    return tab


# ------------------------------------------------------------------------------------------
# verdict collection: one VIOLATION per distinct (class) with the first case as replay

class Verdicts(object):
    def __init__(self, chk=None):
        self.chk = chk
        self.classes = {}       # key -> [what, case, count]
        self.order = []
        self.known = {}         # finding id -> [what, count]

    def violation(self, key, what, case):
        if key not in self.classes:
            # the saved case remembers which class of violation it witnesses: --replay re-judges that class
            self.classes[key] = [what, dict(case, violation_class=[str(k) for k in key]), 0]
            self.order.append(key)
        self.classes[key][2] += 1

    def known_finding(self, fid, what):
        self.known.setdefault(fid, [what, 0])
        self.known[fid][1] += 1

    def finding(self, fid):
        return self.chk.finding(fid) if self.chk is not None else None

    def n(self):
        return len(self.classes)

    def total(self):
        return sum(c[2] for c in self.classes.values()) + sum(k[1] for k in self.known.values())

    def flush(self):
        for key in self.order:
            what, case, count = self.classes[key]
            self.chk.violation("%s [%d case(s) of class %s]" % (what, count, "/".join(str(k) for k in key)), case)
        for fid, (what, count) in self.known.items():
            for _ in range(count):
                self.chk.known_finding(fid, what)


# ------------------------------------------------------------------------------------------
# the real code

def _under_test(mod):
    """binding guard: the module object really is the file of the tree under test ($VERIF_REPO)"""
    real = os.path.realpath(mod.__file__)
    if not real.startswith(os.path.realpath(common.REPO) + os.sep):
        raise common.MachineryError("%s resolved to %s, not to the tree under test %s" %
                                    (mod.__name__, real, common.REPO))
    return mod


def _imports(with_pbp=False):
    """import everything the judges use NOW: the shadow directory lives in a cache shared with concurrent
    checks of other trees, nothing may be resolved lazily later"""
    global np, sym_u
    import numpy
    np = numpy
    from ImageD11 import sym_u as s
    sym_u = _under_test(s)
    from ImageD11 import refinegrains, grain, grid_index_parallel
    for m in (refinegrains, grain, grid_index_parallel):
        _under_test(m)
    if with_pbp:
        _pbp()


def _pbp():
    import ImageD11.sinograms.point_by_point as pbp
    return _under_test(pbp)


@contextlib.contextmanager
def quiet():
    buf = io.StringIO()
    with contextlib.redirect_stdout(buf):
        yield buf


class GroupTimeout(Exception):
    pass


@contextlib.contextmanager
def time_limit(seconds):
    """makegroup() of a group that is not finite never returns: bound it (the specification proves
    termination within Order(name) appends; the real cubic closure takes well under a second)"""
    import signal

    def handler(signum, frame):
        raise GroupTimeout()
    old = signal.signal(signal.SIGALRM, handler)
    signal.setitimer(signal.ITIMER_REAL, seconds)
    try:
        yield
    finally:
        signal.setitimer(signal.ITIMER_REAL, 0)
        signal.signal(signal.SIGALRM, old)


GROUP_TIME_LIMIT = 60.0


def real_group_fresh(name):
    """call the named group function with an empty symcache; returns (group object, strings passed
    to generate_group)"""
    sym_u.symcache.clear()
    seen = []
    orig = sym_u.generate_group

    def spy(*args):
        seen.append(args)
        return orig(*args)
    sym_u.generate_group = spy
    try:
        with time_limit(GROUP_TIME_LIMIT):
            g = sym_u.getgroup(name)()
    finally:
        sym_u.generate_group = orig
    return g, seen


class Real(object):
    """the real groups of the tree under test (built once, from an empty cache)"""

    def __init__(self):
        self.obj = {}
        self.strings = {}
        self.mats = {}          # exact integer copies (None when an entry is not an integer)
        self.timeout = []
        for n in NAMES:
            try:
                g, seen = real_group_fresh(n)
            except GroupTimeout:
                self.timeout.append(n)
                self.obj[n] = None
                self.strings[n] = None
                self.mats[n] = None
                continue
            self.obj[n] = g
            self.strings[n] = tuple(seen[0]) if len(seen) == 1 else None
            ms = [as_int_matrix(m) for m in g.group]
            self.mats[n] = None if any(m is None for m in ms) else ms
        sym_u.symcache.clear()

    def trigonal_fixed(self):
        return self.strings.get("trigonal") == TRIGONAL_FIXED


# ------------------------------------------------------------------------------------------
# judges: each takes a case (a dict that is also the replay file content) and reports into Verdicts

def group_clauses(G, cells):
    """the property's group clauses evaluated on a list of exact integer matrices.  Returns the list
    of failed clause names (independent of the specification's generation procedure)."""
    failed = []
    S = set(tup(m) for m in G)
    if any(tup(mm(x, y)) not in S for x in G for y in G):
        failed.append("Closed")
    if tup(I3) not in S:
        failed.append("HasIdentity")
    if any(not any(mm(x, y) == I3 and mm(y, x) == I3 for y in G) for x in G):
        failed.append("HasInverses")
    if any(det(x) != 1 for x in G):
        failed.append("DetOne")
    for c in cells:
        met = mm(c, tr(c))
        if any(mm(mm(x, met), tr(x)) != met for x in G):
            failed.append("MetricPreserved")
            break
    return failed


def judge_group(case, real, V):
    """case: one 'group' record of the specification (a behaviour of named-group calls)."""
    name = case["name"]
    calls = case["calls"]
    key = ("group", name)
    if any(n in real.timeout for n in calls):
        return                        # reported once by run()
    # --- replay the behaviour with an empty cache
    sym_u.symcache.clear()
    objs = []
    seen = []
    orig = sym_u.generate_group

    def spy(*args):
        seen.append(args)
        return orig(*args)
    sym_u.generate_group = spy
    try:
        with time_limit(GROUP_TIME_LIMIT * len(calls)):
            for n in calls:
                objs.append(sym_u.getgroup(n)())
    except GroupTimeout:
        V.violation(key + ("terminates",), "calls %r: makegroup does not return within %d s" %
                    (calls, GROUP_TIME_LIMIT), case)
        return
    finally:
        sym_u.generate_group = orig
    g = objs[-1]
    # a case built from a TLC counterexample carries the model of the tree it was found on: when it is
    # replayed later only the property's clauses are re-judged, not the conformance with that model
    strict = "tlc_invariant" not in case
    # generator strings and the parser
    strings = tuple(seen[-1]) if seen else None
    if strict and strings != tuple(case["strings"]):
        V.violation(key + ("strings",), "%s() passes %r to generate_group, the specification has %r" %
                    (name, strings, tuple(case["strings"])), case)
    for k, s in enumerate(case["strings"] if strict else []):
        if parse_opstring(s) != case["tables"][k]:
            raise common.MachineryError("transcription: table of %r in SymGroup.tla is not what the string says" % s)
        m = as_int_matrix(sym_u.m_from_string(s))
        if m != case["gens"][k]:
            V.violation(key + ("m_from_string",), "m_from_string(%r) = %r, specification: %r (transpose of the "
                        "coefficient table)" % (s, m, case["gens"][k]), case)
    # the group list, in generation order
    mats = [as_int_matrix(m) for m in g.group]
    nonint = any(m is None for m in mats)
    if nonint:
        V.violation(key + ("IntegerEntries",), "%s: a group element has non-integer entries" % name, case)
    else:
        if strict and mats != case["group"]:
            same_set = set(map(tup, mats)) == set(map(tup, case["group"])) and len(mats) == len(case["group"])
            V.violation(key + ("list",), "%s after calls %r: group list differs from the specification's closure "
                        "(%s; %d elements, specification %d)" %
                        (name, calls, "same set, different generation order" if same_set else "different set",
                         len(mats), len(case["group"])), case)
        # the property's clauses on the real list
        failed = group_clauses(mats, case["cells"])
        if len(mats) != ORDER[name]:
            failed.append("OrderOK")
        for cl in failed:
            report_clause(V, name, cl, "%s: real group violates %s" % (name, cl), case, real_mats=mats)
    # cache behaviour
    if case.get("hit"):
        first = calls.index(name)
        if g is not objs[first]:
            V.violation(key + ("cachehit",), "calls %r: second %s() did not return the cached object" %
                        (calls, name), case)
    keys = [k if isinstance(k, tuple) else (k,) for k in sym_u.symcache.keys()]
    if case.get("cachekeys") is not None and keys != [tuple(k) for k in case["cachekeys"]]:
        V.violation(key + ("cachekeys",), "calls %r: symcache keys %r, specification %r" %
                    (calls, keys, case["cachekeys"]), case)
    # earlier objects are untouched and not aliased
    exp = case.get("earlier", {})
    for n, o in zip(calls[:-1], objs[:-1]):
        if n in exp:
            m2 = [as_int_matrix(m) for m in o.group]
            if m2 != exp[n]:
                V.violation(key + ("alias",), "calls %r: group returned earlier for %s changed / is aliased" %
                            (calls, n), case)
        if n != name and o is g:
            V.violation(key + ("alias",), "calls %r: %s() and %s() return the same object" % (calls, n, name), case)
    sym_u.symcache.clear()


def trig_explained(real_mats):
    """the trigonal finding is explained by the model iff the real list is the specification's pinned
    closure: a proper group 32 that preserves the gamma = 60 metric instead of the gamma = 120 one"""
    if real_mats is None or len(real_mats) != 6:
        return False
    hx60 = [[1, 0, -1], [0, 1, -1], [1, 1, 1]]
    hx120 = [[1, -1, 0], [0, 1, -1], [1, 1, 1]]
    m60 = mm(hx60, tr(hx60))
    m120 = mm(hx120, tr(hx120))
    ok60 = all(mm(mm(x, m60), tr(x)) == m60 for x in real_mats)
    ok120 = all(mm(mm(x, m120), tr(x)) == m120 for x in real_mats)
    closed = not [c for c in group_clauses(real_mats, []) if c != "MetricPreserved"]
    return ok60 and not ok120 and closed


def report_clause(V, name, clause, what, case, real_mats=None):
    """a property clause fails on the real code.  The only excusable class: trigonal + a metric clause,
    when known_findings.json lists it and the real group is the one the specification explains."""
    if name == "trigonal" and clause in METRIC_CLAUSES:
        e = V.finding(TRIG_ID)
        if e is not None and trig_explained(real_mats):
            V.known_finding(TRIG_ID, "sym_u.trigonal() preserves the gamma=60 metric, not the gamma=120 cell "
                            "(specification: MetricPreserved violated for trigonal)")
            return
    if clause in METRIC_CLAUSES:
        V.violation(("metric", name), what, case)       # one defect, several clauses: one class
    else:
        V.violation(("clause", name, clause), what, case)



# ---- the symcache protocol under concurrency: two threads make the first calls ---------------------

def sim_labels(gens):
    """the hook points a conforming first call passes (call, contains, new, additem, op ..., set), computed from
    the specification's generator matrices.  Used ONLY to place the cut points of the schedules."""
    labels = ["call", "contains", "new"]
    grp = [tup(I3)]
    for m in gens:
        labels.append("additem")
        if tup(m) not in grp:
            grp.append(tup(m))
        new = True
        while new:
            for a in grp:
                for b in grp:
                    labels.append("op")
                    c = tup(mm(a, b))
                    new = c not in grp
                    if new:
                        grp.append(c)
    labels.append("set")
    return labels


def cut_points(L, rng, thorough):
    """k = number of hook points the first thread has passed when the second thread starts (and runs through)"""
    S = len(L)
    marks = [p for p, l in enumerate(L) if l in ("additem", "set")]
    if thorough and S <= 100:
        return list(range(S + 1))
    ks = set([0, 2, 3, 4, 5, S - 1, S])
    for p in marks:
        ks.update((p - 1, p, p + 1, p + 2, p + 3) if thorough else (p, p + 1, p + 3) if S <= 300 else (p + 1,))
    if thorough:
        ks.update(range(0, 8))
    if S > 12:
        ks.update(int(v) for v in rng.randint(5, S - 1, size=40 if thorough else 2))
    return sorted(k for k in ks if 0 <= k <= S)


def conc_jobs(name, L, rng, thorough):
    """batches (one fresh interpreter each; quick: one, thorough: two) of schedules for both threads asking for
    `name`; the first job of a batch is the first use of the name in its interpreter"""
    S = len(L)
    ks = cut_points(L, rng, thorough)
    first = 4 if 4 in ks else ks[len(ks) // 2]        # the dictionary looked up right after the constructor ...
    a = [{"names": [name, name], "policy": {"kind": "cut", "first": 0, "k": first}}]
    for j, k in enumerate(k for k in ks if k != first):
        a.append({"names": [name, name], "policy": {"kind": "cut", "first": j % 2, "k": k}})
    a.append({"names": [name, name], "policy": {"kind": "rr"}})
    mid = int(rng.randint(5, max(6, S - 1)))            # ... and somewhere inside makegroup
    b = [{"names": [name, name], "policy": {"kind": "cut", "first": 1, "k": min(mid, S)}}]
    for k in sorted(set([1, 2, 3, min(mid, S), S - 1]) if thorough else set([2, min(mid, S)])):
        b.append({"names": [name, name], "policy": {"kind": "cut2", "first": int(rng.randint(2)), "k": k}})
    for j in range(6 if thorough else 2 if S <= 300 else 1):
        b.append({"names": [name, name], "policy": {"kind": "rand", "seed": int(rng.randint(1 << 30)), "first": j % 2,
                                                     "p": float(rng.choice([0.05, 0.2, 0.5]))}})
    return [a, b] if thorough else [a + b]


def conc_pair_jobs(n1, n2, L1, L2, rng, thorough):
    """one batch for two DIFFERENT names (keys that share generator strings or not)"""
    jobs = []
    for (x, y, Lx) in ((n1, n2, L1), (n2, n1, L2)):
        S = len(Lx)
        ks = [4, int(rng.randint(5, max(6, S - 1)))] + ([S - 1] + [int(v) for v in rng.randint(0, S + 1, size=6)] if thorough else [])
        for k in ks:
            jobs.append({"names": [x, y], "policy": {"kind": "cut", "first": 0, "k": min(k, S)}})
        jobs.append({"names": [x, y], "policy": {"kind": "cut2", "first": 1, "k": min(ks[1], S)}})
    jobs.append({"names": [n1, n2], "policy": {"kind": "rr"}})
    jobs.append({"names": [n2, n1], "policy": {"kind": "rand", "seed": int(rng.randint(1 << 30)), "p": 0.3}})
    return jobs


_child_count = [0]


def run_conc_child(jobs, timeout=3600):
    """run the jobs in ONE fresh interpreter (harness/c16_conc_child.py); returns the list of results"""
    if SHADOW is None:
        raise common.MachineryError("run_conc_child before the shadow package is known")
    _child_count[0] += 1
    d = common.scratch()
    jf = os.path.join(d, "c16_conc_jobs_%d_%d.json" % (os.getpid(), _child_count[0]))
    of = os.path.join(d, "c16_conc_res_%d_%d.json" % (os.getpid(), _child_count[0]))
    with open(jf, "w") as f:
        json.dump({"jobs": jobs, "step_timeout": 300.0, "max_points": 20000}, f)
    env = dict(os.environ, PYTHONDONTWRITEBYTECODE="1")
    try:
        p = subprocess.run([common.PY, CONC_CHILD, SHADOW, os.path.realpath(common.REPO), jf, of],
                           stdout=subprocess.PIPE, stderr=subprocess.STDOUT, text=True, timeout=timeout, env=env)
        tail = p.stdout[-2000:]
    except subprocess.TimeoutExpired:
        tail = "timeout after %d s" % timeout
    if not os.path.exists(of):
        raise common.MachineryError("c16_conc_child produced no result file: %s" % tail)
    with open(of) as f:
        out = json.load(f)
    for x in (jf, of):
        try:
            os.unlink(x)
        except OSError:
            pass
    if out.get("machinery"):
        raise common.MachineryError("c16_conc_child: %s" % out["machinery"])
    return out["results"]


def _renumber(held, cache):
    ids = {}

    def oid(i):
        if i is None:
            return None
        if i not in ids:
            ids[i] = len(ids) + 1
        return ids[i]
    h = [oid(x) for x in held]
    c = [[list(k), oid(o)] for k, o in cache]
    return h, c


def model_sig(rec, order):
    """what the specification's terminal state says a schedule of this class shows, in the terms the child
    reports.  order[r] = the specification's thread (1, 2) that real thread r plays."""
    ev = [[order.index(e[0]), e[1], e[2]] for e in rec["ev"]]
    hits = [bool(rec["hit"][m - 1]) for m in order]
    held, cache = _renumber([rec["held"][m - 1] for m in order], rec["cache"])
    return [ev, hits, held, cache]


def real_sig(res):
    ev = [[e["t"], e["op"], e["len"]] for e in res["events"] if e["op"] in ("get", "pub")]
    hits = [any(e["op"] == "contains" and e["res"] and e["t"] == t for e in res["events"]) for t in (0, 1)]
    held, cache = _renumber([th["obj"] if th else None for th in res["threads"]], res["cache"])
    return [ev, hits, held, cache]


def conc_classes(model, names):
    """the distinct observable classes of the specification's terminal states for this pair of calls"""
    out = []
    for rec in model:
        orders = []
        if list(rec["names"]) == list(names):
            orders.append((1, 2))
        if list(rec["names"]) == list(names)[::-1]:
            orders.append((2, 1))
        for o in orders:
            sg = model_sig(rec, o)
            if sg not in out:
                out.append(sg)
    return out


def judge_conc(case, real, V, result=None):
    """case: names (what thread 0 / thread 1 ask for), policy (the schedule), closure {name: the specification's
    list}, model (the specification's terminal records for this pair).  The real generate_group is driven by
    two threads under the schedule in a fresh interpreter (result = what the child reported, when the batch has
    been run already).  Judged: (b) the property on what each caller was handed AT ITS RETURN (closed, identity,
    inverses, det 1, integer, order) and that it did not change afterwards; (a) conformance: the list is the
    specification's closure, and the history of dictionary accesses, the hit flags and the sharing of objects
    are those of one of the terminal states TLC reached for this pair."""
    names = list(case["names"])
    pair = "+".join(names)
    if result is None:
        rs = run_conc_child([{"names": names, "policy": case["policy"]}])
        result = rs[0]
    case = dict(case, observed={k: result.get(k) for k in ("events", "points", "labels", "cache", "stuck", "first_in_process")})
    case["observed"]["threads"] = [None if t is None else {k: t.get(k) for k in ("name", "error", "obj")}
                                   for t in result["threads"]]
    if result.get("stuck"):
        V.violation(("conc", names[0], "held"), "two threads calling %s under schedule %r: %s" %
                    (pair, case["policy"], result["stuck"]), case)
        return "stuck"
    ok = True
    for t, th in enumerate(result["threads"]):
        n = names[t]
        if th is None or th.get("error"):
            V.violation(("conc", n, "held"), "concurrent first call of %s() (schedule %r, other thread: %s) raises %s" %
                        (n, case["policy"], names[1 - t], th and th.get("error")), case)
            ok = False
            continue
        ret = th["returned"]
        mats = None if not isinstance(ret, list) else [as_int_matrix(m) for m in ret]
        if mats is None or any(m is None for m in mats):
            V.violation(("conc", n, "held"), "concurrent first call of %s(): the caller is handed a list with "
                        "non-integer / unreadable elements" % n, case)
            ok = False
            continue
        failed = group_clauses(mats, [])
        if len(mats) != ORDER[n]:
            failed.append("OrderOK")
        if failed:
            V.violation(("conc", n, "held"), "concurrent first call of %s() (schedule %r): thread %d is handed a group "
                        "of %d elements (proper point group: %d) that violates %s" %
                        (n, case["policy"], t, len(mats), ORDER[n], ", ".join(failed)), case)
            ok = False
        if "closure" in case and n in case["closure"] and mats != case["closure"][n]:
            V.violation(("conc", "conform", "list"), "concurrent first call of %s(): the list handed to thread %d is not the "
                        "specification's closure (%d elements, specification %d)" %
                        (n, t, len(mats), len(case["closure"][n])), case)
            ok = False
        fin = result.get("final", {}).get(str(th["obj"]))
        if fin != ret:
            V.violation(("conc", n, "held"), "concurrent first call of %s(): the group thread %d holds changed after "
                        "it was returned (%d elements at the return, %s at the end)" %
                        (n, t, len(mats), len(fin) if isinstance(fin, list) else fin), case)
            ok = False
    if case.get("model") is not None:
        classes = conc_classes(case["model"], names)
        sg = real_sig(result)
        if sg not in classes:
            V.violation(("conc", "conform", "protocol", "same" if names[0] == names[1] else "cross"), "two threads calling %s under schedule %r: dictionary accesses %r "
                        "(thread, get / pub, length of the object's list at that moment), hits %r, objects held %r, "
                        "dictionary %r - no interleaving of the specification ends like this (%d classes)" %
                        (pair, case["policy"], sg[0], sg[1], sg[2], sg[3], len(classes)), case)
            ok = False
        else:
            case["class"] = classes.index(sg)
            return ("ok", classes.index(sg), len(classes)) if ok else "bad"
    return "ok" if ok else "bad"


def orbit_u(G, x0):
    return [mm(o, x0) for o in G]


def judge_u(case, real, V):
    """case: one 'u' record: name, x0 (integer UBI), res[s] (specification's result for start s),
    nmax (number of orbit members with maximal trace), smax.  Every group element is applied
    beforehand (start s = group[s] . x0) and the real find_uniq_u is called on it."""
    name = case["name"]
    x0 = case["x0"]
    grp = real.obj[name]
    G = real.mats[name]
    key = ("u", name)
    if G is None:
        return                       # reported at group level (non-integer element / no group)
    x0f = np.array(x0, float)
    orb_i = orbit_u(G, x0)
    outs = []
    for s_, o in enumerate(grp.group):
        start = np.dot(o, x0f)
        r = sym_u.find_uniq_u(start, grp)
        ri = as_int_matrix(r)
        if ri is None:
            V.violation(key + ("nonint",), "%s: find_uniq_u returns a non-integer matrix for an integer UBI" % name, case)
            return
        outs.append(ri)
        if s_ % 5 == 0:
            # the same start handed over as an integer array / as a nested list of ints
            for kind, arg in (("int array", np.array(orb_i[s_], dtype=int)), ("nested list", [list(r_) for r_ in orb_i[s_]])):
                try:
                    rk = as_int_matrix(sym_u.find_uniq_u(arg, grp))
                except Exception as e:
                    if kind == "nested list":
                        ok_ = "find_uniq_u(nested list) raises"
                        OBSERVATIONS[ok_] = OBSERVATIONS.get(ok_, 0) + 1
                        continue
                    V.violation(key + ("raises",), "%s: find_uniq_u(%s) raises %s: %s" % (name, kind, type(e).__name__, e), case)
                    continue
                if rk != ri:
                    V.violation(key + ("kind",), "%s: find_uniq_u(%s) differs from find_uniq_u(float array) for the same "
                                "orientation" % (name, kind), case)
        # idempotent: reducing the result again returns it
        r2 = as_int_matrix(sym_u.find_uniq_u(np.array(ri, float), grp))
        if r2 != ri:
            report_clause(V, name, "Idempotent", "%s: find_uniq_u(find_uniq_u(u)) != find_uniq_u(u) for start %d" %
                          (name, s_ + 1), case, G)
    # ---- conformance with the specification (start by start)
    conform = (len(outs) == len(case["res"]) and all(a == b for a, b in zip(outs, case["res"])))
    # ---- the property on the real outputs, exact arithmetic
    orb = orbit_u(G, x0)
    orbset = set(map(tup, orb))
    traces = [trace(m) for m in orb]
    tmax = max(traces)
    maxers = set(tup(m) for m in orb if trace(m) == tmax)
    outset = set(map(tup, outs))
    if not outset <= orbset:
        report_clause(V, name, "InOrbit", "%s: find_uniq_u returns a matrix outside the symmetry orbit" % name, case, G)
    if any(trace(m) != tmax for m in outs):
        report_clause(V, name, "AttainsMax", "%s: find_uniq_u result does not have the maximal trace of the orbit" % name, case, G)
    met0 = mm(x0, tr(x0))
    if any(mm(m, tr(m)) != met0 for m in outs):
        report_clause(V, name, "MetricKept", "%s: find_uniq_u changes the cell (metric tensor) of a conforming UBI" % name, case, G)
    d = det(x0)
    a0 = adj(x0)
    for m in outs:
        P = mm(m, a0)
        if d <= 0 or any(v % d for row in P for v in row) or det([[v // d for v in row] for row in P]) != 1:
            report_clause(V, name, "SameLattice", "%s: result . inv(ubi) is not an integer unimodular matrix: the "
                          "indexed g-vectors change" % name, case, G)
            break
    if len(outset) > 1:
        # not canonical.  Excusable only as the exact-tie finding.
        tie = len(maxers) >= 2
        explained = tie and conform and outset == maxers and case.get("nmax", 0) == len(maxers)
        e = V.finding(TIE_ID)
        if explained and e is not None:
            V.known_finding(TIE_ID, "find_uniq_u is starting-point dependent on exact trace ties "
                            "(maximal trace attained more than once over the orbit)")
        elif tie and conform and outset == maxers:
            V.violation(("tie",), "find_uniq_u not canonical: %d orbit members of %s tie on the maximal trace %d "
                        "and %d different matrices are returned depending on the starting member "
                        "(finding %s, not listed in known_findings.json)" %
                        (len(maxers), name, tmax, len(outset), TIE_ID), case)
        else:
            V.violation(key + ("canonical",), "%s: find_uniq_u returns %d different matrices over one orbit "
                        "(maximal trace attained %d time(s))" % (name, len(outset), len(maxers)), case)
    if not conform and "tlc_invariant" not in case:
        V.violation(key + ("conform",), "%s: find_uniq_u differs from the specification's first-strict-maximum "
                    "scan (x0=%r)" % (name, x0), case)


def judge_h(case, real, V):
    """case: name, hkls (list of hkl), res[j][s] = specification's result for hkl j and start s, cells"""
    name = case["name"]
    grp = real.obj[name]
    G = real.mats[name]
    key = ("h", name)
    if G is None:
        return
    hk = np.array(case["hkls"], int).T            # 3 x n
    n = hk.shape[1]
    res = case["res"]
    outs = []
    for s_, o in enumerate(grp.group):
        start = np.dot(np.round(o).astype(int), hk)
        for dtype in (int, float, np.int32):
            arg = start.astype(dtype)
            keep = arg.copy()
            r = sym_u.find_uniq_hkls(arg, grp)
            r = np.asarray(r)
            if r.shape != (3, n) or not np.all(r == np.round(r)):
                V.violation(key + ("shape",), "%s: find_uniq_hkls returns shape %r / non-integers" % (name, r.shape), case)
                return
            if not np.array_equal(arg, keep):
                OBSERVATIONS["find_uniq_hkls modifies its argument"] = OBSERVATIONS.get("find_uniq_hkls modifies its argument", 0) + 1
            r = np.round(r).astype(int)
            if dtype is int:
                outs.append(r)
            elif not np.array_equal(r, outs[-1]):
                V.violation(key + ("dtype",), "%s: find_uniq_hkls differs between int64 and %s input" %
                            (name, "float64" if dtype is float else "int32"), case)
    # conformance
    bad = []
    for j in range(n):
        for s_ in range(len(outs)):
            if s_ >= len(res[j]) or list(outs[s_][:, j]) != list(res[j][s_]):
                bad.append((j, s_))
    if (bad or len(outs) != len(res[0])) and "tlc_invariant" not in case:
        j, s_ = bad[0] if bad else (0, 0)
        V.violation(key + ("conform",), "%s: find_uniq_hkls(hkl=%r after group element %d) = %r, specification %r" %
                    (name, case["hkls"][j], s_ + 1, [int(v) for v in outs[s_][:, j]] if outs else None,
                     res[j][s_] if s_ < len(res[j]) else None), case)
    # property on the real outputs
    starts_idx = [{} for _ in range(n)]            # orbit member -> number of a start that is this member
    for s_, o in enumerate(grp.group):
        st_ = np.dot(np.round(o).astype(int), hk)
        for j in range(n):
            starts_idx[j].setdefault(tuple(int(x) for x in st_[:, j]), s_)
    for j in range(n):
        h = case["hkls"][j]
        orb = set(tuple(mv(o, h)) for o in G)
        col = set(tuple(int(v) for v in o_[:, j]) for o_ in outs)
        if not col <= orb:
            report_clause(V, name, "InOrbit", "%s: find_uniq_hkls(%r) leaves the orbit" % (name, h), case, G)
        inlex = max(abs(x) for v in orb for x in v) <= 499
        # the pinned key of the specification (HklKey, base 1000) in python integers: beyond 499 the clause
        # "same answer from every start" is judged where ONE orbit member has the largest key (HklKeyMax when
        # the key is injective on the whole orbit, CanonicalIfUnique otherwise); a shared largest key (hexagonal
        # (1,-3,500)) is counted, not judged
        kmax = max(pinned_key(v) for v in orb)
        maxers = [v for v in orb if pinned_key(v) == kmax]
        inj = len(set(pinned_key(v) for v in orb)) == len(orb)
        if len(col) != 1:
            if inlex or len(maxers) == 1:
                report_clause(V, name, "HklCanonical" if inlex else ("HklKeyMax" if inj else "CanonicalIfUnique"),
                              "%s: find_uniq_hkls(%r) depends on the starting member: %r" % (name, h, sorted(col)), case, G)
            else:
                k_ = "find_uniq_hkls beyond 499, largest key shared by several orbit members: start-dependent hkl"
                OBSERVATIONS[k_] = OBSERVATIONS.get(k_, 0) + 1
        if not inlex:
            WIDE_COUNTS["records"] += 1
            WIDE_COUNTS["injective"] += 1 if inj else 0
            WIDE_COUNTS["unique_max"] += 1 if len(maxers) == 1 else 0
            if any(pinned_key(v) != kmax for v in col & orb):
                report_clause(V, name, "AttainsMax" if len(maxers) > 1 else ("HklKeyMax" if inj else "CanonicalIfUnique"),
                              "%s: find_uniq_hkls(%r) = %r, the orbit member(s) with the largest key (h*1000 + k)*1000 + l: "
                              "%r" % (name, h, sorted(col), sorted(maxers)), case, G)
        # idempotent: every result is itself a start (all orbit members are); reducing it again returns it
        for s_, o_ in enumerate(outs):
            v = tuple(int(x) for x in o_[:, j])
            if v in orb:
                s2 = starts_idx[j].get(v)
                if s2 is not None and tuple(int(x) for x in outs[s2][:, j]) != v:
                    report_clause(V, name, "Idempotent", "%s: find_uniq_hkls(%r) = %r, and reducing that again gives %r" %
                                  (name, list(mv(G[s_], h)), list(v), [int(x) for x in outs[s2][:, j]]), case, G)
                    break
        if inlex:
            # where the packed key is an order isomorphism the answer is the LEXICOGRAPHIC maximum (python
            # tuple order): an expectation that does not mention the base of the key
            lmax = max(orb)
            if any(v != lmax for v in col):
                report_clause(V, name, "AttainsMax", "%s: find_uniq_hkls(%r) = %r is not the lexicographically largest "
                              "orbit member %r" % (name, h, sorted(col), lmax), case, G)
        for c in case["cells"]:
            A = adj(mm(c, tr(c)))
            q0 = sum(h[i] * mv(A, h)[i] for i in range(3))
            if any(sum(v[i] * mv(A, list(v))[i] for i in range(3)) != q0 for v in col):
                report_clause(V, name, "HklNormKept", "%s: find_uniq_hkls(%r) changes |h|^2 in the reciprocal metric" %
                              (name, h), case, G)
                break


# ---- hkl columns with large entries, input kinds (harness-side family: every column is reduced on its own
# ---- by find_uniq_hkls, the specification's single-column scan covers each of them) ------------------

WIDE_COUNTS = {"records": 0, "injective": 0, "unique_max": 0}      # specification hkl beyond 499 (SymGroup_wide.cfg)


def pinned_key(v):
    """the specification's HklKey: hklmax with the pinned base 1000, python integers (no width)"""
    return (int(v[0]) * 1000 + int(v[1])) * 1000 + int(v[2])


HK_JUDGED = ("int64", "int32", "float64")      # 999 999 999 < 2^31, and exact in a double
HK_OBSERVED = ("int16", "float32")             # the packed key overflows / loses bits: undocumented input kinds


def orbit_columns(G, hk):
    """exact (int64): all orbit members of every column, and per column the lexicographically largest one
    (|entries| <= 999 < 2048, so (h*4096 + k)*4096 + l orders the triples lexicographically)"""
    Ga = np.array(G, dtype=np.int64)
    orb = np.einsum("gij,jn->gin", Ga, hk.astype(np.int64))
    key = (orb[:, 0, :] * 4096 + orb[:, 1, :]) * 4096 + orb[:, 2, :]
    idx = np.argmax(key, axis=0)
    return orb, orb[idx, :, np.arange(hk.shape[1])].T


def key_columns(orb, pairs=True):
    """orb: g x 3 x n (int64, all orbit members of n columns).  Per column, under the specification's pinned key
    (h*1000 + k)*1000 + l in int64 (|entries| <= 1998: |key| < 2^31): the member with the largest key, whether
    that largest key belongs to ONE distinct member, whether the key is injective on the whole orbit (pairs)"""
    key = (orb[:, 0, :] * 1000 + orb[:, 1, :]) * 1000 + orb[:, 2, :]
    n = orb.shape[2]
    best = orb[np.argmax(key, axis=0), :, np.arange(n)].T
    ismax = key == key.max(axis=0)[None, :]
    asbest = (orb == best[None, :, :]).all(axis=1)
    uniq = ~(ismax & ~asbest).any(axis=0)
    inj = None
    if pairs:
        samekey = key[:, None, :] == key[None, :, :]
        samemem = (orb[:, None, :, :] == orb[None, :, :, :]).all(axis=2)
        inj = ~(samekey & ~samemem).any(axis=(0, 1))
    return best, uniq, inj, key.max(axis=0)


POW2_MAGS = (127, 128, 129, 255, 256, 257, 499, 500, 501, 511, 512, 513, 767, 768, 769, 998, 999)


def boundary_hkls(rng, lo, hi):
    """magnitude x integer width: the magnitudes around the powers of two (where a packed key of some base leaves
    a 16 / 32 bit integer or the mantissa of a float) and the ends of the two domains (499 / 500, 999), in every
    position, with either sign; the other two entries small and seeded"""
    cols = []
    for m in POW2_MAGS:
        if lo <= m <= hi:
            for pos in range(3):
                for sg in (1, -1):
                    h = [int(v) for v in rng.randint(-3, 4, size=3)]
                    h[pos] = sg * m
                    cols.append(h)
    return cols


def seeded_hkls(rng, n, lo, hi):
    """n columns with entries of magnitude lo..hi in at least one place: uniform, 'small h, large +-k' (what a
    wrong packing base mixes up), boundary values, small"""
    cols = []
    for j in range(n):
        kind = j % 5
        if kind == 0:
            h = [int(v) for v in rng.randint(-hi, hi + 1, size=3)]
        elif kind == 1:
            b = int(rng.randint(max(lo, 2), hi + 1))
            h = [int(rng.randint(-3, 4)), b, -b + int(rng.randint(0, 2))]
        elif kind == 2:
            h = [int(rng.choice([-1, 1])) * int(rng.randint(max(hi - 2, 0), hi + 1)) for _ in range(3)]
        elif kind == 3:
            h = [int(v) for v in rng.randint(-5, 6, size=3)]
            h[int(rng.randint(3))] = int(rng.choice([-1, 1])) * int(rng.randint(max(lo, 1), hi + 1))
        else:
            h = [int(rng.randint(-hi, hi + 1)), int(rng.randint(-40, 41)), int(rng.randint(-hi, hi + 1))]
        if lo > 0 and max(abs(v) for v in h) < lo:
            h[int(rng.randint(3))] = int(rng.choice([-1, 1])) * int(rng.randint(lo, hi + 1))
        cols.append(h)
    return cols


def judge_hbig(case, real, V):
    """case: name, hkls (n triples with entries up to 999 = the documented range of the key), dtype.  Every group
    element is applied beforehand to the whole array; the real find_uniq_hkls reduces the 3 x n array of the given
    dtype.  Judged for int64 / int32 / float64, from every start:
      every result column is in the orbit of its column and has the largest pinned key of that orbit
        (specification: InOrbit, AttainsMax);
      reducing a result again returns it (Idempotent);
      columns whose orbit stays within 499: the result is the lexicographic maximum of the orbit (HklLexMax);
      columns beyond 499 (up to 999): where ONE orbit member has the largest pinned key - in particular where the key
        is injective on the orbit - every start returns that member (HklKeyMax / CanonicalIfUnique: canonical WITHIN
        the orbit); a shared largest key (hexagonal (1,-3,500)) is counted, not judged;
      int32 / float64 input gives the int64 answer column by column, ties included (KeyFits32: the width of the
        caller's array does not matter).
    int16 / float32 input is outside the domain of the hkl clauses: counted, not judged."""
    import warnings
    name = case["name"]
    grp = real.obj[name]
    G = real.mats[name]
    if G is None:
        return
    key = ("hbig", name)
    dtype = case["dtype"]
    hk = np.array(case["hkls"], dtype=np.int64).T.reshape(3, -1)
    n = hk.shape[1]
    if np.abs(hk).max() > 999:
        raise common.MachineryError("hbig: a column leaves the documented range of the key")
    orb, lex = orbit_columns(G, hk)
    kbest, kuniq, kinj, kmax = key_columns(orb)
    indom = np.abs(orb).max(axis=(0, 1)) <= 499
    if not np.array_equal(kbest[:, indom], lex[:, indom]) or not kinj[indom].all():
        raise common.MachineryError("hbig: within 499 the pinned key is not the lexicographic order")
    judged = dtype in HK_JUDGED

    def call(arg):
        with warnings.catch_warnings():
            warnings.simplefilter("ignore")
            with np.errstate(all="ignore"):
                return np.asarray(sym_u.find_uniq_hkls(arg, grp))

    def wellformed(r):
        return r.shape == (3, n) and np.all(np.isfinite(r.astype(float))) and np.all(r == np.round(r))

    outs = []
    for s_ in range(len(G)):
        start = orb[s_]
        arg = start.astype(dtype)
        try:
            r = call(arg)
        except Exception as e:
            if judged:
                V.violation(key + ("raises",), "%s: find_uniq_hkls(%s array 3x%d) raises %s: %s" %
                            (name, dtype, n, type(e).__name__, e), case)
            else:
                ok_ = "find_uniq_hkls %s: raises" % dtype
                OBSERVATIONS[ok_] = OBSERVATIONS.get(ok_, 0) + 1
            return
        if not wellformed(r):
            if judged:
                V.violation(key + ("shape",), "%s: find_uniq_hkls(%s array 3x%d) returns shape %r / non-integers" %
                            (name, dtype, n, r.shape), case)
                return
            OBSERVATIONS["find_uniq_hkls %s: malformed result" % dtype] = OBSERVATIONS.get("find_uniq_hkls %s: malformed result" % dtype, 0) + 1
            return
        ri = np.round(r).astype(np.int64)
        outs.append(ri)
        if judged and (s_ % 5 == 0 or s_ == len(G) - 1):
            # idempotent: the result handed back in the same dtype
            try:
                r2 = call(ri.astype(dtype))
            except Exception as e:
                V.violation(key + ("raises",), "%s: find_uniq_hkls(its own %s result) raises %s: %s" %
                            (name, dtype, type(e).__name__, e), case)
                return
            if not wellformed(r2) or not np.array_equal(np.round(r2).astype(np.int64), ri):
                j = int(np.argmax((np.round(r2).astype(np.int64) != ri).any(axis=0))) if wellformed(r2) else 0
                report_clause(V, name, "Idempotent", "%s: find_uniq_hkls(%s array) is not idempotent: %r -> %r -> %r" %
                              (name, dtype, [int(v) for v in start[:, j]], [int(v) for v in ri[:, j]],
                               [float(v) for v in np.asarray(r2, dtype=float)[:, j]] if wellformed(r2) else "malformed"), case, G)
        if judged and dtype != "int64":
            # the width of the caller's array does not matter (ties included: same scan, same keys)
            r64 = call(start.copy())
            if wellformed(r64) and not np.array_equal(np.round(r64).astype(np.int64), ri):
                j = int(np.argmax((np.round(r64).astype(np.int64) != ri).any(axis=0)))
                report_clause(V, name, "KeyFits32", "%s: find_uniq_hkls(%r) = %r for an %s array, %r for an int64 array "
                              "(start: group element %d applied to %r)" %
                              (name, [int(v) for v in start[:, j]], [int(v) for v in ri[:, j]], dtype,
                               [int(v) for v in np.round(r64).astype(np.int64)[:, j]], s_ + 1, [int(v) for v in hk[:, j]]), case, G)
    inorb = np.ones(n, bool)
    islex = np.ones(n, bool)
    iskey = np.ones(n, bool)
    atmax = np.ones(n, bool)
    same = np.ones(n, bool)
    for ri in outs:
        inorb &= (orb == ri[None, :, :]).all(axis=1).any(axis=0)
        islex &= (ri == lex).all(axis=0)
        iskey &= (ri == kbest).all(axis=0)
        atmax &= ((ri[0] * 1000 + ri[1]) * 1000 + ri[2]) == kmax
        same &= (ri == outs[0]).all(axis=0)
    wide = ~indom
    if judged:
        if not inorb.all():
            j = int(np.argmin(inorb))
            report_clause(V, name, "InOrbit", "%s: find_uniq_hkls(%s array): column %r is reduced to a triple outside its "
                          "orbit" % (name, dtype, [int(v) for v in hk[:, j]]), case, G)
        bad = indom & ~islex
        if bad.any():
            j = int(np.argmax(bad))
            got = sorted(set(tuple(int(v) for v in ri[:, j]) for ri in outs))
            report_clause(V, name, "AttainsMax" if same[j] else "HklCanonical",
                          "%s: find_uniq_hkls(%s array, %d columns): hkl %r reduces to %r, lexicographically largest orbit "
                          "member: %r (%d of %d columns differ)" %
                          (name, dtype, n, [int(v) for v in hk[:, j]], got, [int(v) for v in lex[:, j]], int(bad.sum()), n),
                          case, G)
        bad = wide & kuniq & ~iskey
        if bad.any():
            j = int(np.argmax(bad))
            got = sorted(set(tuple(int(v) for v in ri[:, j]) for ri in outs))
            report_clause(V, name, "HklKeyMax" if kinj[j] else "CanonicalIfUnique",
                          "%s: find_uniq_hkls(%s array, %d columns, entries up to 999): the members of the orbit of %r reduce "
                          "to %r depending on the one handed over; the one orbit member with the largest key "
                          "(h*1000 + k)*1000 + l is %r (key %s on this orbit; %d of %d such columns differ)" %
                          (name, dtype, n, [int(v) for v in hk[:, j]], got, [int(v) for v in kbest[:, j]],
                           "injective" if kinj[j] else "not injective, largest key attained once",
                           int(bad.sum()), int((wide & kuniq).sum())), case, G)
        bad = wide & ~kuniq & inorb & ~atmax
        if bad.any():
            j = int(np.argmax(bad))
            report_clause(V, name, "AttainsMax", "%s: find_uniq_hkls(%s array): hkl %r is reduced to a member of its orbit "
                          "whose key is not the largest of the orbit (%d)" %
                          (name, dtype, [int(v) for v in hk[:, j]], int(kmax[j])), case, G)
        if wide.any():
            k = "find_uniq_hkls columns beyond 499: judged (largest key attained once) / key injective / shared largest key / of those start-dependent"
            old = OBSERVATIONS.get(k, [0, 0, 0, 0])
            OBSERVATIONS[k] = [old[0] + int((wide & kuniq).sum()), old[1] + int((wide & kinj).sum()),
                               old[2] + int((wide & ~kuniq).sum()), old[3] + int((wide & ~kuniq & ~same).sum())]
    else:
        k = "find_uniq_hkls %s input (undocumented kind): columns / not the int64 answer" % dtype
        old = OBSERVATIONS.get(k, [0, 0])
        OBSERVATIONS[k] = [old[0] + n, old[1] + int((~(islex & inorb) & indom).sum())]
    return int(indom.sum()), int((wide & kuniq).sum()), int((wide & kinj).sum())


# ---- hkl LISTS: the array route of find_uniq_hkls (specification mode l) and its scaling in the length ----

HK_LAYOUTS = ("C", "F", "strided")


def hk_arg(start, dtype, layout):
    """the 3 x n int64 array `start` as the array handed to find_uniq_hkls"""
    a = start.astype(dtype)
    if layout == "F":                      # what np.array(list_of_hkl).T is
        return np.asfortranarray(a)
    if layout == "strided":                # every second column of a wider table
        big = np.zeros((3, 2 * a.shape[1]), dtype=a.dtype)
        big[:, ::2] = a
        return big[:, ::2]
    if layout == "reversed":               # negative stride
        return np.ascontiguousarray(a[:, ::-1])[:, ::-1]
    return np.ascontiguousarray(a)


def call_hkls(arg, grp):
    """the real find_uniq_hkls; returns (int64 3 x n result, None) or (None, what is wrong with the result)"""
    import warnings
    keep = arg.copy()
    with warnings.catch_warnings():
        warnings.simplefilter("ignore")
        with np.errstate(all="ignore"):
            r = np.asarray(sym_u.find_uniq_hkls(arg, grp))
    if not np.array_equal(arg, keep):
        OBSERVATIONS["find_uniq_hkls modifies its argument"] = OBSERVATIONS.get("find_uniq_hkls modifies its argument", 0) + 1
    if r.shape != arg.shape:
        return None, "shape %r for an argument of shape %r" % (r.shape, arg.shape)
    rf = r.astype(float)
    if not np.all(np.isfinite(rf)) or not np.all(rf == np.round(rf)):
        return None, "non-integer / non-finite entries"
    return np.round(rf).astype(np.int64), None


def lexmax_columns(G, hk):
    """independent definition, exact int64, one column at a time in the mathematical sense (vectorised over the
    columns): the expected member of every column's orbit and whether the column is judged.  Where the whole orbit
    stays within 499: the lexicographically largest member (|entries| <= 1998 < 2048: (h*4096 + k)*4096 + l orders
    the triples lexicographically).  Columns with entries up to 999 whose orbit leaves 499 (the documented range of
    the key): the member with the largest pinned key (h*1000 + k)*1000 + l, judged when ONE distinct member has it
    (specification: HklKeyMax / CanonicalIfUnique)."""
    hk = hk.astype(np.int64)
    n = hk.shape[1]
    best = hk.copy()
    bkey = np.full(n, -(1 << 62), dtype=np.int64)
    kbest = hk.copy()
    kkey = np.full(n, -(1 << 62), dtype=np.int64)
    ktie = np.zeros(n, bool)
    amax = np.zeros(n, dtype=np.int64)
    for o in G:
        cand = np.empty((3, n), dtype=np.int64)
        for r_ in range(3):
            acc = np.zeros(n, dtype=np.int64)
            for c_ in range(3):
                if o[r_][c_]:
                    acc += o[r_][c_] * hk[c_]
            cand[r_] = acc
        key = (cand[0] * 4096 + cand[1]) * 4096 + cand[2]
        np.maximum(amax, np.abs(cand).max(axis=0) if n else amax, out=amax)
        m = key > bkey
        best[:, m] = cand[:, m]
        bkey[m] = key[m]
        k1000 = (cand[0] * 1000 + cand[1]) * 1000 + cand[2]
        ktie |= (k1000 == kkey) & (cand != kbest).any(axis=0)        # another member with the largest key so far
        m = k1000 > kkey
        kbest[:, m] = cand[:, m]
        kkey[m] = k1000[m]
        ktie[m] = False
    inlex = amax <= 499
    if not np.array_equal(best[:, inlex], kbest[:, inlex]) or ktie[inlex].any():
        raise common.MachineryError("lexmax_columns: within 499 the pinned key is not the lexicographic order")
    widej = ~inlex & (np.abs(hk).max(axis=0) <= 999 if n else inlex) & ~ktie
    best[:, widej] = kbest[:, widej]
    return best, inlex | widej


def turned_columns(G, hk, g):
    """column c of hk turned by group element number g[c] (exact int64)"""
    Ga = np.array(G, dtype=np.int64)
    return np.einsum("nij,jn->in", Ga[g], hk.astype(np.int64))


def in_orbit_columns(G, hk, r):
    ok = np.zeros(hk.shape[1], bool)
    Ga = np.array(G, dtype=np.int64)
    for o in Ga:
        ok |= (np.dot(o, hk) == r).all(axis=0)
    return ok


def judge_l(case, real, V):
    """case: one 'l' record of the specification: name, x0 (the list), starts[k] (the list with column j turned by
    group element Rot(k, j)), res[k] (the array the specification's vectorised scan returns), lex / indom (the
    lexicographic maximum of every column's orbit, where the orbit stays within 499).  The real find_uniq_hkls
    gets every start as ONE array (int64 / float64 / int32, C / Fortran / strided / reversed views; a list of one
    column also as a 1-D array of 3)."""
    name = case["name"]
    grp = real.obj[name]
    G = real.mats[name]
    if G is None or grp is None:
        return
    key = ("l", name)
    n = len(case["x0"])
    lex = np.array(case["lex"], dtype=np.int64).T.reshape(3, n)
    indom = np.array(case["indom"], bool)
    for k, st in enumerate(case["starts"]):
        start = np.array(st, dtype=np.int64).T.reshape(3, n)
        want = np.array(case["res"][k], dtype=np.int64).T.reshape(3, n)
        combos = [("int64", "C"), ("float64", "F"), ("int32", "strided"), ("int64", "reversed")]
        for dtype, layout in combos[:4 if k % 3 == 0 else 2]:
            r, bad = call_hkls(hk_arg(start, dtype, layout), grp)
            if bad:
                V.violation(key + ("shape",), "%s: find_uniq_hkls(%s array of %d column(s), %s) returns %s" %
                            (name, dtype, n, layout, bad), case)
                return
            if not np.array_equal(r, want) and "tlc_invariant" not in case:
                j = int(np.argmax((r != want).any(axis=0)))
                V.violation(key + ("conform",), "%s: find_uniq_hkls(list %r as %s %s array): column %d comes back as %r, "
                            "specification (vectorised scan): %r" %
                            (name, [list(c) for c in start.T.tolist()], dtype, layout, j,
                             [int(v) for v in r[:, j]], [int(v) for v in want[:, j]]), case)
            badc = indom & (r != lex).any(axis=0)
            if badc.any():
                j = int(np.argmax(badc))
                report_clause(V, name, "HklCanonical", "%s: find_uniq_hkls(list of %d column(s), %s %s): column %d = %r is "
                              "reduced to %r, lexicographically largest member of its orbit: %r" %
                              (name, n, dtype, layout, j, [int(v) for v in start[:, j]], [int(v) for v in r[:, j]],
                               [int(v) for v in lex[:, j]]), case, G)
        if n == 1 and k % 2 == 0:
            # one hkl as a 1-D array: not a "3 x n array" (counted when it raises), judged when it is answered
            try:
                r1 = np.asarray(sym_u.find_uniq_hkls(start[:, 0].copy(), grp))
            except Exception:
                OBSERVATIONS["find_uniq_hkls(1-D array of 3) raises"] = OBSERVATIONS.get("find_uniq_hkls(1-D array of 3) raises", 0) + 1
                continue
            if r1.shape != (3,) or (indom[0] and [int(v) for v in r1] != [int(v) for v in lex[:, 0]]):
                report_clause(V, name, "HklCanonical", "%s: find_uniq_hkls(1-D hkl %r) = %r, lexicographically largest "
                              "member of its orbit: %r" % (name, [int(v) for v in start[:, 0]], r1.tolist(),
                                                          [int(v) for v in lex[:, 0]]), case, G)


LONG_FAMILIES = ("mixed", "canonical", "constant")


def long_columns(rs, n, npool):
    """n seeded columns (3 x n int64) and, per column, the index of the specification's pool entry it is (-1: a
    seeded column that is not in the pool): two sevenths pool entries, uniform within 249 (every orbit stays within
    499), uniform within 499, small, 'small h, large +-k' (what a wrong packing base mixes up), one entry of
    magnitude 500..999 (the documented range of the key beyond the lexicographic domain: magnitude x integer width)"""
    kind = rs.randint(0, 7, size=n)
    hk = np.zeros((3, n), dtype=np.int64)
    pidx = np.full(n, -1, dtype=np.int64)
    m = kind <= 1
    if npool:
        pidx[m] = rs.randint(0, npool, size=int(m.sum()))
    m = (kind == 2) | ((kind <= 1) & (npool == 0))
    hk[:, m] = rs.randint(-249, 250, size=(3, int(m.sum())))
    m = kind == 3
    hk[:, m] = rs.randint(-499, 500, size=(3, int(m.sum())))
    m = kind == 4
    hk[:, m] = rs.randint(-5, 6, size=(3, int(m.sum())))
    m = kind == 5
    b = rs.randint(2, 250, size=int(m.sum()))
    hk[0, m] = rs.randint(-3, 4, size=int(m.sum()))
    hk[1, m] = b
    hk[2, m] = -b + rs.randint(0, 2, size=int(m.sum()))
    m = kind == 6                                  # the documented range of the key beyond the lexicographic domain:
    nm = int(m.sum())                              # one entry +-(500..999) or around 512 / 768, the others up to 999
    w = rs.randint(-999, 1000, size=(3, nm))
    w[:, ::2] = rs.randint(-9, 10, size=(3, nm))[:, ::2]
    big = np.where(rs.randint(0, 3, size=nm) == 0, rs.choice([511, 512, 513, 767, 768, 769, 998, 999], size=nm),
                   rs.randint(500, 1000, size=nm)) * rs.choice([-1, 1], size=nm)
    w[rs.randint(0, 3, size=nm), np.arange(nm)] = big
    hk[:, m] = w
    return hk, pidx


def build_long(case, G):
    """the long list of a case, rebuilt from its seed: base columns, the group element every column is turned by,
    the columns handed over, the pool index per column"""
    rs = np.random.RandomState(int(case["seed"]))
    n = int(case["n"])
    pool = np.array(case["pool"], dtype=np.int64).reshape(-1, 3)
    hk, pidx = long_columns(rs, n, len(pool))
    fromp = pidx >= 0
    hk[:, fromp] = pool[pidx[fromp]].T
    if case.get("family") == "constant":
        c = int(rs.randint(n))
        hk = np.repeat(hk[:, c:c + 1], n, axis=1)
        pidx = np.repeat(pidx[c:c + 1], n)
    g = rs.randint(0, len(G), size=n)
    start = turned_columns(G, hk, g)
    perm = rs.permutation(n)
    return hk, pidx, start, perm


def judge_hlong(case, real, V):
    """case: name, n (number of columns - one of the specification's ListSizes or a seeded length), seed, family
    (mixed: every column turned by its own seeded group element / canonical: every column already the reduced
    member / constant: one column n times), pool + pool_exp (hkl the specification reduced and ITS results),
    calls = [[dtype, layout, with_permutation]].  ONE call of the real find_uniq_hkls per entry of calls reduces
    the whole 3 x n array.  Judged per column (vectorised): a pool column comes back as the specification's result
    for that hkl (list law ListColumnwise: whatever the length and the position), every other column whose orbit
    stays within 499 as the lexicographic maximum of its orbit (exact int64, computed here), every column as a
    member of its own orbit; the same list permuted gives the permuted result (position independence)."""
    name = case["name"]
    grp = real.obj[name]
    if real.mats[name] is None or grp is None:
        return
    G = case.get("G") or real.mats[name]      # the operators of the EXPECTATION: the specification's closure
    key = ("hlong", name)
    n = int(case["n"])
    hk, pidx, start, perm = build_long(case, G)
    lex, indom = lexmax_columns(G, hk)
    fromp = pidx >= 0
    if fromp.any():
        pexp = np.array(case["pool_exp"], dtype=np.int64).reshape(-1, 3)
        if not np.array_equal(pexp[pidx[fromp]].T, lex[:, fromp]):
            raise common.MachineryError("hlong: the specification's result for a pool hkl is not the lexicographic "
                                        "maximum computed by the harness (%s)" % name)
        if not indom[fromp].all():
            raise common.MachineryError("hlong: a pool hkl leaves the domain of the hkl clauses (%s)" % name)
    if case.get("family") == "canonical":
        start = np.where(indom[None, :], lex, start)
    njudged = 0
    for dtype, layout, with_perm in case["calls"]:
        what = "%s: find_uniq_hkls(%s %s array of %d columns, %s)" % (name, dtype, layout, n, case.get("family", "mixed"))
        r, bad = call_hkls(hk_arg(start, dtype, layout), grp)
        if bad:
            V.violation(key + ("shape",), "%s returns %s" % (what, bad), case)
            return njudged
        wrong = indom & (r != lex).any(axis=0)
        if wrong.any():
            j = int(np.argmax(wrong))
            alone, _ = call_hkls(hk_arg(start[:, j:j + 1], dtype, "C"), grp)
            alone_ok = alone is not None and np.array_equal(alone[:, 0], lex[:, j])
            report_clause(V, name, "HklCanonical",
                          "%s: column %d (%s) = %r comes back as %r; %s: %r; %d of %d columns are wrong, the first at "
                          "position %d, the last at %d%s" %
                          (what, j, "an hkl of the specification's pool" if fromp[j] else "seeded",
                           [int(v) for v in start[:, j]], [int(v) for v in r[:, j]],
                           "specification (list law: per column, independent of length and position)" if fromp[j]
                           else "lexicographically largest member of its orbit (beyond 499: the one member with the "
                           "largest key (h*1000 + k)*1000 + l)", [int(v) for v in lex[:, j]],
                           int(wrong.sum()), n, j, int(n - 1 - np.argmax(wrong[::-1])),
                           "; the same column ALONE in a list of one is reduced correctly: the answer depends on the "
                           "length of the list / the position in it" if alone_ok else ""), case, G)
        rest = ~(indom & ~wrong)
        if rest.any():
            ok = in_orbit_columns(G, hk[:, rest], r[:, rest])
            if not ok.all():
                j = int(np.flatnonzero(rest)[int(np.argmin(ok))])
                report_clause(V, name, "InOrbit", "%s: column %d = %r comes back as %r, which is not in its orbit" %
                              (what, j, [int(v) for v in start[:, j]], [int(v) for v in r[:, j]]), case, G)
        if with_perm and n > 1:
            r2, bad = call_hkls(hk_arg(start[:, perm], dtype, layout), grp)
            if bad:
                V.violation(key + ("shape",), "%s (permuted) returns %s" % (what, bad), case)
                return njudged
            diff = indom[perm] & (r2 != r[:, perm]).any(axis=0)
            if diff.any():
                j = int(np.argmax(diff))
                V.violation(key + ("position",), "%s: the result for a column depends on where it sits in the list: %r at "
                            "position %d is reduced to %r, at position %d of the permuted list to %r (%d of %d columns)" %
                            (what, [int(v) for v in start[:, perm[j]]], int(perm[j]), [int(v) for v in r[:, perm[j]]], j,
                             [int(v) for v in r2[:, j]], int(diff.sum()), n), case)
        njudged += int(indom.sum())
    return njudged


# ---- generic float orientations ------------------------------------------------------------

FLOAT_CELLS = {
    "cubic": [(4.05, 4.05, 4.05, 90, 90, 90)],
    "hexagonal": [(3.21, 3.21, 5.21, 90, 90, 120)],
    "trigonal": [(4.91, 4.91, 5.40, 90, 90, 120)],
    "rhombohedralP": [(5.13, 5.13, 5.13, 55.3, 55.3, 55.3), (4.0, 4.0, 4.0, 97.0, 97.0, 97.0)],
    "tetragonal": [(4.59, 4.59, 2.96, 90, 90, 90)],
    "orthorhombic": [(4.76, 10.21, 5.99, 90, 90, 90)],
    "monoclinic_c": [(5.1, 6.2, 7.3, 90, 90, 99.2)],
    "monoclinic_a": [(5.1, 6.2, 7.3, 99.2, 90, 90)],
    "monoclinic_b": [(5.1, 6.2, 7.3, 90, 99.2, 90)],
    "triclinic": [(5.1, 6.2, 7.3, 85.0, 99.2, 104.0)],
}


def cell_rows(cell):
    """rows = a, b, c of the cell in a Cartesian frame (a along x, b in the xy plane)"""
    a, b, c, al, be, ga = cell
    al, be, ga = [math.radians(v) for v in (al, be, ga)]
    # exact cosines for the right / 120 degree angles (cos(pi/2) is 6e-17 in floats)
    def cs(v, deg):
        return {90: 0.0, 120: -0.5, 60: 0.5}.get(deg, math.cos(v))
    ca, cb, cg = cs(al, cell[3]), cs(be, cell[4]), cs(ga, cell[5])
    sg = math.sqrt(1 - cg * cg)
    cx = c * cb
    cy = c * (ca - cb * cg) / sg
    cz = math.sqrt(c * c - cx * cx - cy * cy)
    return np.array([[a, 0, 0], [b * cg, b * sg, 0], [cx, cy, cz]])


def quat_matrix(q):
    w, x, y, z = q / np.sqrt(np.dot(q, q))
    return np.array([[1 - 2 * (y * y + z * z), 2 * (x * y - w * z), 2 * (x * z + w * y)],
                     [2 * (x * y + w * z), 1 - 2 * (x * x + z * z), 2 * (y * z - w * x)],
                     [2 * (x * z - w * y), 2 * (y * z + w * x), 1 - 2 * (x * x + y * y)]])


def close(a, b, scale):
    return bool(np.all(np.abs(np.asarray(a) - np.asarray(b)) <= 1e-9 * scale + 1e-12))


INPUT_KINDS = ("array", "list", "fortran", "strided", "func", "debug")


def call_find_uniq_u(m, grp, how):
    """the real find_uniq_u on the 3x3 float matrix m, handed over as `how` says; the argument must not change"""
    a = np.array(m, float)
    if how == "list":
        arg = a.tolist()
        keep = copy.deepcopy(arg)
        r = sym_u.find_uniq_u(arg, grp)
        changed = arg != keep
    else:
        if how == "fortran":
            arg = np.asfortranarray(a)
        elif how == "strided":
            big = np.zeros((6, 9))
            big[::2, ::3] = a
            arg = big[::2, ::3]
        else:
            arg = a.copy()
        keep = np.array(arg, copy=True)
        if how == "func":
            r = sym_u.find_uniq_u(arg, grp, 0, np.trace)
        elif how == "debug":
            with quiet():
                r = sym_u.find_uniq_u(arg, grp, debug=1)
        else:
            r = sym_u.find_uniq_u(arg, grp)
        changed = not np.array_equal(arg, keep)
    if changed:
        OBSERVATIONS["find_uniq_u modifies its argument"] = OBSERVATIONS.get("find_uniq_u modifies its argument", 0) + 1
    return np.asarray(r, dtype=float)


def judge_float(case, real, V):
    """case: name, ubi (float 3x3), optional kinds (how each orbit member is handed over).  Every group element
    is applied beforehand.  Ties have measure zero; the two best traces of the orbit decide what is judged:
      separated by more than 1e-10 relative (rounding is 1e-15): every clause, the canonical one included;
      closer ('near tie', returns 'neartie'): the result may be either of the tying members, so the canonical
        clause is not judged and idempotence only in the weak form - but every result is still a member of the
        orbit, has the maximal trace up to the tolerance, keeps the metric and indexes the same lattice."""
    name = case["name"]
    grp = real.obj[name]
    G = real.mats[name]
    key = ("float", name)
    if grp is None or G is None:
        return "ok"
    ubi = np.array(case["ubi"], float)
    scale = float(np.abs(ubi).max()) * 3
    Gf = [np.array(o, float) for o in G]           # exact integers: the orbit does not depend on the code under test
    orbit = [np.dot(o, ubi) for o in Gf]
    t = sorted((float(np.trace(m)) for m in orbit), reverse=True)
    near = len(t) > 1 and t[0] - t[1] <= 1e-10 * scale
    kinds = case.get("kinds") or ["array"]
    met0 = np.dot(ubi, ubi.T)
    outs = []
    for k, m in enumerate(orbit):
        how = kinds[k % len(kinds)]
        try:
            outs.append(call_find_uniq_u(m, grp, how))
        except Exception as e:
            if how == "list":
                # a nested list is not a documented input kind: counted, and the member is handed over as an array
                ok_ = "find_uniq_u(nested list) raises"
                OBSERVATIONS[ok_] = OBSERVATIONS.get(ok_, 0) + 1
                try:
                    outs.append(call_find_uniq_u(m, grp, "array"))
                    continue
                except Exception as e2:
                    e = e2
            V.violation(key + ("raises",), "%s: find_uniq_u(%s 3x3 float orientation) raises %s: %s" %
                        (name, how, type(e).__name__, e), case)
            return "ok"
    if any(o.shape != (3, 3) or not np.all(np.isfinite(o)) for o in outs):
        V.violation(key + ("shape",), "%s: find_uniq_u returns a malformed matrix" % name, case)
        return "ok"
    ref = outs[0]
    if not near and not all(close(o, ref, scale) for o in outs):
        report_clause(V, name, "CanonicalIfUnique", "%s: generic float orientation: orbit members reduce to different "
                      "matrices (best traces separated by %.3g, scale %.3g)" % (name, t[0] - t[1] if len(t) > 1 else 0.0, scale), case, G)
    ub = np.linalg.inv(ubi)
    hk = np.array(list(itertools.product((-2, -1, 0, 1, 2), repeat=3)), float).T
    for o in (outs if near else [ref]):
        if not any(close(o, m, scale) for m in orbit):
            report_clause(V, name, "InOrbit", "%s: float orientation: result is not an orbit member" % name, case, G)
        if abs(float(np.trace(o)) - t[0]) > 1e-9 * scale + 1e-12:
            report_clause(V, name, "AttainsMax", "%s: float orientation: result does not have the largest trace "
                          "(%.12g, orbit maximum %.12g)" % (name, float(np.trace(o)), t[0]), case, G)
        if not close(np.dot(o, o.T), met0, scale * scale):
            report_clause(V, name, "MetricKept", "%s: find_uniq_u changes the cell parameters of a conforming cell "
                          "(metric tensor differs)" % name, case, G)
        again = call_find_uniq_u(o, grp, "array")
        if near:
            # weak idempotence: reducing the result again stays among the (tying) maximal members
            if not any(close(again, m, scale) for m in orbit) or abs(float(np.trace(again)) - t[0]) > 1e-9 * scale + 1e-12:
                report_clause(V, name, "Idempotent", "%s: near-tie float orientation: reducing the result again leaves "
                              "the maximal members of the orbit" % name, case, G)
        elif not close(again, o, scale):
            report_clause(V, name, "Idempotent", "%s: generic float orientation: reduction not idempotent" % name, case, G)
        # which g-vectors are indexed: T = res . inv(ubi) integer unimodular; lattice points stay integer hkl,
        # half-integer points stay non-integer
        T = np.dot(o, ub)
        if not close(T, np.round(T), 3.0) or abs(round(float(np.linalg.det(np.round(T)))) - 1) != 0:
            report_clause(V, name, "SameLattice", "%s: float orientation: result . inv(ubi) is not integer unimodular" % name, case, G)
        else:
            gv = np.dot(ub, hk)
            h2 = np.dot(o, gv)
            if not close(h2, np.round(h2), 6.0):
                report_clause(V, name, "SameLattice", "%s: reduced orientation no longer indexes the lattice's g-vectors" % name, case, G)
            gv2 = np.dot(ub, hk + 0.5)
            h3 = np.dot(o, gv2)
            if np.any(np.all(np.abs(h3 - np.round(h3)) < 1e-6, axis=0)):
                report_clause(V, name, "SameLattice", "%s: reduced orientation indexes g-vectors the input did not" % name, case, G)
    return "neartie" if near else "ok"


# ---- users ---------------------------------------------------------------------------------

def user_violation(V, real, name, key, what, case):
    """a user route fails.  For trigonal the only excusable cause is the (listed) setting finding."""
    if name == "trigonal" and V.finding(TRIG_ID) is not None and trig_explained(real.mats[name]):
        V.known_finding(TRIG_ID, "sym_u.trigonal() preserves the gamma=60 metric, not the gamma=120 cell "
                        "(specification: MetricPreserved violated for trigonal)")
        return
    if name == "trigonal" and trig_explained(real.mats[name]):
        key = ("metric", name)        # a consequence of the same defect: same class
    V.violation(key, what, case)


def judge_makeuniq(case, real, V):
    """refinegrains.makeuniq(symmetry): ubisread and grains[...].ubi are reduced with the named group.
    case: name, x0 (integer UBI), res (specification's result per start), nmax"""
    from ImageD11 import refinegrains, grain
    name = case["name"]
    G = real.mats[name]
    if G is None:
        return
    with quiet():
        o = refinegrains.refinegrains()
    starts = orbit_u(G, case["x0"])
    for k, m in enumerate(starts):
        o.ubisread[k] = np.array(m, float)
        o.grains[(k, "scan")] = grain.grain(np.array(m, float), translation=[0., 0., 0.])
    with quiet():
        o.makeuniq(name)
    got1 = [as_int_matrix(o.ubisread[k]) for k in range(len(starts))]
    got2 = [as_int_matrix(o.grains[(k, "scan")].ubi) for k in range(len(starts))]
    exp = case["res"]
    if got1 != exp or got2 != exp:
        # is it the tie finding seen through makeuniq?  then judge_u has reported it; here only conformance
        V.violation(("makeuniq", name), "refinegrains.makeuniq(%r): ubisread / grains differ from the specification's "
                    "reduction" % name, case)
    elif case.get("nmax", 1) == 1 and (len(set(map(tup, got1))) != 1):
        V.violation(("makeuniq", name, "canonical"), "refinegrains.makeuniq(%r) leaves symmetry-equivalent grains "
                    "with different matrices" % name, case)


def misorientation_deg(G, ubi1, ubi2):
    """smallest rotation angle between the orientation of ubi2 and the symmetry images of ubi1 (floats;
    U from the polar decomposition of UB ignoring the cell: both have the same cell up to scale)"""
    def U_of(ubi):
        ub = np.linalg.inv(ubi)
        q, r = np.linalg.qr(ub)
        s = np.sign(np.diag(r))
        return q * s
    u2 = U_of(np.array(ubi2, float))
    best = 180.0
    for o in G:
        u1 = U_of(np.dot(np.array(o, float), np.array(ubi1, float)))
        c = (np.trace(np.dot(u1.T, u2)) - 1) / 2
        best = min(best, math.degrees(math.acos(max(-1.0, min(1.0, c)))))
    return best


def judge_uniq_grain_list(case, real, V):
    """grid_index_parallel.uniq_grain_list(symmetry, toldist, tolangle, grains): all symmetry images of
    one grain (same position) are one grain found len(G) times; an orientation that is not a symmetry
    image (misorientation > 1 degree by brute force over the specification's group) stays separate.
    case: name, x0, other (float ubi), order (permutation of the presented list)"""
    from ImageD11 import grid_index_parallel, grain
    name = case["name"]
    G = real.mats[name]
    if G is None:
        return
    starts = orbit_u(G, case["x0"])
    gl = [grain.grain(np.array(m, float), translation=[1., 2., 3.]) for m in starts]
    gl.append(grain.grain(np.array(case["other"], float), translation=[1., 2., 3.]))
    gl = [gl[k] for k in case["order"]]
    with quiet():
        ul = grid_index_parallel.uniq_grain_list(name, 0.5, 0.05, gl)
    nf = sorted(int(g.nfound) for g in ul.uniqgrains)
    exp = sorted([1, len(starts)])
    if nf != exp:
        user_violation(V, real, name, ("uniq_grain_list", name), "uniq_grain_list(%r): %d symmetry images + 1 other "
                       "grain -> nfound %r, expected %r" % (name, len(starts), nf, exp), case)


def judge_users_float(case, real, V):
    """the users on a generic float orientation.  case: name, sym (the string handed to the user: the name, or the
    alias trigonalP), ubi, other (an orientation more than 1 degree away from every symmetry image), order.
      refinegrains.makeuniq(sym): every orbit member (ubisread and grains) becomes ONE matrix, the orbit member
        with the largest trace (computed here from the exact integer operators);
      grid_index_parallel.uniq_grain_list(sym, toldist=0.5, tolangle=0.05): |G| symmetry images at one position
        are one grain found |G| times; two of the same images 5 units away (beyond toldist) are ANOTHER grain
        found twice; the other orientation at the first position is a third grain."""
    from ImageD11 import refinegrains, grain, grid_index_parallel
    name = case["name"]
    sym = case.get("sym", name)
    G = real.mats[name]
    if G is None:
        return "ok"
    ubi = np.array(case["ubi"], float)
    scale = float(np.abs(ubi).max()) * 3
    orbit = [np.dot(np.array(o, float), ubi) for o in G]
    tr_ = [float(np.trace(m)) for m in orbit]
    t = sorted(tr_, reverse=True)
    if len(t) > 1 and t[0] - t[1] <= 1e-6 * scale:
        return "neartie"
    exp = orbit[int(np.argmax(tr_))]
    if sym == name:
        with quiet():
            o = refinegrains.refinegrains()
        for k, m in enumerate(orbit):
            o.ubisread[k] = np.array(m, float)
            o.grains[(k, "scan")] = grain.grain(np.array(m, float), translation=[0., 0., 0.])
        with quiet():
            o.makeuniq(sym)
        got = [np.asarray(o.ubisread[k], float) for k in range(len(orbit))] + \
              [np.asarray(o.grains[(k, "scan")].ubi, float) for k in range(len(orbit))]
        if not all(g.shape == (3, 3) and close(g, exp, scale) for g in got):
            user_violation(V, real, name, ("makeuniq", name, "float"), "refinegrains.makeuniq(%r) on a generic float "
                           "orientation: the %d symmetry-equivalent grains do not all become the orbit member with the "
                           "largest trace" % (sym, len(orbit)), case)
    far = np.array([5.0, 0.0, 0.0])
    t0 = np.array([1.0, 2.0, 3.0])
    gl = [grain.grain(np.array(m, float), translation=t0.copy()) for m in orbit]
    gl.append(grain.grain(np.array(orbit[0], float), translation=t0 + far))
    gl.append(grain.grain(np.array(orbit[-1], float), translation=t0 + far))
    gl.append(grain.grain(np.array(case["other"], float), translation=t0.copy()))
    gl = [gl[k] for k in case["order"]]
    with quiet():
        ul = grid_index_parallel.uniq_grain_list(sym, 0.5, 0.05, gl)
    nf = sorted(int(g.nfound) for g in ul.uniqgrains)
    want = sorted([len(orbit), 2, 1])
    if nf != want:
        user_violation(V, real, name, ("uniq_grain_list", name, "float"), "uniq_grain_list(%r): %d symmetry images, two "
                       "of them again 5 units away, one other orientation -> nfound %r, expected %r" %
                       (sym, len(orbit), nf, want), case)
    return "ok"


def many_orientations(case, G):
    """K seeded float orientations of a conforming cell, pairwise more than 1 degree apart (brute force over the
    exact operators) and none near a trace tie, and for each the orbit member with the largest trace"""
    rs = np.random.RandomState(int(case["seed"]))
    name = case["name"]
    bases = []
    exps = []
    tries = 0
    while len(bases) < int(case["K"]) and tries < 40 * int(case["K"]):
        tries += 1
        cell = FLOAT_CELLS[name][tries % len(FLOAT_CELLS[name])]
        ubi = np.dot(cell_rows(cell), quat_matrix(rs.normal(size=4)))
        orbit = [np.dot(np.array(o, float), ubi) for o in G]
        tr_ = [float(np.trace(m)) for m in orbit]
        t = sorted(tr_, reverse=True)
        if len(t) > 1 and t[0] - t[1] <= 1e-6 * float(np.abs(ubi).max()) * 3:
            continue
        if any(misorientation_deg(G, b, ubi) <= 1.0 for b in bases[-40:]):
            continue
        bases.append(ubi)
        exps.append(orbit[int(np.argmax(tr_))])
    return rs, bases, exps


def judge_users_many(case, real, V):
    """the users on MANY orientations in one call (size-dependent paths, state carried from one orientation to the
    next).  case: name, seed, K (distinct orientations), n (orientations handed to makeuniq: entry k is a seeded
    symmetry image of orientation k % K), m (grains handed to uniq_grain_list).
      refinegrains.makeuniq(name): EVERY entry of ubisread and of grains becomes the orbit member with the largest
        trace of its own orientation (computed here from the exact integer operators), whatever its key / position;
      grid_index_parallel.uniq_grain_list(name, 0.5, 0.05): m symmetry images of the K orientations in seeded order at
        one position -> K grains, found as often as images of each were handed over."""
    from ImageD11 import refinegrains, grain, grid_index_parallel
    name = case["name"]
    G = real.mats[name]
    if G is None:
        return "ok"
    rs, bases, exps = many_orientations(case, G)
    K = len(bases)
    if K == 0:
        return "none"
    Gf = np.array(G, float)
    scale = float(np.abs(bases[0]).max()) * 3
    n = int(case["n"])
    if n:
        which = np.arange(n) % K
        g = rs.randint(0, len(G), size=n)
        ubis = np.einsum("nij,njk->nik", Gf[g], np.array(bases)[which])
        keys = [int(v) for v in rs.permutation(n)]                    # the dictionaries are filled in seeded order
        with quiet():
            o = refinegrains.refinegrains()
        for k in keys:
            o.ubisread[k] = ubis[k].copy()
            o.grains[(k, "scan")] = grain.grain(ubis[k].copy(), translation=[0., 0., 0.])
        with quiet():
            o.makeuniq(name)
        exp = np.array(exps)[which]
        for label, got in (("ubisread", [o.ubisread.get(k) for k in range(n)]),
                           ("grains", [o.grains[(k, "scan")].ubi if (k, "scan") in o.grains else None for k in range(n)])):
            if any(x is None or np.shape(x) != (3, 3) for x in got):
                user_violation(V, real, name, ("makeuniq", name, "many"), "refinegrains.makeuniq(%r) with %d orientations: "
                               "an entry of %s is missing / malformed afterwards" % (name, n, label), case)
                break
            d = np.abs(np.array(got, float) - exp).max(axis=(1, 2))
            badk = d > 1e-9 * scale + 1e-12
            if badk.any():
                k = int(np.argmax(badk))
                user_violation(V, real, name, ("makeuniq", name, "many"), "refinegrains.makeuniq(%r) with %d orientations "
                               "(symmetry images of %d distinct ones): %d entries of %s are not the orbit member with the "
                               "largest trace, the first is key %d" % (name, n, K, int(badk.sum()), label, k), case)
                break
    m = int(case.get("m", 0))
    if m:
        which = np.concatenate([np.arange(K), rs.randint(0, K, size=max(0, m - K))])[:m]
        g = rs.randint(0, len(G), size=len(which))
        order = rs.permutation(len(which))
        gl = [grain.grain(np.dot(Gf[g[c]], bases[which[c]]), translation=[1., 2., 3.]) for c in order]
        with quiet():
            ul = grid_index_parallel.uniq_grain_list(name, 0.5, 0.05, gl)
        nf = sorted(int(x.nfound) for x in ul.uniqgrains)
        want = sorted(int(v) for v in np.bincount(which, minlength=K) if v)
        if nf != want:
            user_violation(V, real, name, ("uniq_grain_list", name, "many"), "uniq_grain_list(%r): %d symmetry images of %d "
                           "distinct orientations -> %d grains with nfound %r..., expected %d grains with %r..." %
                           (name, len(which), len(want), len(nf), nf[:6], len(want), want[:6]), case)
    return "ok"


def judge_pbp(case, real, V):
    """sinograms.point_by_point.idxpoint reduces every indexed ubi with the group chosen by the
    initializer's symmetry string (line 1809).  The real initializer() is called with the symmetry string
    (its readers of the parameter file / unit cell / column file are stubbed); the indexer, the peak
    selection and the unique-peak counter are stubbed (module-level callables wrapped from the harness);
    the call sites (1871, 1809) are real.
    case: name, x0, res, s (which orbit member the stub indexer 'finds')"""
    pbp = _pbp()
    name = case["name"]
    G = real.mats[name]
    if G is None:
        return
    starts = orbit_u(G, case["x0"])

    class FakeIndexer(object):
        def __init__(self, **kw):
            self.ubis = []
            self.ring_1 = self.ring_2 = 0

        def assigntorings(self):
            pass

        def find(self):
            pass

        def scorethem(self):
            if not self.ubis:
                self.ubis = [np.array(starts[k], float) for k in case["s"]]
    from ImageD11 import cImageD11
    nthreads = cImageD11.cimaged11_omp_get_max_threads()
    saved = (pbp.ImageD11.indexing.indexer, pbp.geometry.dtyimask_from_step_sincos, pbp.get_local_gv, pbp.hkluniq,
             pbp.symglobal, pbp.ucglobal, pbp.parglobal)
    saved2 = (pbp.colglobal, pbp.parameters, pbp.unitcell, pbp.threadpoolctl, pbp.ImageD11.columnfile.mmap_h5colf,
              pbp.ImageD11.indexing.loglevel)

    class Par(object):
        def get(self, k):
            return 0.3

    class Col(object):
        isel = np.ones(4)

    class Stub(object):
        def __init__(self, **kw):
            self.__dict__.update(kw)
    try:
        pbp.ImageD11.indexing.indexer = FakeIndexer
        pbp.geometry.dtyimask_from_step_sincos = lambda *a, **k: np.ones(4, bool)
        pbp.get_local_gv = lambda *a, **k: (np.zeros((4, 3)), np.zeros(4), np.zeros(4), np.zeros(4))
        pbp.hkluniq = lambda ubi, *a, **k: (10, 10)
        # the REAL initializer() chooses the group from the symmetry string (the readers of the parameter file,
        # the unit cell and the column file are stubbed, the BLAS thread limit is not touched)
        pbp.parameters = Stub(read_par_file=lambda *a, **k: Par())
        pbp.unitcell = Stub(unitcell_from_parameters=lambda *a, **k: None)
        pbp.threadpoolctl = None
        pbp.ImageD11.columnfile.mmap_h5colf = lambda *a, **k: Col()
        pbp.symglobal = None
        with quiet():
            pbp.initializer("nofile.par", "phase", name, "nofile.h5", loglevel=saved2[5])
        if pbp.symglobal is None or not hasattr(pbp.symglobal, "group"):
            V.violation(("pbp", name), "point_by_point.initializer(symmetry=%r) does not set the symmetry group" % name, case)
            return
        z = np.zeros(4)
        with quiet():
            out = pbp.idxpoint(0, 0, np.ones(4, bool), z, z, z + 1, np.zeros(4, int), z, z, z, z,
                               forgen=[0], minpks=1, hmax=3)
    finally:
        (pbp.ImageD11.indexing.indexer, pbp.geometry.dtyimask_from_step_sincos, pbp.get_local_gv, pbp.hkluniq,
         pbp.symglobal, pbp.ucglobal, pbp.parglobal) = saved
        (pbp.colglobal, pbp.parameters, pbp.unitcell, pbp.threadpoolctl, pbp.ImageD11.columnfile.mmap_h5colf,
         pbp.ImageD11.indexing.loglevel) = saved2
        cImageD11.cimaged11_omp_set_num_threads(nthreads)
    got = sorted(tup(as_int_matrix(g[2]) or []) for g in out)
    exp = sorted(tup(case["res"][k]) for k in case["s"])
    if got != exp:
        V.violation(("pbp", name), "point_by_point.idxpoint(symmetry=%r): returned ubis are not the specification's "
                    "reductions of the indexed ubis" % name, case)


JUDGES = {"conc": judge_conc, "hbig": judge_hbig, "l": judge_l, "hlong": judge_hlong, "users_many": judge_users_many, "group": judge_group, "u": judge_u, "h": judge_h, "float": judge_float, "makeuniq": judge_makeuniq,
          "uniq_grain_list": judge_uniq_grain_list, "pbp": judge_pbp, "users_float": judge_users_float}


# ------------------------------------------------------------------------------------------
# TLC runs

def enc_hkl(h):
    """a configuration file has neither tuples nor negative numbers: (h, k, l) is {1000+h, 11000+k, 21000+l}"""
    return "{%d, %d, %d}" % (1000 + h[0], 11000 + h[1], 21000 + h[2])


def cfg_variant(base, names=None, fixed=False, drop=(), tag="v", bighkls=None, pairs=None):
    """static cfg -> (possibly) a generated variant in scratch: subset of Names, TrigonalFixed, dropped
    invariants, seeded hkl added to the static BigHkls.  Returns the path to use."""
    src = os.path.join(common.SPECS, base)
    if names is None and fixed and not drop and not bighkls and not pairs:
        return src                       # the static files describe the repaired trigonal()
    out = []
    for line in open(src):
        if line.strip().startswith("Names =") and names is not None:
            line = "  Names = {%s}\n" % ", ".join('"%s"' % n for n in names)
        if line.strip().startswith("ConcPairs =") and pairs:
            line = "  ConcPairs = {%s}\n" % ", ".join("{%s}" % ", ".join('"%s"' % n for n in pr) for pr in pairs)
        if line.strip().startswith("BigHkls =") and bighkls:
            old = line.strip()[len("BigHkls ="):].strip()
            if not (old.startswith("{") and old.endswith("}")):
                raise common.MachineryError("cannot extend %r" % line)
            inner = old[1:-1].strip()
            line = "  BigHkls = {%s}\n" % ", ".join(([inner] if inner else []) + [enc_hkl(h) for h in bighkls])
        if line.strip().startswith("TrigonalFixed ="):
            line = "  TrigonalFixed = %s\n" % ("TRUE" if fixed else "FALSE")
        if line.startswith("INVARIANT ") and line.split()[1] in drop:
            continue
        out.append(line)
    path = os.path.join(common.scratch(), "%s_%s_%d.cfg" % (base[:-4], tag, int(time.time() * 1000) % 100000000))
    with open(path, "w") as f:
        f.write("".join(out))
    return path


class Interleaved(Exception):
    pass


def parse_records(res, label):
    recs = []
    skipped = 0
    for p in res.printed:
        try:
            recs.append(json.loads(p))
        except ValueError:
            skipped += 1
    if skipped:
        raise Interleaved("%s: %d emitted lines did not parse (interleaved output?)" % (label, skipped))
    return recs


def tlc_records(cfg, label, workers, coverage, timeout):
    """run TLC; when it finishes without violation return its parsed records (one retry with a single
    worker if PrintT lines of different workers got interleaved)"""
    res = common.run_tlc("SymGroup", cfg, workers=workers, coverage=coverage, timeout=timeout)
    if res.violated or res.error:
        return res, None
    try:
        return res, parse_records(res, label)
    except Interleaved:
        res = common.run_tlc("SymGroup", cfg, workers=1, coverage=coverage, timeout=timeout * 4)
        if res.violated or res.error:
            return res, None
        try:
            return res, parse_records(res, label)
        except Interleaved as e:
            raise common.MachineryError(str(e))


def final_state(res):
    """the last state of TLC's counterexample as python values"""
    if not res.trace:
        raise common.MachineryError("TLC reported %r without a trace" % (res.violated,))
    st = res.trace[-1]["vars"]
    out = {}
    for k in ("name", "pc", "mode", "grp", "x0", "res", "tag", "calls", "hit"):
        if k in st:
            out[k] = common.parse_tla(st[k].strip())
    return out


def tolist(v):
    if isinstance(v, tuple):
        return [tolist(x) for x in v]
    return v


def confirm_counterexample(inv, st, real, V, cells_of):
    """A TLC invariant violation is a design-level counterexample: replay it on the real code.  Returns
    True when the real code shows the same failure (it has then been reported through V)."""
    name = st["name"]
    before = V.total()
    if st["pc"] == "closed":
        case = {"kind": "group", "name": name, "calls": tolist(st["calls"]), "hit": bool(st.get("hit")),
                "strings": list(real.strings[name] or ()), "tables": [parse_opstring(s) for s in (real.strings[name] or ())],
                "gens": [tr(parse_opstring(s)) for s in (real.strings[name] or ())],
                "group": tolist(st["grp"]), "cells": cells_of(name), "cachekeys": None, "tlc_invariant": inv}
        judge_group(case, real, V)
        if inv in ("Holohedry", "TransposeMatters", "SpectrumOK"):
            # clauses the python judge does not restate: decided by the real list being the model's list
            mats = real.mats[name]
            if mats == case["group"]:
                report_clause(V, name, inv, "%s: specification invariant %s fails for the group list the real "
                              "code produces" % (name, inv), case, mats)
    else:
        G = tolist(st["grp"])
        x0 = tolist(st["x0"])
        win = tolist(st["res"])
        if st["mode"] == "u":
            resm = [mm(G[win[k] - 1], mm(G[k], x0)) for k in range(len(G))]
            orb = [mm(o, x0) for o in G]
            tm = max(trace(m) for m in orb)
            case = {"kind": "u", "name": name, "x0": x0, "res": resm, "smax": tm,
                    "nmax": len(set(tup(m) for m in orb if trace(m) == tm)), "tag": tolist(st["tag"]),
                    "tlc_invariant": inv}
            judge_u(case, real, V)
        elif st["mode"] == "l":
            ng = len(G)
            starts = [[mv(G[(k + j) % ng], x0[j]) for j in range(len(x0))] for k in range(ng)]       # Rot(k+1, j+1) - 1
            resl = [[mv(G[win[k][j] - 1], starts[k][j]) for j in range(len(x0))] for k in range(len(win))]
            orbs = [[tuple(mv(o, h)) for o in G] for h in x0]
            case = {"kind": "l", "name": name, "x0": x0, "starts": starts[:len(resl)], "res": resl,
                    "lex": [list(max(o)) for o in orbs],
                    "indom": [max(abs(v) for t_ in o for v in t_) <= 499 for o in orbs], "tlc_invariant": inv}
            judge_l(case, real, V)
        else:
            resm = [[mv(G[win[k] - 1], mv(G[k], x0)) for k in range(len(G))]]
            case = {"kind": "h", "name": name, "hkls": [x0], "res": resm, "cells": cells_of(name), "tlc_invariant": inv}
            judge_h(case, real, V)
    return V.total() != before


def run_main_config(chk, base, real, V, workers, coverage, timeout, cells_of, bighkls=None):
    """main configuration with the counterexample protocol: a violated invariant is replayed on the real
    code (reported there), the offending group is then explored alone without that invariant, the other
    groups without the offending group."""
    fixed = real.trigonal_fixed()
    records = []
    names = list(NAMES)
    cover = {}
    queue = [(names, (), "all")]
    rounds = 0
    while queue:
        nm, drop, label = queue.pop(0)
        rounds += 1
        if rounds > 14:
            raise common.MachineryError("counterexample protocol does not converge")
        cfg = cfg_variant(base, names=None if nm == NAMES else nm, fixed=fixed, drop=drop, tag="m%d" % rounds,
                          bighkls=bighkls)
        res, recs = tlc_records(cfg, base, workers, coverage, timeout)
        chk.add_tlc("SymGroup %s %s%s" % (base[9:-4], label, " TrigonalFixed" if fixed else ""), res)
        for k, v in res.coverage.items():
            old = cover.get(k, (0, 0))
            cover[k] = (old[0] + v[0], old[1] + v[1])
        if not res.violated:
            if not res.finished:
                raise common.MachineryError("TLC did not finish: %s" % (res.error,))
            records += recs
            continue
        inv = res.violated[0]
        st = final_state(res)
        bad = st["name"]
        chk.notes.setdefault("tlc_counterexamples", []).append({"invariant": inv, "group": bad, "pc": st["pc"]})
        if not confirm_counterexample(inv, st, real, V, cells_of):
            raise common.MachineryError("TLC counterexample (%s, group %s) is not reproduced by the real code and no "
                                        "conformance difference explains it: the model misrepresents the code" % (inv, bad))
        rest = [n for n in nm if n != bad]
        if rest:
            queue.append((rest, drop, label + "-" + bad))
        if inv not in ("TypeOK", "GenOK", "Closed", "OrderOK", "CacheOK", "CurOK") and len(drop) < 6:
            # the metric clauses stand or fall together (they are re-evaluated record by record on the real
            # outputs anyway): drop the family at once
            more = METRIC_CLAUSES if inv in METRIC_CLAUSES else (inv,)
            nd = tuple(drop) + tuple(m for m in more if m not in drop)
            queue.append(([bad], nd, bad + " without " + ",".join(nd)))
    return records, cover


# ------------------------------------------------------------------------------------------

def run_conc_section(chk, real, V, model_group, model_gens, thorough, fixed):
    """TLC: every interleaving of the steps of two concurrent first calls (SymGroup_conc / _conct), the
    publish-before-built variant as the invariant's teeth (SymGroup_early); then the real generate_group
    under deterministic two-thread schedules in fresh interpreters, judged by judge_conc."""
    base = "SymGroup_conct.cfg" if thorough else "SymGroup_conc.cfg"
    res, recs = tlc_records(cfg_variant(base, fixed=fixed, tag="k"), base, WORKERS, thorough, 7200 if thorough else 1500)
    chk.add_tlc("SymGroup %s (two threads)" % base[9:-4], res,
                require_cover=("Contains", "Get", "New", "AddItemC", "MultC", "Publish", "Ret"))
    if res.violated or not res.finished:
        raise common.MachineryError("SymGroup two-thread model: %r %r (the model of generate_group as written "
                                    "violates its own invariant)" % (res.violated, res.error))
    crecs = [r for r in recs if r.get("kind") == "conc"]
    if not crecs:
        raise common.MachineryError("vacuity: the two-thread model emitted no terminal state")
    early = common.run_tlc("SymGroup", cfg_variant("SymGroup_early.cfg", fixed=fixed, tag="e"), workers=1, timeout=600)
    chk.add_tlc("SymGroup early (publish before built: HeldClosedAlways expected to be violated)", early)
    if "HeldClosedAlways" not in early.violated:
        raise common.MachineryError("SymGroup_early: TLC did not find the caller holding an unclosed group")
    by_pair = {}
    for r in crecs:
        by_pair.setdefault(frozenset(r["names"]), []).append(r)
    labels = {n: sim_labels(model_gens[n]) for n in model_gens}
    batches = []
    for n in NAMES:
        if frozenset([n]) in by_pair and n in labels and n not in real.timeout:
            for b in conc_jobs(n, labels[n], rng_for("conc", n), thorough):
                batches.append(b)
    cross = sorted(tuple(sorted(k)) for k in by_pair if len(k) == 2)
    pend = []                             # quick: three pairs share an interpreter (the first pair is its first use)
    for (n1, n2) in cross:
        if n1 in labels and n2 in labels and n1 not in real.timeout and n2 not in real.timeout:
            pend += conc_pair_jobs(n1, n2, labels[n1], labels[n2], rng_for("concpair", n1, n2), thorough)
            if thorough or len(set(tuple(sorted(j["names"])) for j in pend)) >= 3:
                batches.append(pend)
                pend = []
    if pend:
        batches.append(pend)
    njobs = 0
    nfresh = 0
    seen_classes = {}
    skipped = 0
    for jobs in batches:
        results = run_conc_child(jobs)
        skipped += len(jobs) - len(results)
        for job, result in zip(jobs, results):
            names = job["names"]
            case = {"kind": "conc", "names": names, "policy": job["policy"],
                    "closure": {n: model_group[n] for n in set(names)}, "model": by_pair[frozenset(names)]}
            out = guarded(judge_conc, case, real, V, result=result)
            njobs += 1
            nfresh += 1 if result.get("first_in_process") else 0
            chk.traces += 1
            chk.case(("conc", tuple(names), json.dumps(job["policy"], sort_keys=True)))
            if isinstance(out, tuple):
                seen_classes.setdefault(tuple(sorted(set(names))), [set(), out[2]])[0].add(out[1])
            if len(set(names)) == 1 and job["policy"]["kind"] == "cut" and result.get("first_in_process"):
                chk.sample({"two_threads": names, "schedule": job["policy"],
                            "dictionary_accesses": real_sig(result)[0], "hook_points": result.get("points")}, limit=5)
    cls = {"+".join(k): "%d of %d" % (len(v[0]), v[1]) for k, v in seen_classes.items()}
    chk.notes["conc_schedules_replayed"] = njobs
    chk.notes["conc_fresh_interpreters"] = len(batches)
    chk.notes["conc_first_use_schedules"] = nfresh
    chk.notes["conc_jobs_not_run_after_a_stuck_one"] = skipped
    chk.notes["conc_terminal_classes_exercised"] = cls
    if V.n() == 0:
        # vacuity (only meaningful on a conforming tree): a hit class and a both-miss class for every name
        for n in NAMES:
            k = (n,)
            if frozenset([n]) in by_pair and (k not in seen_classes or len(seen_classes[k][0]) < 2):
                raise common.MachineryError("vacuity: the schedules for %s reached %s of the specification's "
                                            "terminal classes" % (n, cls.get(n)))


@contextlib.contextmanager
def blas_single():
    """np.dot of a 3 x 3 with a 3 x 300000 float array keeps every BLAS thread of the shared box spinning for
    nothing: the long-list section runs numpy's BLAS on one thread (find_uniq_hkls itself has no threads)"""
    try:
        import threadpoolctl
    except ImportError:
        yield
        return
    with threadpoolctl.threadpool_limits(limits=1):
        yield


def guarded(judge, case, real, V, **kw):
    """an exception of the code under test inside a judge is a verdict about that code, not a machinery error"""
    try:
        return judge(case, real, V, **kw)
    except common.MachineryError:
        raise
    except Exception as e:
        import traceback
        tb = traceback.extract_tb(sys.exc_info()[2])
        where = "%s:%d" % (os.path.basename(tb[-1].filename), tb[-1].lineno) if tb else "?"
        V.violation(("raises", case.get("kind"), case.get("name") or "+".join(case.get("names", []))),
                    "%s case for %s: %s: %s (at %s)" % (case.get("kind"), case.get("name") or case.get("names"),
                                                       type(e).__name__, e, where), case)
        return "raised"


def rng_for(*key):
    import hashlib
    h = hashlib.sha256(repr((common.seed(),) + key).encode()).digest()
    return np.random.RandomState(int.from_bytes(h[:4], "little"))


def run(tier, replay=None):
    global SHADOW
    chk = common.Check(PROP, tier)
    shadow = common.build_shadow("normal")
    common.use_shadow(shadow)
    SHADOW = shadow
    with quiet():
        _imports(with_pbp=(tier == "thorough" and not replay))
        real = Real()
    V = Verdicts(chk)
    try:
        return _run(chk, real, V, tier, replay)
    except BaseException:
        # a machinery error after violations were collected: the violations are the verdict (harness/run.py)
        if not chk.finished and V.n():
            V.flush()
        raise


def _run(chk, real, V, tier, replay):
    for n in real.timeout:
        V.violation(("group", n, "terminates"), "sym_u.%s(): makegroup does not return within %d s (the group "
                    "generated is not finite?)" % (n, GROUP_TIME_LIMIT), {"kind": "group", "name": n, "calls": [n],
                    "strings": [], "tables": [], "gens": [], "group": [], "cells": [], "cachekeys": None})
    if replay:
        return do_replay(chk, real, V, replay)
    thorough = tier == "thorough"
    t0 = time.time()

    # ---- 1. symcache behaviours (mode B) ----------------------------------------------------
    fixed = real.trigonal_fixed()
    cache_cfgs = ["SymGroup_cache.cfg"] + (["SymGroup_cache3.cfg"] if thorough else [])
    model_group = {}
    model_gens = {}
    cells = {}
    nbeh = 0
    for base in cache_cfgs:
        res, recs = tlc_records(cfg_variant(base, fixed=fixed, tag="c"), base, WORKERS, True, 900)
        chk.add_tlc("SymGroup %s" % base[9:-4], res,
                    require_cover=("CallHit", "CallMiss", "AddGen", "MultiplyNew", "MultiplyOld", "Return"))
        if res.violated:
            # generation-level counterexample: confirm on the real code
            st = final_state(res)
            if not confirm_counterexample(res.violated[0], st, real, V, lambda n: []):
                raise common.MachineryError("TLC counterexample %r in %s not reproduced by the real code" %
                                            (res.violated, base))
            continue
        for r in recs:
            if len(r["calls"]) == 1:
                model_group[r["name"]] = r["group"]
                model_gens[r["name"]] = r["gens"]
                cells[r["name"]] = r["cells"]
        for r in recs:
            r["earlier"] = {n: model_group[n] for n in r["calls"][:-1] if n in model_group}
            judge_group(r, real, V)
            chk.case(("group", tuple(r["calls"])), nontrivial=len(r["calls"]) > 1)
            chk.traces += 1
            nbeh += 1
            if len(r["calls"]) == 2 and r["hit"]:
                chk.sample({"behaviour": r["calls"], "hit": True, "order": len(r["group"])}, limit=1)
    chk.notes["cache_behaviours_replayed"] = nbeh
    cells_of = lambda n: cells.get(n, [])

    # ---- 1b. the symcache protocol when the first calls come from two threads ---------------------
    if model_group:
        run_conc_section(chk, real, V, model_group, model_gens, thorough, fixed)

    # ---- 2. orbits (mode A) -------------------------------------------------------------------
    base = "SymGroup_t.cfg" if thorough else "SymGroup_q.cfg"
    # seeded hkl with entries up to 499 join the static ones of the configuration (constant BigHkls)
    big = [tuple(h) for h in seeded_hkls(rng_for("bighkl"), 40 if thorough else 8, 30, 499)]
    records, cover = run_main_config(chk, base, real, V, WORKERS, thorough, 3000 if thorough else 900, cells_of,
                                     bighkls=sorted(set(big)))
    if thorough:
        for a in ("CallMiss", "AddGen", "MultiplyNew", "MultiplyOld", "ChooseUbi", "ChooseHkl", "ScanKeep", "ScanSkip",
                  "ChooseList", "ScanListSome", "ScanListNone"):
            if cover.get(a, (0, 0))[1] == 0:
                raise common.MachineryError("vacuity: action %s never taken" % a)
        chk.notes["action_coverage"] = {k: v[1] for k, v in cover.items()}
    urecs = [r for r in records if r["kind"] == "u"]
    hrecs = [r for r in records if r["kind"] == "h"]
    grecs = [r for r in records if r["kind"] == "group"]
    for r in grecs:
        r["earlier"] = {}
        judge_group(r, real, V)
        chk.traces += 1
        chk.case(("group1", r["name"]))
    nties = 0
    per = {}
    for r in urecs:
        judge_u(r, real, V)
        chk.traces += 1
        chk.case(("u", r["name"], tup(r["x0"])), nontrivial=len(r["res"]) > 1)
        per.setdefault(r["name"], [0, 0])
        per[r["name"]][0] += 1
        if r["nmax"] > 1:
            nties += 1
            per[r["name"]][1] += 1
        if r["name"] == "hexagonal":
            chk.sample({"kind": "u", "name": r["name"], "x0": r["x0"], "res0": r["res"][0], "nmax": r["nmax"]}, limit=3)
    # hkl records are replayed in one vectorised call per group and start (the way users call it)
    byname = {}
    for r in hrecs:
        byname.setdefault(r["name"], []).append(r)
    for n, rs in byname.items():
        rs.sort(key=lambda r: r["x0"])
        case = {"kind": "h", "name": n, "hkls": [r["x0"] for r in rs], "res": [r["res"] for r in rs], "cells": cells_of(n)}
        judge_h(case, real, V)
        chk.traces += len(rs)
        for r in rs:
            chk.case(("h", n, tuple(r["x0"])), nontrivial=r["x0"] != [0, 0, 0])
    # ---- 2b. the documented range of the key beyond the lexicographic domain (SymGroup_wide.cfg) -----
    # hkl with entries 500..999: static ones + seeded ones + seeded boundary magnitudes; every start of every hkl is
    # replayed as int64 / float64 / int32 array against the specification's scan (exact, ties included)
    rs_ = rng_for("widehkl")
    wbig = seeded_hkls(rs_, 40 if thorough else 10, 500, 999)
    wb = boundary_hkls(rs_, 500, 999)
    wbig += wb if thorough else [wb[int(k_)] for k_ in rs_.choice(len(wb), size=8, replace=False)]
    wrecords, _ = run_main_config(chk, "SymGroup_wide.cfg", real, V, WORKERS, False, 3000 if thorough else 900, cells_of,
                                  bighkls=sorted(set(tuple(h) for h in wbig)))
    wname = {}
    for k_ in WIDE_COUNTS:
        WIDE_COUNTS[k_] = 0                        # (records of the main configuration whose orbit leaves 499: not counted)
    for r in wrecords:
        if r["kind"] == "h":
            wname.setdefault(r["name"], []).append(r)
    for n, rs in wname.items():
        rs.sort(key=lambda r: r["x0"])
        for r in rs:
            # the specification's own statement about the orbit against the harness's arithmetic (python integers)
            orb_ = set(tuple(mv(o, r["x0"])) for o in (model_group.get(n) or real.mats[n] or []))
            if orb_ and (r["norbit"] != len(orb_) or r["nscore"] != len(set(pinned_key(v) for v in orb_))):
                if real.mats[n] == model_group.get(n):
                    raise common.MachineryError("wide: orbit / key count of the specification differs from the harness (%s %r)"
                                                % (n, r["x0"]))
        case = {"kind": "h", "name": n, "hkls": [r["x0"] for r in rs], "res": [r["res"] for r in rs], "cells": cells_of(n)}
        guarded(judge_h, case, real, V)
        chk.traces += len(rs)
        for r in rs:
            chk.case(("hwide", n, tuple(r["x0"])))
    chk.notes["hkl_beyond_499_specification_records"] = dict(WIDE_COUNTS)
    if V.n() == 0 and (WIDE_COUNTS["injective"] < 50 or WIDE_COUNTS["unique_max"] == WIDE_COUNTS["records"]):
        raise common.MachineryError("vacuity: the hkl beyond 499 of SymGroup_wide.cfg: %r (want injective orbits and at "
                                    "least one shared largest key)" % (WIDE_COUNTS,))
    # list records (mode l): every start of every list is ONE call with the whole array
    lrecs = [r for r in records if r["kind"] == "l"]
    for r in lrecs:
        guarded(judge_l, r, real, V)
        chk.traces += len(r["starts"])
        chk.case(("l", r["name"], tuple(map(tuple, r["x0"]))), nontrivial=len(r["x0"]) > 1)
    chk.notes["hkl_list_records"] = len(lrecs)
    if not lrecs or not any(len(r["x0"]) > 1 for r in lrecs):
        raise common.MachineryError("vacuity: no hkl list record (mode l) with more than one column was emitted")
    chk.notes["orbit_records"] = {n: {"ubis": v[0], "tie_orbits": v[1]} for n, v in per.items()}
    chk.notes["hkl_records"] = len(hrecs)
    chk.notes["hkl_records_beyond_the_box"] = len([r for r in hrecs if max(abs(v) for v in r["x0"]) > 4])
    if chk.notes["hkl_records_beyond_the_box"] == 0:
        raise common.MachineryError("vacuity: no hkl record with large entries was emitted")
    if not urecs or not hrecs or len(grecs) < 1:
        raise common.MachineryError("vacuity: no orbit records emitted")
    if nties == 0 or nties == len(urecs):
        raise common.MachineryError("vacuity: CanonicalIfUnique needs both tie and non-tie orbits (%d of %d)" %
                                    (nties, len(urecs)))

    # ---- 3. TLC finds the tie (finding F12) -----------------------------------------------------
    res = common.run_tlc("SymGroup", cfg_variant("SymGroup_ties.cfg", fixed=fixed, tag="t"), workers=1, timeout=300)
    chk.add_tlc("SymGroup ties (CanonicalAlways expected to be violated)", res)
    if "CanonicalAlways" not in res.violated:
        raise common.MachineryError("SymGroup_ties: TLC did not find the trace-tie counterexample")
    st = final_state(res)
    confirm_counterexample("CanonicalAlways", st, real, V, cells_of)
    chk.traces += 1
    chk.sample({"tlc_counterexample": "CanonicalAlways", "group": st["name"], "x0": tolist(st["x0"]),
                "winners_per_start": tolist(st["res"])}, limit=4)

    # ---- 4. users on exact records --------------------------------------------------------------
    nuser = 0
    rs_ = rng_for("users")
    for n in NAMES:
        cand = [r for r in urecs if r["name"] == n]
        if not cand:
            continue
        k = 12 if thorough else 4
        pick = [cand[i] for i in sorted(rs_.choice(len(cand), size=min(k, len(cand)), replace=False))]
        for r in pick:
            judge_makeuniq(dict(r, kind="makeuniq"), real, V)
            nuser += 1
            # an orientation that is no symmetry image of x0
            G = real.mats[n]
            if G is not None:
                for _ in range(20):
                    other = np.dot(np.array(r["x0"], float), quat_matrix(rs_.normal(size=4)))
                    if misorientation_deg(G, r["x0"], other) > 1.0:
                        break
                order = [int(v) for v in rs_.permutation(len(G) + 1)]
                judge_uniq_grain_list({"kind": "uniq_grain_list", "name": n, "x0": r["x0"], "other": other.tolist(),
                                       "order": order}, real, V)
                nuser += 1
            if thorough:
                sidx = [int(v) for v in rs_.choice(len(r["res"]), size=min(3, len(r["res"])), replace=False)]
                judge_pbp({"kind": "pbp", "name": n, "x0": r["x0"], "res": r["res"], "s": sidx}, real, V)
                nuser += 1
            chk.case(("user", n, tup(r["x0"])))
    chk.notes["user_route_calls"] = nuser

    # ---- 4b. users on generic float orientations (far-apart grain, alias trigonalP) ---------------
    nuf = 0
    for n in NAMES:
        G = real.mats[n]
        if G is None:
            continue
        rs_ = rng_for("users_float", n)
        got = 0
        tries = 0
        while got < (6 if thorough else 2) and tries < 40:
            tries += 1
            cell = FLOAT_CELLS[n][tries % len(FLOAT_CELLS[n])]
            ubi = np.dot(cell_rows(cell), quat_matrix(rs_.normal(size=4)))
            for _ in range(20):
                other = np.dot(ubi, quat_matrix(rs_.normal(size=4)))
                if misorientation_deg(G, ubi, other) > 1.0:
                    break
            else:
                continue
            sym = "trigonalP" if (n == "rhombohedralP" and got % 2 == 1) else n
            case = {"kind": "users_float", "name": n, "sym": sym, "cell": list(cell), "ubi": ubi.tolist(),
                    "other": other.tolist(), "order": [int(v) for v in rs_.permutation(len(G) + 3)]}
            if guarded(judge_users_float, case, real, V) == "neartie":
                continue
            got += 1
            nuf += 1
            chk.case(("users_float", n, got))
    chk.notes["user_route_calls_float"] = nuf

    # ---- 4c. hkl arrays: large entries, many columns, input kinds ---------------------------------
    nbig = {}
    nwide = {}
    sens = 0
    for n in NAMES:
        if real.mats[n] is None:
            continue
        rs_ = rng_for("hbig", n)
        # magnitude x integer width: the documented range of the key is |h| < 1000.  ONE set of columns with entries
        # 500..999 (seeded + the magnitudes around the powers of two in every position with either sign) is handed
        # over in every judged dtype; the boundary magnitudes up to 499 join the columns of the lexicographic domain
        wide = seeded_hkls(rs_, 300 if thorough else 120, 500, 999) + boundary_hkls(rs_, 500, 999)
        wide[0] = [1, -3, 500]                               # the tie of SymGroup_hkl500.cfg (hexagonal, trigonal)
        plan = [("int64", 1000 if n != "cubic" or thorough else 600, 1, 499), ("int64", 1, 100, 499), ("int32", 200, 1, 499),
                ("float64", 200, 1, 499), ("int16", 100, 30, 499), ("float32", 100, 17, 499), ("int64", wide, 500, 999),
                ("int32", wide, 500, 999), ("float64", wide, 500, 999)]
        for dtype, ncol, lo, hi in plan:
            if isinstance(ncol, list):
                cols, ncol = ncol, len(ncol)
            else:
                cols = seeded_hkls(rs_, ncol, lo, hi)
                if ncol > 1 and dtype in HK_JUDGED:
                    cols = cols + boundary_hkls(rs_, lo, hi)
            case = {"kind": "hbig", "name": n, "dtype": dtype, "hkls": cols}
            got = guarded(judge_hbig, case, real, V)
            key = "%s %s" % (dtype, "<=499" if hi <= 499 else "500..999")
            nbig[key] = nbig.get(key, 0) + len(cols)
            if hi > 499 and isinstance(got, tuple):
                nwide[n] = [nwide.get(n, [0, 0])[0] + got[1], nwide.get(n, [0, 0])[1] + got[2]]
            chk.case(("hbig", n, dtype, ncol, hi))
            chk.traces += 1
            if dtype == "int64" and hi <= 499 and ncol > 1:
                # vacuity: columns where another packing base (512) would choose a different orbit member
                hk = np.array(cols, dtype=np.int64).T
                orb, lex = orbit_columns(real.mats[n], hk)
                k512 = (orb[:, 0, :] * 512 + orb[:, 1, :]) * 512 + orb[:, 2, :]
                alt = orb[np.argmax(k512, axis=0), :, np.arange(hk.shape[1])].T
                sens += int((alt != lex).any(axis=0).sum())
    chk.notes["hkl_array_columns"] = nbig
    chk.notes["hkl_columns_500_999_judged_canonical / key_injective"] = nwide
    if V.n() == 0:
        for n in NAMES:
            if real.mats[n] is not None and nwide.get(n, [0, 0])[0] < 100:
                raise common.MachineryError("vacuity: only %r columns beyond 499 of %s have one largest key" % (nwide.get(n), n))
    chk.notes["hkl_columns_sensitive_to_the_packing_base"] = sens
    if sens == 0 and V.n() == 0:
        raise common.MachineryError("vacuity: no seeded hkl column distinguishes the packing base")

    # ---- 4d. the list law scaled in the length: long hkl lists, one call each ------------------------
    # pool = every hkl the specification reduced for this group (modes h and l) with ITS canonical result;
    # lengths = the specification's ListSizes + two seeded ones
    tsec = os.times()
    sizes = sorted(set(int(v) for r in lrecs for v in r["sizes"]))
    if not sizes or max(sizes) <= 65536:
        raise common.MachineryError("vacuity: ListSizes of the configuration does not reach beyond 65536 columns")
    rs_ = rng_for("hlong-sizes")
    sizes = sorted(set(sizes + [int(rs_.randint(4, 3000)), int(rs_.randint(66000, 140000))]))
    nlong = {"calls": 0, "columns_judged": 0, "lengths": sizes, "dtypes": {}, "layouts": {}, "families": {}}
    for gi, n in enumerate(NAMES):
        if real.mats[n] is None:
            continue
        Gm = model_group.get(n) or real.mats[n]          # the specification's closure: operators of the expectation
        pool = {}
        for r in hrecs:
            if r["name"] == n and r.get("ndist") == 1:
                pool[tuple(r["x0"])] = tuple(r["res"][0])
        for r in lrecs:
            if r["name"] == n:
                for h, e, d in zip(r["x0"], r["lex"], r["indom"]):
                    if d:
                        pool[tuple(h)] = tuple(e)
        pk = sorted(pool)
        if pk:
            dom = lexmax_columns(Gm, np.array(pk, dtype=np.int64).T)[1]
            pk = [h for h, d in zip(pk, dom) if d]           # (pool hkl: orbit within 499 / one largest key)
        if len(pk) < 10:
            raise common.MachineryError("vacuity: the specification reduced only %d hkl for %s" % (len(pk), n))
        for si, N in enumerate(sizes):
            big = N >= 60000
            fams = LONG_FAMILIES if (thorough or N in (65537,) or (big and (si + gi) % 3 == 0)) else ("mixed",)
            for fam in fams:
                if fam != "mixed":
                    calls = [[HK_JUDGED[(gi + si + k_) % 3], HK_LAYOUTS[(gi + si + k_) % 3], False]
                             for k_ in range(2 if thorough else 1)]
                elif thorough and N <= 140000:
                    calls = [[d_, l_, True] for d_ in HK_JUDGED for l_ in HK_LAYOUTS]
                elif thorough:
                    calls = [[d_, HK_LAYOUTS[(gi + si + k_) % 3], True] for k_, d_ in enumerate(HK_JUDGED)]
                else:
                    other = ("int32", "float64")[(gi + si) % 2]
                    calls = [["int64", HK_LAYOUTS[(gi + si) % 3], (gi + si) % 2 == 0],
                             [other, HK_LAYOUTS[(gi + si + 1) % 3], (gi + si) % 2 == 1]]
                    if not big:
                        calls.append([("float64", "int32")[(gi + si) % 2], HK_LAYOUTS[(gi + si + 2) % 3], True])
                case = {"kind": "hlong", "name": n, "n": N, "family": fam, "G": Gm,
                        "seed": int(rng_for("hlong", n, N, fam).randint(1 << 30)),
                        "pool": [list(h) for h in pk], "pool_exp": [list(pool[h]) for h in pk], "calls": calls}
                with blas_single():
                    out = guarded(judge_hlong, case, real, V)
                chk.case(("hlong", n, N, fam), nontrivial=N > 1)
                chk.traces += len(calls)
                nlong["calls"] += len(calls) + sum(1 for c_ in calls if c_[2] and N > 1)
                nlong["columns_judged"] += out if isinstance(out, int) else 0
                nlong["families"][fam] = nlong["families"].get(fam, 0) + 1
                for c_ in calls:
                    nlong["dtypes"][c_[0]] = nlong["dtypes"].get(c_[0], 0) + 1
                    nlong["layouts"][c_[1]] = nlong["layouts"].get(c_[1], 0) + 1
        if n == "hexagonal":
            chk.sample({"kind": "hlong", "name": n, "lengths": sizes, "pool_size": len(pk)}, limit=1)
    t2 = os.times()
    nlong["cpu_s"] = round((t2[0] + t2[1]) - (tsec[0] + tsec[1]), 1)
    nlong["wall_s"] = round(t2[4] - tsec[4], 1)
    chk.notes["hkl_long_lists"] = nlong

    # ---- 4e. the users on many orientations in one call --------------------------------------------
    nmany = {}
    rs_ = rng_for("users_many")
    longone = ["orthorhombic", "monoclinic_c", "monoclinic_a", "monoclinic_b"][int(rs_.randint(4))]
    for n in NAMES:
        if real.mats[n] is None:
            continue
        plan = [(1, 1, 1), (2, 2, 3), (5, 257, 40), (12, int(rs_.randint(1000, 3000)), 600 if not thorough else 3000)]
        if thorough:
            plan.append((20, 70001 if ORDER[n] <= 8 else 20001, 0))
        elif n == longone:
            plan.append((20, 65536 + int(rs_.randint(1, 9000)), 0))
        for K, N, M in plan:
            case = {"kind": "users_many", "name": n, "K": K, "n": N, "m": M,
                    "seed": int(rng_for("users_many", n, N).randint(1 << 30))}
            guarded(judge_users_many, case, real, V)
            chk.case(("users_many", n, N, M))
            chk.traces += 1
            nmany[n] = nmany.get(n, 0) + N + M
    t3 = os.times()
    nmany["cpu_s"] = round((t3[0] + t3[1]) - (t2[0] + t2[1]), 1)
    chk.notes["user_route_orientations_in_bulk"] = nmany

    # ---- 5. float orientations: generic, scaled cells 1 A .. 1e3 A, input kinds, near ties ---------
    nfl = 0
    nnear = 0
    kinds_used = {}
    scales_used = {}
    for n in NAMES:
        rs_ = rng_for("float", n)
        want = 60 if thorough else 12
        got = 0
        tries = 0
        while got < want and tries < 10 * want:
            tries += 1
            cell = FLOAT_CELLS[n][tries % len(FLOAT_CELLS[n])]
            sc = (1.0, 0.25, 100.0)[tries % 3]
            cell = tuple(v * sc for v in cell[:3]) + tuple(cell[3:])
            ubi = np.dot(cell_rows(cell), quat_matrix(rs_.normal(size=4)))
            kinds = [INPUT_KINDS[int(v)] for v in rs_.randint(len(INPUT_KINDS), size=4)]
            case = {"kind": "float", "name": n, "cell": list(cell), "ubi": ubi.tolist(), "kinds": kinds}
            if guarded(judge_float, case, real, V) == "neartie":
                nnear += 1
                continue
            got += 1
            nfl += 1
            for k in kinds:
                kinds_used[k] = kinds_used.get(k, 0) + 1
            scales_used[str(sc)] = scales_used.get(str(sc), 0) + 1
            chk.case(("float", n, got))
    # near ties: exact tie orientations of the specification's records turned by 0, 1e-13 ... 1e-3 rad
    nperturbed = {"neartie": 0, "ok": 0}
    for n in NAMES:
        ties = [r for r in urecs if r["name"] == n and r["nmax"] > 1]
        if not ties:
            continue
        rs_ = rng_for("neartie", n)
        pick = [ties[int(v)] for v in rs_.choice(len(ties), size=min(len(ties), 8 if thorough else 2), replace=False)]
        for r in pick:
            for delta in (0.0, 1e-13, 1e-7, 1e-5, 1e-3):
                ax = rs_.normal(size=3)
                ax /= np.sqrt(np.dot(ax, ax))
                q = np.array([math.cos(delta / 2)] + list(math.sin(delta / 2) * ax))
                ubi = np.dot(np.array(r["x0"], float), quat_matrix(q))
                case = {"kind": "float", "name": n, "ubi": ubi.tolist(), "delta": delta, "tie_of": r["x0"],
                        "kinds": ["array", "list", "fortran"]}
                out = guarded(judge_float, case, real, V)
                nperturbed[out] = nperturbed.get(out, 0) + 1
                chk.case(("neartie", n, tup(r["x0"]), delta))
    chk.notes["float_orientations"] = nfl
    chk.notes["float_near_ties_among_the_generic_ones"] = nnear
    chk.notes["float_input_kinds"] = kinds_used
    chk.notes["float_cell_scales"] = scales_used
    chk.notes["float_perturbed_tie_orientations"] = nperturbed
    if V.n() == 0 and (nperturbed["neartie"] == 0 or nperturbed["ok"] == 0):
        raise common.MachineryError("vacuity: perturbed tie orientations must fall on both sides of the near-tie "
                                    "margin (%r)" % (nperturbed,))

    if thorough:
        res = common.run_tlc("SymGroup", cfg_variant("SymGroup_hkl500.cfg", fixed=fixed, tag="h5"), workers=1, timeout=900)
        chk.add_tlc("SymGroup hkl500 (HklCanonical expected to be violated at |l| = 500)", res)
        if "HklCanonical" not in res.violated:
            raise common.MachineryError("SymGroup_hkl500: TLC did not find the key tie at 500")
    if OBSERVATIONS:
        chk.notes["observations"] = dict(OBSERVATIONS)

    if thorough:
        res = common.run_tlc("SymGroup", cfg_variant("SymGroup_blocks.cfg", fixed=fixed, tag="bl"), workers=1, timeout=900)
        chk.add_tlc("SymGroup blocks (block-wise variant: ListColumnwise expected to be violated at 3 columns)", res)
        if "ListColumnwise" not in res.violated:
            raise common.MachineryError("SymGroup_blocks: TLC did not find the unreduced trailing column")
        selftest(real, urecs, hrecs, grecs, cells_of, lrecs)
    V.flush()
    chk.rule = ("TLC enumerates, for each of the ten named groups, the makegroup behaviour, every sequence of 2 (3) "
                "named-group calls, every interleaving of two concurrent first calls (quick: each name against itself "
                "+ 9 pairs; thorough: all 55 pairs), every exact UBI = conforming integer cell x rational rotation "
                "|q|^2R(q) with quaternion components in -QMax..QMax, every hkl of the box and static + seeded hkl up "
                "to 499 (SymGroup_wide.cfg: static + seeded + power-of-two boundary hkl with entries 500..999, as int64 / "
                "float64 / int32 arrays), each from every group element applied beforehand; seeded: two-thread schedules, hkl arrays, "
                "float orientations (scales, input kinds, perturbed ties), users; non-trivial = group of order > 1 / "
                "hkl != 0 / call sequence longer than 1; hkl lists: every list of 1..ListMax columns over ListPool as "
                "one array, and every emitted hkl scaled to lists of ListSizes columns (per-column expectation)")
    chk.exhaustive = True
    chk.assumptions = ["exact cases are integer UBIs (products of small integers are exact in double precision)",
                       "float orientations: when the two best traces of the orbit are closer than 1e-10 relative the "
                       "canonical clause is not judged (ties are decided in exact arithmetic only); every other clause is",
                       "hkl clauses: int64 / int32 / float64 arrays with entries up to 999; the lexicographic maximum where "
                       "the whole orbit stays within 499; beyond (the packed key is not injective on every orbit, "
                       "SymGroup_hkl500.cfg) the same member from every start is required where ONE orbit member has the "
                       "largest key of the pinned base 1000 (exact integers), orbits with a shared largest key are counted; "
                       "int16 / float32: key overflows / loses bits, counted",
                       "long hkl lists: the columns are drawn from the hkl the specification reduced and from seeded "
                       "triples; the expectation per column is the specification's result / the exact lexicographic "
                       "maximum; numpy's BLAS runs on one thread in that section",
                       "two threads: CPython threads scheduled at the hook points (dictionary accesses, group(), "
                       "additem, op) - a thread switch inside numpy or between two bytecodes of one step is not modelled",
                       "point_by_point.initializer / idxpoint are driven with the file readers, indexer, peak selection "
                       "and unique-peak counter stubbed (thorough tier only: importing the module costs 25 s)"]
    chk.notes["tolerance"] = "exact integer equality for exact cases; 1e-9*scale+1e-12 for float orientations"
    chk.notes["trigonal_generator_variant"] = "fixed" if fixed else "pinned"
    return chk.finish()


# ------------------------------------------------------------------------------------------

def do_replay(chk, real, V, path):
    with open(path) as f:
        d = json.load(f)
    case = d["case"]
    kind = case.get("kind")
    if kind not in JUDGES:
        raise common.MachineryError("replay: unknown case kind %r" % kind)
    JUDGES[kind](case, real, V)
    chk.traces += 1
    chk.case(("replay", path))
    chk.exhaustive = False
    chk.rule = "re-execution of one saved case"
    # re-judged against the current tree; the replay file itself is the evidence (not rewritten, and no
    # other file of replay/C16 is clobbered)
    want = case.get("violation_class")
    for key in V.order:
        what = V.classes[key][0]
        if want is not None and [str(k) for k in key] != want:
            # the case also carries the expectations of the model of the tree it was recorded on; a later
            # tree may legitimately differ there (e.g. a repaired generator): only the saved class counts
            print("  (not the saved class, ignored: %s)" % what)
            continue
        print("  violation: %s" % what)
        chk.violations.append((what, os.path.abspath(path)))
    for fid, (what, count) in V.known.items():
        for _ in range(count):
            chk.known_finding(fid, what)
    return chk.finish()


def selftest_new_families(real, urecs, grecs, fixed, rejected):
    """two threads, hkl arrays, near ties, users on float orientations: accepted as they are, rejected when the
    expectation / the observed behaviour is perturbed"""
    # ---- two threads
    res = common.run_tlc("SymGroup", cfg_variant("SymGroup_conc.cfg", fixed=fixed, tag="sc",
                                                 pairs=[["monoclinic_c"], ["tetragonal"]]), workers=WORKERS, timeout=600)
    if res.violated or not res.finished:
        raise common.MachineryError("selftest: two-thread TLC run failed %r %r" % (res.violated, res.error))
    crecs = [r for r in parse_records(res, "selftest conc") if r.get("kind") == "conc"]
    closure = {r["name"]: r["group"] for r in grecs}
    jobs = [{"names": ["monoclinic_c"] * 2, "policy": {"kind": "cut", "first": 0, "k": 4}},
            {"names": ["tetragonal"] * 2, "policy": {"kind": "cut", "first": 1, "k": 40}},
            {"names": ["tetragonal"] * 2, "policy": {"kind": "cut", "first": 0, "k": 200}}]
    results = run_conc_child(jobs)
    for job, result in zip(jobs, results):
        n = job["names"][0]
        model = [r for r in crecs if r["names"][0] == n]
        case = {"kind": "conc", "names": job["names"], "policy": job["policy"], "closure": {k: v for k, v in closure.items() if k == n},
                "model": model}
        v = Verdicts(None)
        judge_conc(case, real, v, result=result)
        if v.n():
            raise common.MachineryError("selftest: unperturbed two-thread result rejected: %r" % (v.order,))
        m2 = copy.deepcopy(model)
        for r in m2:
            for e in r["ev"]:
                e[2] += 1
        v = Verdicts(None)
        judge_conc(dict(case, model=m2), real, v, result=result)
        if ("conc", "conform", "protocol", "same") not in v.classes:
            raise common.MachineryError("selftest: perturbed dictionary-access history of the model not rejected")
        r2 = copy.deepcopy(result)
        r2["threads"][1]["returned"] = r2["threads"][1]["returned"][:1]        # what a lookup in mid-build would hand out
        v = Verdicts(None)
        judge_conc(case, real, v, result=r2)
        if ("conc", n, "held") not in v.classes:
            raise common.MachineryError("selftest: a caller holding an unfinished group was not rejected")
        r3 = copy.deepcopy(result)
        for e in r3["events"]:
            if e["op"] == "pub":
                e["len"] = 1                                                    # stored before it was built
        v = Verdicts(None)
        judge_conc(case, real, v, result=r3)
        if ("conc", "conform", "protocol", "same") not in v.classes:
            raise common.MachineryError("selftest: a group published before it was built was not rejected")
    # ---- hkl arrays: a packing base of 100 must be noticed
    rs_ = np.random.RandomState(5)
    hcase = {"kind": "hbig", "name": "tetragonal", "dtype": "int64", "hkls": seeded_hkls(rs_, 200, 1, 499)}
    if rejected(judge_hbig, hcase):
        raise common.MachineryError("selftest: unperturbed hkl array rejected")
    orig = sym_u.find_uniq_hkls
    try:
        sym_u.find_uniq_hkls = lambda hkls, grp: orig(hkls, grp, func=lambda h: sym_u.hklmax(h, 100))
        if not rejected(judge_hbig, hcase):
            raise common.MachineryError("selftest: find_uniq_hkls with packing base 100 not rejected")
    finally:
        sym_u.find_uniq_hkls = orig
    # ---- magnitude x integer width: a key of base 2048 computed in the caller's int32 must be noticed beyond 511
    wcase = {"kind": "hbig", "name": "monoclinic_a", "dtype": "int32", "hkls": boundary_hkls(rs_, 500, 999)}
    if rejected(judge_hbig, wcase):
        raise common.MachineryError("selftest: unperturbed int32 hkl array with entries 500..999 rejected")
    try:
        sym_u.find_uniq_hkls = lambda hkls, grp: orig(hkls, grp, func=lambda h: sym_u.hklmax(h, 2048))
        if not rejected(judge_hbig, wcase):
            raise common.MachineryError("selftest: find_uniq_hkls with a key that leaves int32 not rejected")
    finally:
        sym_u.find_uniq_hkls = orig
    # ---- near tie: a result between the two tying members must be noticed although the canonical clause is off
    t = next((r for r in urecs if r["nmax"] > 1 and r["name"] == "tetragonal"), None)
    if t is not None:
        ncase = {"kind": "float", "name": "tetragonal", "ubi": [[float(v) for v in row] for row in t["x0"]],
                 "kinds": ["array", "list", "fortran", "strided", "func", "debug"]}
        v = Verdicts(None)
        if judge_float(ncase, real, v) != "neartie" or v.n():
            raise common.MachineryError("selftest: exact tie orientation not accepted as a near tie")
        origu = sym_u.find_uniq_u

        def averaged(u, grp, debug=0, func=None):
            G_ = [np.dot(o, u) for o in grp.group]
            tr_ = sorted(G_, key=lambda m: -float(np.trace(m)))
            return 0.5 * (tr_[0] + tr_[1])
        try:
            sym_u.find_uniq_u = averaged
            if not rejected(judge_float, ncase):
                raise common.MachineryError("selftest: near-tie result outside the orbit not rejected")
        finally:
            sym_u.find_uniq_u = origu
    # ---- users on float orientations: the 'other' grain made a symmetry image must change the count
    G = real.mats["tetragonal"]
    ubi = np.dot(cell_rows(FLOAT_CELLS["tetragonal"][0]), quat_matrix(np.array([0.9, 0.1, -0.3, 0.2])))
    other = np.dot(ubi, quat_matrix(np.array([0.8, -0.3, 0.4, 0.1])))
    ucase = {"kind": "users_float", "name": "tetragonal", "sym": "tetragonal", "ubi": ubi.tolist(), "other": other.tolist(),
             "order": list(range(len(G) + 3))}
    if rejected(judge_users_float, ucase):
        raise common.MachineryError("selftest: unperturbed float user case rejected")
    ucase2 = dict(ucase, other=np.dot(np.array(G[1], float), ubi).tolist())
    if not rejected(judge_users_float, ucase2):
        raise common.MachineryError("selftest: float user case with a wrong grain count not rejected")


def selftest_lists(real, hrecs, lrecs, grecs, rejected):
    """the list judges: accepted as they are; rejected when the specification's expectation is perturbed, when the
    reduction forgets the trailing partial block of a long list, when it depends on the position, when a user
    skips an orientation"""
    l = next(r for r in lrecs if r["name"] == "tetragonal" and len(r["x0"]) == 2 and r["x0"][0] != r["x0"][1]
             and [0, 0, 0] not in r["x0"])
    if rejected(judge_l, l):
        raise common.MachineryError("selftest: unperturbed list record rejected")
    l2 = copy.deepcopy(l)
    l2["res"][3][1][0] += 1
    if not rejected(judge_l, l2):
        raise common.MachineryError("selftest: perturbed list expectation (conformance) not rejected")
    l3 = copy.deepcopy(l)
    l3["lex"][1] = l["starts"][1][1] if l["starts"][1][1] != l["lex"][1] else l["starts"][2][1]
    if not rejected(judge_l, l3):
        raise common.MachineryError("selftest: perturbed lexicographic maximum of a list column not rejected")
    closure = {r["name"]: r["group"] for r in grecs}
    pool = {tuple(r["x0"]): tuple(r["res"][0]) for r in hrecs
            if r["name"] == "tetragonal" and r.get("ndist") == 1 and max(abs(v) for v in r["x0"]) <= 499}
    pk = sorted(pool)
    hc = {"kind": "hlong", "name": "tetragonal", "n": 70001, "family": "mixed", "seed": 11, "G": closure.get("tetragonal"),
          "pool": [list(h) for h in pk], "pool_exp": [list(pool[h]) for h in pk],
          "calls": [["int64", "C", True], ["float64", "F", False]]}
    if rejected(judge_hlong, hc):
        raise common.MachineryError("selftest: unperturbed long hkl list rejected")
    hp = copy.deepcopy(hc)
    k = next(i for i, h in enumerate(pk) if h != (0, 0, 0))
    hp["pool_exp"][k][2] += 1
    try:
        judge_hlong(hp, real, Verdicts(None))
        raise common.MachineryError("selftest: perturbed pool expectation of a long list went unnoticed")
    except common.MachineryError as e:
        if "went unnoticed" in str(e):
            raise
    orig = sym_u.find_uniq_hkls
    try:
        def blockwise(hkls, grp, bs=1 << 16):
            out = hkls.copy()
            nb = hkls.shape[1] // bs if hkls.shape[1] > bs else 1
            w = bs if hkls.shape[1] > bs else hkls.shape[1]
            for i in range(nb):
                out[:, i * w:(i + 1) * w] = orig(hkls[:, i * w:(i + 1) * w], grp)
            return out
        sym_u.find_uniq_hkls = blockwise
        if rejected(judge_hlong, dict(hc, n=65536)):
            raise common.MachineryError("selftest: block-wise reduction rejected at a whole number of blocks")
        if not rejected(judge_hlong, hc):
            raise common.MachineryError("selftest: unreduced trailing block of a long hkl list not rejected")

        def positional(hkls, grp):
            out = orig(hkls, grp)
            if hkls.shape[1] > 5:
                out[:, 5] = hkls[:, 5]
            return out
        sym_u.find_uniq_hkls = positional
        v = Verdicts(None)
        judge_hlong(dict(hc, n=300), real, v)
        if ("hlong", "tetragonal", "position") not in v.classes:
            raise common.MachineryError("selftest: position-dependent reduction of a list not rejected")
    finally:
        sym_u.find_uniq_hkls = orig
    uc = {"kind": "users_many", "name": "tetragonal", "K": 5, "n": 700, "m": 60, "seed": 3}
    if rejected(judge_users_many, uc):
        raise common.MachineryError("selftest: unperturbed bulk user case rejected")
    origu = sym_u.find_uniq_u
    count = [0]

    def lazy(u, grp, *a, **k):
        count[0] += 1
        return np.array(u) if count[0] > 512 else origu(u, grp, *a, **k)
    try:
        sym_u.find_uniq_u = lazy
        if not rejected(judge_users_many, uc):
            raise common.MachineryError("selftest: makeuniq leaving the orientations after the 512th unreduced not rejected")
    finally:
        sym_u.find_uniq_u = origu


def selftest(real=None, urecs=None, hrecs=None, grecs=None, cells_of=None, lrecs=None):
    """the binding rejects perturbed expectations"""
    global SHADOW
    if real is None:
        shadow = common.build_shadow("normal")
        SHADOW = shadow
        if np is None:
            common.use_shadow(shadow)
            _imports()
        with quiet():
            real = Real()
    fixed = real.trigonal_fixed()
    if urecs is None:
        res = common.run_tlc("SymGroup", cfg_variant("SymGroup_q.cfg", names=["tetragonal", "hexagonal"], fixed=fixed,
                                                     tag="s"), workers=WORKERS, timeout=300)
        if res.violated or not res.finished:
            raise common.MachineryError("selftest: TLC run failed %r %r" % (res.violated, res.error))
        recs = parse_records(res, "selftest")
        urecs = [r for r in recs if r["kind"] == "u"]
        hrecs = [r for r in recs if r["kind"] == "h"]
        grecs = [r for r in recs if r["kind"] == "group"]
        lrecs = [r for r in recs if r["kind"] == "l"]
        cells = {r["name"]: r["cells"] for r in grecs}
        cells_of = lambda n: cells.get(n, [])

    def rejected(judge, case):
        v = Verdicts(None)
        judge(case, real, v)
        return v.n() > 0

    # unperturbed records of a sound group are accepted (otherwise the perturbation proves nothing)
    u = next(r for r in urecs if r["name"] == "tetragonal" and r["nmax"] == 1 and len(r["res"]) > 1)
    if rejected(judge_u, u):
        raise common.MachineryError("selftest: unperturbed orbit record rejected")
    u2 = copy.deepcopy(u)
    u2["res"][3][1][2] += 1
    if not rejected(judge_u, u2):
        raise common.MachineryError("selftest: perturbed find_uniq_u expectation not rejected")
    u3 = copy.deepcopy(u)
    u3["res"] = [u["res"][0]] * (len(u["res"]) - 1)
    if not rejected(judge_u, u3):
        raise common.MachineryError("selftest: orbit record with a missing start not rejected")
    # a tie record with a wrong tie count must not be excusable
    t = next((r for r in urecs if r["nmax"] > 1 and r["name"] == "tetragonal"), None)
    if t is not None:
        class FakeChk(object):
            def finding(self, fid):
                return {"id": fid}
        v = Verdicts(FakeChk())
        judge_u(t, real, v)
        if v.n() != 0 or TIE_ID not in v.known:
            raise common.MachineryError("selftest: genuine tie record not matched as the known finding")
        t2 = copy.deepcopy(t)
        j = next(k for k in range(len(t["res"])) if t["res"][k] != t["res"][0])
        t2["res"][0], t2["res"][j] = t["res"][j], t["res"][0]
        v = Verdicts(FakeChk())
        judge_u(t2, real, v)
        if v.n() == 0:
            raise common.MachineryError("selftest: tie record departing from the model was excused")
        t3 = copy.deepcopy(t)
        t3["nmax"] = 1
        v = Verdicts(FakeChk())
        judge_u(t3, real, v)
        if v.n() == 0:
            raise common.MachineryError("selftest: non-canonical record without a model-side tie was excused")
    g = next(r for r in grecs if r["name"] == "hexagonal")
    g2 = copy.deepcopy(g)
    g2["earlier"] = {}
    g2["group"][4], g2["group"][5] = g2["group"][5], g2["group"][4]
    if not rejected(judge_group, g2):
        raise common.MachineryError("selftest: permuted group list not rejected")
    g3 = copy.deepcopy(g)
    g3["earlier"] = {}
    g3["gens"][0] = tr(g3["gens"][0])
    if not rejected(judge_group, g3):
        raise common.MachineryError("selftest: transposed generator not rejected")
    hs = sorted([r for r in hrecs if r["name"] == "hexagonal"], key=lambda r: r["x0"])
    hc = {"kind": "h", "name": "hexagonal", "hkls": [r["x0"] for r in hs], "res": [copy.deepcopy(r["res"]) for r in hs],
          "cells": cells_of("hexagonal")}
    if rejected(judge_h, hc):
        raise common.MachineryError("selftest: unperturbed hkl records rejected")
    hc["res"][5][2][0] += 1
    if not rejected(judge_h, hc):
        raise common.MachineryError("selftest: perturbed find_uniq_hkls expectation not rejected")
    if "ImageD11.sinograms.point_by_point" in sys.modules:
        pc = {"kind": "pbp", "name": u["name"], "x0": u["x0"], "res": copy.deepcopy(u["res"]), "s": [0, 2]}
        if rejected(judge_pbp, pc):
            raise common.MachineryError("selftest: unperturbed idxpoint case rejected")
        pc["res"][2] = mm(real.mats[u["name"]][1], u["res"][2])
        if not rejected(judge_pbp, pc):
            raise common.MachineryError("selftest: perturbed idxpoint expectation not rejected")
    selftest_new_families(real, urecs, grecs, fixed, rejected)
    selftest_lists(real, hrecs, lrecs or [], grecs, rejected)
    # float judge: a cell that does NOT conform (gamma = 60 with the hexagonal group) must be flagged
    ubi = np.dot(cell_rows((3.2, 3.2, 5.2, 90, 90, 60)), quat_matrix(np.array([0.9, 0.1, -0.3, 0.2])))
    if not rejected(judge_float, {"kind": "float", "name": "hexagonal", "ubi": ubi.tolist()}):
        raise common.MachineryError("selftest: non-conforming cell not flagged by the float judge")
    return True

"""C16 - symmetry groups are proper point groups; orientation reduction is canonical.

Specification: specs/SymGroup.tla (configurations SymGroup_q / _t / _cache / _cache3 / _ties).

Binding (DESIGN.md section 5, C16):
  mode B  every sequence of named-group calls TLC explores (symcache hit / miss) is replayed against
          ImageD11.sym_u with a cleared cache: group list identical to the model's closure *in
          generation order*, cache keys, object identity on a hit, earlier objects untouched;
  mode A  every orbit record TLC emits (exact integer UBI x every group element applied beforehand,
          every hkl of the box x every group element) is fed to sym_u.find_uniq_u /
          sym_u.find_uniq_hkls and compared with the specification's result for that start;
          the property clauses (member of the orbit, canonical, idempotent, metric kept, same indexed
          lattice) are re-evaluated on the *real* outputs in exact integer arithmetic;
  plus    seeded generic float orientations of conforming cells (ties have measure zero there),
          and the users refinegrains.makeuniq, grid_index_parallel.uniq_grain_list and (thorough)
          sinograms.point_by_point.idxpoint.

Findings
  C16-find-uniq-u-trace-tie : exact trace ties make find_uniq_u starting-point dependent (F12).
          Excused only when (a) exact integer arithmetic shows the maximal trace is attained by
          >= 2 orbit members, (b) the real outputs equal the specification's first-strict-maximum
          scan from every start, (c) the set of real outputs is exactly the set of maximisers.
  C16-trigonal-setting      : sym_u.trigonal() does not preserve the metric of the gamma = 120 cell.
"""
from __future__ import print_function
import os, sys, json, re, io, math, time, itertools, contextlib, copy
import common

PROP = "C16"
NAMES = ["cubic", "hexagonal", "trigonal", "rhombohedralP", "tetragonal", "orthorhombic",
         "monoclinic_c", "monoclinic_a", "monoclinic_b", "triclinic"]
ORDER = {"cubic": 24, "hexagonal": 12, "trigonal": 6, "rhombohedralP": 6, "tetragonal": 8,
         "orthorhombic": 4, "monoclinic_c": 2, "monoclinic_a": 2, "monoclinic_b": 2, "triclinic": 1}
TIE_ID = "C16-find-uniq-u-trace-tie"
TRIG_ID = "C16-trigonal-setting"
TRIGONAL_FIXED = ("-y,x-y,z", "y,x,-z")          # the repaired generator set (TrigonalFixed = TRUE)
WORKERS = 16
METRIC_CLAUSES = ("MetricPreserved", "Holohedry", "TransposeMatters", "MetricKept", "HklNormKept")

np = None          # set by _imports() after use_shadow
sym_u = None


# ------------------------------------------------------------------------------------------
# exact integer 3x3 algebra on nested lists (python ints: no overflow, no rounding)

def mm(A, B):
    return [[sum(A[i][k] * B[k][j] for k in range(3)) for j in range(3)] for i in range(3)]


def mv(A, v):
    return [sum(A[i][k] * v[k] for k in range(3)) for i in range(3)]


def tr(A):
    return [[A[j][i] for j in range(3)] for i in range(3)]


def det(A):
    return (A[0][0] * (A[1][1] * A[2][2] - A[1][2] * A[2][1])
            - A[0][1] * (A[1][0] * A[2][2] - A[1][2] * A[2][0])
            + A[0][2] * (A[1][0] * A[2][1] - A[1][1] * A[2][0]))


def adj(A):
    def c(i, j):
        r = [k for k in range(3) if k != i]
        s = [k for k in range(3) if k != j]
        return (-1) ** (i + j) * (A[r[0]][s[0]] * A[r[1]][s[1]] - A[r[0]][s[1]] * A[r[1]][s[0]])
    return [[c(j, i) for j in range(3)] for i in range(3)]


def trace(A):
    return A[0][0] + A[1][1] + A[2][2]


def tup(A):
    return tuple(tuple(r) for r in A)


I3 = [[1, 0, 0], [0, 1, 0], [0, 0, 1]]


def hklkey(h):
    return (h[0] * 1000 + h[1]) * 1000 + h[2]


def as_int_matrix(x):
    """real output (numpy) -> nested list of python ints, or None when an entry is not an exact integer"""
    a = np.asarray(x, dtype=float)
    r = np.round(a)
    if a.shape != (3, 3) or not np.all(np.isfinite(a)) or not np.all(a == r):
        return None
    return [[int(v) for v in row] for row in r]


def parse_opstring(s):
    """independent reading of a symmetry string: row j = coefficients of x, y, z in expression j"""
    parts = s.split(",")
    if len(parts) != 3:
        raise ValueError(s)
    tab = []
    for p in parts:
        p = p.replace(" ", "")
        row = [0, 0, 0]
        pos = 0
        for m in re.finditer(r"([+-]?)([xyz])", p):
            if m.start() != pos:
                raise ValueError(s)
            pos = m.end()
            row["xyz".index(m.group(2))] += -1 if m.group(1) == "-" else 1
        if pos != len(p) or pos == 0:
            raise ValueError(s)
        tab.append(row)
    return tab


# ------------------------------------------------------------------------------------------
# verdict collection: one VIOLATION per distinct (class) with the first case as replay

class Verdicts(object):
    def __init__(self, chk=None):
        self.chk = chk
        self.classes = {}       # key -> [what, case, count]
        self.order = []
        self.known = {}         # finding id -> [what, count]

    def violation(self, key, what, case):
        if key not in self.classes:
            # the saved case remembers which class of violation it witnesses: --replay re-judges that class
            self.classes[key] = [what, dict(case, violation_class=[str(k) for k in key]), 0]
            self.order.append(key)
        self.classes[key][2] += 1

    def known_finding(self, fid, what):
        self.known.setdefault(fid, [what, 0])
        self.known[fid][1] += 1

    def finding(self, fid):
        return self.chk.finding(fid) if self.chk is not None else None

    def n(self):
        return len(self.classes)

    def total(self):
        return sum(c[2] for c in self.classes.values()) + sum(k[1] for k in self.known.values())

    def flush(self):
        for key in self.order:
            what, case, count = self.classes[key]
            self.chk.violation("%s [%d case(s) of class %s]" % (what, count, "/".join(str(k) for k in key)), case)
        for fid, (what, count) in self.known.items():
            for _ in range(count):
                self.chk.known_finding(fid, what)


# ------------------------------------------------------------------------------------------
# the real code

def _under_test(mod):
    """binding guard: the module object really is the file of the tree under test ($VERIF_REPO)"""
    real = os.path.realpath(mod.__file__)
    if not real.startswith(os.path.realpath(common.REPO) + os.sep):
        raise common.MachineryError("%s resolved to %s, not to the tree under test %s" %
                                    (mod.__name__, real, common.REPO))
    return mod


def _imports(with_pbp=False):
    """import everything the judges use NOW: the shadow directory lives in a cache shared with concurrent
    checks of other trees, nothing may be resolved lazily later"""
    global np, sym_u
    import numpy
    np = numpy
    from ImageD11 import sym_u as s
    sym_u = _under_test(s)
    from ImageD11 import refinegrains, grain, grid_index_parallel
    for m in (refinegrains, grain, grid_index_parallel):
        _under_test(m)
    if with_pbp:
        _pbp()


def _pbp():
    import ImageD11.sinograms.point_by_point as pbp
    return _under_test(pbp)


@contextlib.contextmanager
def quiet():
    buf = io.StringIO()
    with contextlib.redirect_stdout(buf):
        yield buf


class GroupTimeout(Exception):
    pass


@contextlib.contextmanager
def time_limit(seconds):
    """makegroup() of a group that is not finite never returns: bound it (the specification proves
    termination within Order(name) appends; the real cubic closure takes well under a second)"""
    import signal

    def handler(signum, frame):
        raise GroupTimeout()
    old = signal.signal(signal.SIGALRM, handler)
    signal.setitimer(signal.ITIMER_REAL, seconds)
    try:
        yield
    finally:
        signal.setitimer(signal.ITIMER_REAL, 0)
        signal.signal(signal.SIGALRM, old)


GROUP_TIME_LIMIT = 60.0


def real_group_fresh(name):
    """call the named group function with an empty symcache; returns (group object, strings passed
    to generate_group)"""
    sym_u.symcache.clear()
    seen = []
    orig = sym_u.generate_group

    def spy(*args):
        seen.append(args)
        return orig(*args)
    sym_u.generate_group = spy
    try:
        with time_limit(GROUP_TIME_LIMIT):
            g = sym_u.getgroup(name)()
    finally:
        sym_u.generate_group = orig
    return g, seen


class Real(object):
    """the real groups of the tree under test (built once, from an empty cache)"""

    def __init__(self):
        self.obj = {}
        self.strings = {}
        self.mats = {}          # exact integer copies (None when an entry is not an integer)
        self.timeout = []
        for n in NAMES:
            try:
                g, seen = real_group_fresh(n)
            except GroupTimeout:
                self.timeout.append(n)
                self.obj[n] = None
                self.strings[n] = None
                self.mats[n] = None
                continue
            self.obj[n] = g
            self.strings[n] = tuple(seen[0]) if len(seen) == 1 else None
            ms = [as_int_matrix(m) for m in g.group]
            self.mats[n] = None if any(m is None for m in ms) else ms
        sym_u.symcache.clear()

    def trigonal_fixed(self):
        return self.strings.get("trigonal") == TRIGONAL_FIXED


# ------------------------------------------------------------------------------------------
# judges: each takes a case (a dict that is also the replay file content) and reports into Verdicts

def group_clauses(G, cells):
    """the property's group clauses evaluated on a list of exact integer matrices.  Returns the list
    of failed clause names (independent of the specification's generation procedure)."""
    failed = []
    S = set(tup(m) for m in G)
    if any(tup(mm(x, y)) not in S for x in G for y in G):
        failed.append("Closed")
    if tup(I3) not in S:
        failed.append("HasIdentity")
    if any(not any(mm(x, y) == I3 and mm(y, x) == I3 for y in G) for x in G):
        failed.append("HasInverses")
    if any(det(x) != 1 for x in G):
        failed.append("DetOne")
    for c in cells:
        met = mm(c, tr(c))
        if any(mm(mm(x, met), tr(x)) != met for x in G):
            failed.append("MetricPreserved")
            break
    return failed


def judge_group(case, real, V):
    """case: one 'group' record of the specification (a behaviour of named-group calls)."""
    name = case["name"]
    calls = case["calls"]
    key = ("group", name)
    if any(n in real.timeout for n in calls):
        return                        # reported once by run()
    # --- replay the behaviour with an empty cache
    sym_u.symcache.clear()
    objs = []
    seen = []
    orig = sym_u.generate_group

    def spy(*args):
        seen.append(args)
        return orig(*args)
    sym_u.generate_group = spy
    try:
        with time_limit(GROUP_TIME_LIMIT * len(calls)):
            for n in calls:
                objs.append(sym_u.getgroup(n)())
    except GroupTimeout:
        V.violation(key + ("terminates",), "calls %r: makegroup does not return within %d s" %
                    (calls, GROUP_TIME_LIMIT), case)
        return
    finally:
        sym_u.generate_group = orig
    g = objs[-1]
    # a case built from a TLC counterexample carries the model of the tree it was found on: when it is
    # replayed later only the property's clauses are re-judged, not the conformance with that model
    strict = "tlc_invariant" not in case
    # generator strings and the parser
    strings = tuple(seen[-1]) if seen else None
    if strict and strings != tuple(case["strings"]):
        V.violation(key + ("strings",), "%s() passes %r to generate_group, the specification has %r" %
                    (name, strings, tuple(case["strings"])), case)
    for k, s in enumerate(case["strings"] if strict else []):
        if parse_opstring(s) != case["tables"][k]:
            raise common.MachineryError("transcription: table of %r in SymGroup.tla is not what the string says" % s)
        m = as_int_matrix(sym_u.m_from_string(s))
        if m != case["gens"][k]:
            V.violation(key + ("m_from_string",), "m_from_string(%r) = %r, specification: %r (transpose of the "
                        "coefficient table)" % (s, m, case["gens"][k]), case)
    # the group list, in generation order
    mats = [as_int_matrix(m) for m in g.group]
    nonint = any(m is None for m in mats)
    if nonint:
        V.violation(key + ("IntegerEntries",), "%s: a group element has non-integer entries" % name, case)
    else:
        if strict and mats != case["group"]:
            same_set = set(map(tup, mats)) == set(map(tup, case["group"])) and len(mats) == len(case["group"])
            V.violation(key + ("list",), "%s after calls %r: group list differs from the specification's closure "
                        "(%s; %d elements, specification %d)" %
                        (name, calls, "same set, different generation order" if same_set else "different set",
                         len(mats), len(case["group"])), case)
        # the property's clauses on the real list
        failed = group_clauses(mats, case["cells"])
        if len(mats) != ORDER[name]:
            failed.append("OrderOK")
        for cl in failed:
            report_clause(V, name, cl, "%s: real group violates %s" % (name, cl), case, real_mats=mats)
    # cache behaviour
    if case.get("hit"):
        first = calls.index(name)
        if g is not objs[first]:
            V.violation(key + ("cachehit",), "calls %r: second %s() did not return the cached object" %
                        (calls, name), case)
    keys = [k if isinstance(k, tuple) else (k,) for k in sym_u.symcache.keys()]
    if case.get("cachekeys") is not None and keys != [tuple(k) for k in case["cachekeys"]]:
        V.violation(key + ("cachekeys",), "calls %r: symcache keys %r, specification %r" %
                    (calls, keys, case["cachekeys"]), case)
    # earlier objects are untouched and not aliased
    exp = case.get("earlier", {})
    for n, o in zip(calls[:-1], objs[:-1]):
        if n in exp:
            m2 = [as_int_matrix(m) for m in o.group]
            if m2 != exp[n]:
                V.violation(key + ("alias",), "calls %r: group returned earlier for %s changed / is aliased" %
                            (calls, n), case)
        if n != name and o is g:
            V.violation(key + ("alias",), "calls %r: %s() and %s() return the same object" % (calls, n, name), case)
    sym_u.symcache.clear()


def trig_explained(real_mats):
    """the trigonal finding is explained by the model iff the real list is the specification's pinned
    closure: a proper group 32 that preserves the gamma = 60 metric instead of the gamma = 120 one"""
    if real_mats is None or len(real_mats) != 6:
        return False
    hx60 = [[1, 0, -1], [0, 1, -1], [1, 1, 1]]
    hx120 = [[1, -1, 0], [0, 1, -1], [1, 1, 1]]
    m60 = mm(hx60, tr(hx60))
    m120 = mm(hx120, tr(hx120))
    ok60 = all(mm(mm(x, m60), tr(x)) == m60 for x in real_mats)
    ok120 = all(mm(mm(x, m120), tr(x)) == m120 for x in real_mats)
    closed = not [c for c in group_clauses(real_mats, []) if c != "MetricPreserved"]
    return ok60 and not ok120 and closed


def report_clause(V, name, clause, what, case, real_mats=None):
    """a property clause fails on the real code.  The only excusable class: trigonal + a metric clause,
    when known_findings.json lists it and the real group is the one the specification explains."""
    if name == "trigonal" and clause in METRIC_CLAUSES:
        e = V.finding(TRIG_ID)
        if e is not None and trig_explained(real_mats):
            V.known_finding(TRIG_ID, "sym_u.trigonal() preserves the gamma=60 metric, not the gamma=120 cell "
                            "(specification: MetricPreserved violated for trigonal)")
            return
    if clause in METRIC_CLAUSES:
        V.violation(("metric", name), what, case)       # one defect, several clauses: one class
    else:
        V.violation(("clause", name, clause), what, case)


def orbit_u(G, x0):
    return [mm(o, x0) for o in G]


def judge_u(case, real, V):
    """case: one 'u' record: name, x0 (integer UBI), res[s] (specification's result for start s),
    nmax (number of orbit members with maximal trace), smax.  Every group element is applied
    beforehand (start s = group[s] . x0) and the real find_uniq_u is called on it."""
    name = case["name"]
    x0 = case["x0"]
    grp = real.obj[name]
    G = real.mats[name]
    key = ("u", name)
    if G is None:
        return                       # reported at group level (non-integer element / no group)
    x0f = np.array(x0, float)
    outs = []
    for s_, o in enumerate(grp.group):
        start = np.dot(o, x0f)
        r = sym_u.find_uniq_u(start, grp)
        ri = as_int_matrix(r)
        if ri is None:
            V.violation(key + ("nonint",), "%s: find_uniq_u returns a non-integer matrix for an integer UBI" % name, case)
            return
        outs.append(ri)
        # idempotent: reducing the result again returns it
        r2 = as_int_matrix(sym_u.find_uniq_u(np.array(ri, float), grp))
        if r2 != ri:
            report_clause(V, name, "Idempotent", "%s: find_uniq_u(find_uniq_u(u)) != find_uniq_u(u) for start %d" %
                          (name, s_ + 1), case, G)
    # ---- conformance with the specification (start by start)
    conform = (len(outs) == len(case["res"]) and all(a == b for a, b in zip(outs, case["res"])))
    # ---- the property on the real outputs, exact arithmetic
    orb = orbit_u(G, x0)
    orbset = set(map(tup, orb))
    traces = [trace(m) for m in orb]
    tmax = max(traces)
    maxers = set(tup(m) for m in orb if trace(m) == tmax)
    outset = set(map(tup, outs))
    if not outset <= orbset:
        report_clause(V, name, "InOrbit", "%s: find_uniq_u returns a matrix outside the symmetry orbit" % name, case, G)
    if any(trace(m) != tmax for m in outs):
        report_clause(V, name, "AttainsMax", "%s: find_uniq_u result does not have the maximal trace of the orbit" % name, case, G)
    met0 = mm(x0, tr(x0))
    if any(mm(m, tr(m)) != met0 for m in outs):
        report_clause(V, name, "MetricKept", "%s: find_uniq_u changes the cell (metric tensor) of a conforming UBI" % name, case, G)
    d = det(x0)
    a0 = adj(x0)
    for m in outs:
        P = mm(m, a0)
        if d <= 0 or any(v % d for row in P for v in row) or det([[v // d for v in row] for row in P]) != 1:
            report_clause(V, name, "SameLattice", "%s: result . inv(ubi) is not an integer unimodular matrix: the "
                          "indexed g-vectors change" % name, case, G)
            break
    if len(outset) > 1:
        # not canonical.  Excusable only as the exact-tie finding.
        tie = len(maxers) >= 2
        explained = tie and conform and outset == maxers and case.get("nmax", 0) == len(maxers)
        e = V.finding(TIE_ID)
        if explained and e is not None:
            V.known_finding(TIE_ID, "find_uniq_u is starting-point dependent on exact trace ties "
                            "(maximal trace attained more than once over the orbit)")
        elif tie and conform and outset == maxers:
            V.violation(("tie",), "find_uniq_u not canonical: %d orbit members of %s tie on the maximal trace %d "
                        "and %d different matrices are returned depending on the starting member "
                        "(finding %s, not listed in known_findings.json)" %
                        (len(maxers), name, tmax, len(outset), TIE_ID), case)
        else:
            V.violation(key + ("canonical",), "%s: find_uniq_u returns %d different matrices over one orbit "
                        "(maximal trace attained %d time(s))" % (name, len(outset), len(maxers)), case)
    if not conform and "tlc_invariant" not in case:
        V.violation(key + ("conform",), "%s: find_uniq_u differs from the specification's first-strict-maximum "
                    "scan (x0=%r)" % (name, x0), case)


def judge_h(case, real, V):
    """case: name, hkls (list of hkl), res[j][s] = specification's result for hkl j and start s, cells"""
    name = case["name"]
    grp = real.obj[name]
    G = real.mats[name]
    key = ("h", name)
    if G is None:
        return
    hk = np.array(case["hkls"], int).T            # 3 x n
    n = hk.shape[1]
    res = case["res"]
    outs = []
    for s_, o in enumerate(grp.group):
        start = np.dot(np.round(o).astype(int), hk)
        for dtype in (int, float):
            r = sym_u.find_uniq_hkls(start.astype(dtype), grp)
            r = np.asarray(r)
            if r.shape != (3, n) or not np.all(r == np.round(r)):
                V.violation(key + ("shape",), "%s: find_uniq_hkls returns shape %r / non-integers" % (name, r.shape), case)
                return
            r = np.round(r).astype(int)
            if dtype is int:
                outs.append(r)
            elif not np.array_equal(r, outs[-1]):
                V.violation(key + ("dtype",), "%s: find_uniq_hkls differs between int and float input" % name, case)
    # conformance
    bad = []
    for j in range(n):
        for s_ in range(len(outs)):
            if s_ >= len(res[j]) or list(outs[s_][:, j]) != list(res[j][s_]):
                bad.append((j, s_))
    if (bad or len(outs) != len(res[0])) and "tlc_invariant" not in case:
        j, s_ = bad[0] if bad else (0, 0)
        V.violation(key + ("conform",), "%s: find_uniq_hkls(hkl=%r after group element %d) = %r, specification %r" %
                    (name, case["hkls"][j], s_ + 1, [int(v) for v in outs[s_][:, j]] if outs else None,
                     res[j][s_] if s_ < len(res[j]) else None), case)
    # property on the real outputs
    for j in range(n):
        h = case["hkls"][j]
        orb = set(tuple(mv(o, h)) for o in G)
        col = set(tuple(int(v) for v in o_[:, j]) for o_ in outs)
        if not col <= orb:
            report_clause(V, name, "InOrbit", "%s: find_uniq_hkls(%r) leaves the orbit" % (name, h), case, G)
        if len(col) != 1:
            report_clause(V, name, "HklCanonical", "%s: find_uniq_hkls(%r) depends on the starting member: %r" %
                          (name, h, sorted(col)), case, G)
        kmax = max(hklkey(v) for v in orb)
        if any(hklkey(v) != kmax for v in col):
            report_clause(V, name, "AttainsMax", "%s: find_uniq_hkls(%r) is not the orbit member with the largest key" %
                          (name, h), case, G)
        for c in case["cells"]:
            A = adj(mm(c, tr(c)))
            q0 = sum(h[i] * mv(A, h)[i] for i in range(3))
            if any(sum(v[i] * mv(A, list(v))[i] for i in range(3)) != q0 for v in col):
                report_clause(V, name, "HklNormKept", "%s: find_uniq_hkls(%r) changes |h|^2 in the reciprocal metric" %
                              (name, h), case, G)
                break


# ---- generic float orientations ------------------------------------------------------------

FLOAT_CELLS = {
    "cubic": [(4.05, 4.05, 4.05, 90, 90, 90)],
    "hexagonal": [(3.21, 3.21, 5.21, 90, 90, 120)],
    "trigonal": [(4.91, 4.91, 5.40, 90, 90, 120)],
    "rhombohedralP": [(5.13, 5.13, 5.13, 55.3, 55.3, 55.3), (4.0, 4.0, 4.0, 97.0, 97.0, 97.0)],
    "tetragonal": [(4.59, 4.59, 2.96, 90, 90, 90)],
    "orthorhombic": [(4.76, 10.21, 5.99, 90, 90, 90)],
    "monoclinic_c": [(5.1, 6.2, 7.3, 90, 90, 99.2)],
    "monoclinic_a": [(5.1, 6.2, 7.3, 99.2, 90, 90)],
    "monoclinic_b": [(5.1, 6.2, 7.3, 90, 99.2, 90)],
    "triclinic": [(5.1, 6.2, 7.3, 85.0, 99.2, 104.0)],
}


def cell_rows(cell):
    """rows = a, b, c of the cell in a Cartesian frame (a along x, b in the xy plane)"""
    a, b, c, al, be, ga = cell
    al, be, ga = [math.radians(v) for v in (al, be, ga)]
    # exact cosines for the right / 120 degree angles (cos(pi/2) is 6e-17 in floats)
    def cs(v, deg):
        return {90: 0.0, 120: -0.5, 60: 0.5}.get(deg, math.cos(v))
    ca, cb, cg = cs(al, cell[3]), cs(be, cell[4]), cs(ga, cell[5])
    sg = math.sqrt(1 - cg * cg)
    cx = c * cb
    cy = c * (ca - cb * cg) / sg
    cz = math.sqrt(c * c - cx * cx - cy * cy)
    return np.array([[a, 0, 0], [b * cg, b * sg, 0], [cx, cy, cz]])


def quat_matrix(q):
    w, x, y, z = q / np.sqrt(np.dot(q, q))
    return np.array([[1 - 2 * (y * y + z * z), 2 * (x * y - w * z), 2 * (x * z + w * y)],
                     [2 * (x * y + w * z), 1 - 2 * (x * x + z * z), 2 * (y * z - w * x)],
                     [2 * (x * z - w * y), 2 * (y * z + w * x), 1 - 2 * (x * x + y * y)]])


def close(a, b, scale):
    return bool(np.all(np.abs(np.asarray(a) - np.asarray(b)) <= 1e-9 * scale + 1e-12))


def judge_float(case, real, V):
    """case: name, ubi (float 3x3).  Ties have measure zero; a case whose two best traces are closer
    than the margin is skipped (returns 'skipped')."""
    name = case["name"]
    grp = real.obj[name]
    G = real.mats[name]
    key = ("float", name)
    if grp is None:
        return "ok"
    ubi = np.array(case["ubi"], float)
    scale = float(np.abs(ubi).max()) * 3
    orbit = [np.dot(o, ubi) for o in grp.group]
    t = sorted((float(np.trace(m)) for m in orbit), reverse=True)
    if len(t) > 1 and t[0] - t[1] <= 1e-6 * scale:
        return "skipped"
    met0 = np.dot(ubi, ubi.T)
    outs = [np.asarray(sym_u.find_uniq_u(m, grp)) for m in orbit]
    ref = outs[0]
    if not all(close(o, ref, scale) for o in outs):
        report_clause(V, name, "CanonicalIfUnique", "%s: generic float orientation: orbit members reduce to different "
                      "matrices (best traces separated by %.3g)" % (name, t[0] - t[1] if len(t) > 1 else 0.0), case, G)
    if not any(close(ref, m, scale) for m in orbit):
        report_clause(V, name, "InOrbit", "%s: generic float orientation: result is not an orbit member" % name, case, G)
    if abs(float(np.trace(ref)) - t[0]) > 1e-9 * scale + 1e-12:
        report_clause(V, name, "AttainsMax", "%s: generic float orientation: result does not have the largest trace" % name, case, G)
    if not close(np.dot(ref, ref.T), met0, scale * scale):
        report_clause(V, name, "MetricKept", "%s: find_uniq_u changes the cell parameters of a conforming cell "
                      "(metric tensor differs)" % name, case, G)
    if not close(sym_u.find_uniq_u(ref, grp), ref, scale):
        report_clause(V, name, "Idempotent", "%s: generic float orientation: reduction not idempotent" % name, case, G)
    # which g-vectors are indexed: T = res . inv(ubi) integer unimodular; lattice points stay integer hkl,
    # half-integer points stay non-integer
    T = np.dot(ref, np.linalg.inv(ubi))
    if not close(T, np.round(T), 3.0) or abs(round(float(np.linalg.det(np.round(T)))) - 1) != 0:
        report_clause(V, name, "SameLattice", "%s: generic float orientation: result . inv(ubi) is not integer unimodular" % name, case, G)
    else:
        ub = np.linalg.inv(ubi)
        hk = np.array(list(itertools.product((-2, -1, 0, 1, 2), repeat=3)), float).T
        gv = np.dot(ub, hk)
        h2 = np.dot(ref, gv)
        if not close(h2, np.round(h2), 6.0):
            report_clause(V, name, "SameLattice", "%s: reduced orientation no longer indexes the lattice's g-vectors" % name, case, G)
        gv2 = np.dot(ub, hk + 0.5)
        h3 = np.dot(ref, gv2)
        if np.any(np.all(np.abs(h3 - np.round(h3)) < 1e-6, axis=0)):
            report_clause(V, name, "SameLattice", "%s: reduced orientation indexes g-vectors the input did not" % name, case, G)
    return "ok"


# ---- users ---------------------------------------------------------------------------------

def user_violation(V, real, name, key, what, case):
    """a user route fails.  For trigonal the only excusable cause is the (listed) setting finding."""
    if name == "trigonal" and V.finding(TRIG_ID) is not None and trig_explained(real.mats[name]):
        V.known_finding(TRIG_ID, "sym_u.trigonal() preserves the gamma=60 metric, not the gamma=120 cell "
                        "(specification: MetricPreserved violated for trigonal)")
        return
    if name == "trigonal" and trig_explained(real.mats[name]):
        key = ("metric", name)        # a consequence of the same defect: same class
    V.violation(key, what, case)


def judge_makeuniq(case, real, V):
    """refinegrains.makeuniq(symmetry): ubisread and grains[...].ubi are reduced with the named group.
    case: name, x0 (integer UBI), res (specification's result per start), nmax"""
    from ImageD11 import refinegrains, grain
    name = case["name"]
    G = real.mats[name]
    if G is None:
        return
    with quiet():
        o = refinegrains.refinegrains()
    starts = orbit_u(G, case["x0"])
    for k, m in enumerate(starts):
        o.ubisread[k] = np.array(m, float)
        o.grains[(k, "scan")] = grain.grain(np.array(m, float), translation=[0., 0., 0.])
    with quiet():
        o.makeuniq(name)
    got1 = [as_int_matrix(o.ubisread[k]) for k in range(len(starts))]
    got2 = [as_int_matrix(o.grains[(k, "scan")].ubi) for k in range(len(starts))]
    exp = case["res"]
    if got1 != exp or got2 != exp:
        # is it the tie finding seen through makeuniq?  then judge_u has reported it; here only conformance
        V.violation(("makeuniq", name), "refinegrains.makeuniq(%r): ubisread / grains differ from the specification's "
                    "reduction" % name, case)
    elif case.get("nmax", 1) == 1 and (len(set(map(tup, got1))) != 1):
        V.violation(("makeuniq", name, "canonical"), "refinegrains.makeuniq(%r) leaves symmetry-equivalent grains "
                    "with different matrices" % name, case)


def misorientation_deg(G, ubi1, ubi2):
    """smallest rotation angle between the orientation of ubi2 and the symmetry images of ubi1 (floats;
    U from the polar decomposition of UB ignoring the cell: both have the same cell up to scale)"""
    def U_of(ubi):
        ub = np.linalg.inv(ubi)
        q, r = np.linalg.qr(ub)
        s = np.sign(np.diag(r))
        return q * s
    u2 = U_of(np.array(ubi2, float))
    best = 180.0
    for o in G:
        u1 = U_of(np.dot(np.array(o, float), np.array(ubi1, float)))
        c = (np.trace(np.dot(u1.T, u2)) - 1) / 2
        best = min(best, math.degrees(math.acos(max(-1.0, min(1.0, c)))))
    return best


def judge_uniq_grain_list(case, real, V):
    """grid_index_parallel.uniq_grain_list(symmetry, toldist, tolangle, grains): all symmetry images of
    one grain (same position) are one grain found len(G) times; an orientation that is not a symmetry
    image (misorientation > 1 degree by brute force over the specification's group) stays separate.
    case: name, x0, other (float ubi), order (permutation of the presented list)"""
    from ImageD11 import grid_index_parallel, grain
    name = case["name"]
    G = real.mats[name]
    if G is None:
        return
    starts = orbit_u(G, case["x0"])
    gl = [grain.grain(np.array(m, float), translation=[1., 2., 3.]) for m in starts]
    gl.append(grain.grain(np.array(case["other"], float), translation=[1., 2., 3.]))
    gl = [gl[k] for k in case["order"]]
    with quiet():
        ul = grid_index_parallel.uniq_grain_list(name, 0.5, 0.05, gl)
    nf = sorted(int(g.nfound) for g in ul.uniqgrains)
    exp = sorted([1, len(starts)])
    if nf != exp:
        user_violation(V, real, name, ("uniq_grain_list", name), "uniq_grain_list(%r): %d symmetry images + 1 other "
                       "grain -> nfound %r, expected %r" % (name, len(starts), nf, exp), case)


def judge_pbp(case, real, V):
    """sinograms.point_by_point.idxpoint reduces every indexed ubi with the group chosen by the
    initializer's symmetry string (line 1809).  The indexer, the peak selection and the unique-peak
    counter are stubbed (module-level callables wrapped from the harness); the call site is real.
    case: name, x0, res, s (which orbit member the stub indexer 'finds')"""
    pbp = _pbp()
    name = case["name"]
    G = real.mats[name]
    if G is None:
        return
    starts = orbit_u(G, case["x0"])

    class FakeIndexer(object):
        def __init__(self, **kw):
            self.ubis = []
            self.ring_1 = self.ring_2 = 0

        def assigntorings(self):
            pass

        def find(self):
            pass

        def scorethem(self):
            if not self.ubis:
                self.ubis = [np.array(starts[k], float) for k in case["s"]]
    from ImageD11 import cImageD11
    nthreads = cImageD11.cimaged11_omp_get_max_threads()
    saved = (pbp.ImageD11.indexing.indexer, pbp.geometry.dtyimask_from_step_sincos, pbp.get_local_gv, pbp.hkluniq,
             pbp.symglobal, pbp.ucglobal, pbp.parglobal)

    class Par(object):
        def get(self, k):
            return 0.3
    try:
        pbp.ImageD11.indexing.indexer = FakeIndexer
        pbp.geometry.dtyimask_from_step_sincos = lambda *a, **k: np.ones(4, bool)
        pbp.get_local_gv = lambda *a, **k: (np.zeros((4, 3)), np.zeros(4), np.zeros(4), np.zeros(4))
        pbp.hkluniq = lambda ubi, *a, **k: (10, 10)
        pbp.symglobal = sym_u.getgroup(name)()          # what initializer() does with its symmetry argument
        pbp.ucglobal = None
        pbp.parglobal = Par()
        z = np.zeros(4)
        with quiet():
            out = pbp.idxpoint(0, 0, np.ones(4, bool), z, z, z + 1, np.zeros(4, int), z, z, z, z,
                               forgen=[0], minpks=1, hmax=3)
    finally:
        (pbp.ImageD11.indexing.indexer, pbp.geometry.dtyimask_from_step_sincos, pbp.get_local_gv, pbp.hkluniq,
         pbp.symglobal, pbp.ucglobal, pbp.parglobal) = saved
        cImageD11.cimaged11_omp_set_num_threads(nthreads)
    got = sorted(tup(as_int_matrix(g[2]) or []) for g in out)
    exp = sorted(tup(case["res"][k]) for k in case["s"])
    if got != exp:
        V.violation(("pbp", name), "point_by_point.idxpoint(symmetry=%r): returned ubis are not the specification's "
                    "reductions of the indexed ubis" % name, case)


JUDGES = {"group": judge_group, "u": judge_u, "h": judge_h, "float": judge_float, "makeuniq": judge_makeuniq,
          "uniq_grain_list": judge_uniq_grain_list, "pbp": judge_pbp}


# ------------------------------------------------------------------------------------------
# TLC runs

def cfg_variant(base, names=None, fixed=False, drop=(), tag="v"):
    """static cfg -> (possibly) a generated variant in scratch: subset of Names, TrigonalFixed, dropped
    invariants.  Returns the path to use."""
    src = os.path.join(common.SPECS, base)
    if names is None and fixed and not drop:
        return src                       # the static files describe the repaired trigonal()
    out = []
    for line in open(src):
        if line.strip().startswith("Names =") and names is not None:
            line = "  Names = {%s}\n" % ", ".join('"%s"' % n for n in names)
        if line.strip().startswith("TrigonalFixed ="):
            line = "  TrigonalFixed = %s\n" % ("TRUE" if fixed else "FALSE")
        if line.startswith("INVARIANT ") and line.split()[1] in drop:
            continue
        out.append(line)
    path = os.path.join(common.scratch(), "%s_%s_%d.cfg" % (base[:-4], tag, int(time.time() * 1000) % 100000000))
    with open(path, "w") as f:
        f.write("".join(out))
    return path


class Interleaved(Exception):
    pass


def parse_records(res, label):
    recs = []
    skipped = 0
    for p in res.printed:
        try:
            recs.append(json.loads(p))
        except ValueError:
            skipped += 1
    if skipped:
        raise Interleaved("%s: %d emitted lines did not parse (interleaved output?)" % (label, skipped))
    return recs


def tlc_records(cfg, label, workers, coverage, timeout):
    """run TLC; when it finishes without violation return its parsed records (one retry with a single
    worker if PrintT lines of different workers got interleaved)"""
    res = common.run_tlc("SymGroup", cfg, workers=workers, coverage=coverage, timeout=timeout)
    if res.violated or res.error:
        return res, None
    try:
        return res, parse_records(res, label)
    except Interleaved:
        res = common.run_tlc("SymGroup", cfg, workers=1, coverage=coverage, timeout=timeout * 4)
        if res.violated or res.error:
            return res, None
        try:
            return res, parse_records(res, label)
        except Interleaved as e:
            raise common.MachineryError(str(e))


def final_state(res):
    """the last state of TLC's counterexample as python values"""
    if not res.trace:
        raise common.MachineryError("TLC reported %r without a trace" % (res.violated,))
    st = res.trace[-1]["vars"]
    out = {}
    for k in ("name", "pc", "mode", "grp", "x0", "res", "tag", "calls", "hit"):
        if k in st:
            out[k] = common.parse_tla(st[k].strip())
    return out


def tolist(v):
    if isinstance(v, tuple):
        return [tolist(x) for x in v]
    return v


def confirm_counterexample(inv, st, real, V, cells_of):
    """A TLC invariant violation is a design-level counterexample: replay it on the real code.  Returns
    True when the real code shows the same failure (it has then been reported through V)."""
    name = st["name"]
    before = V.total()
    if st["pc"] == "closed":
        case = {"kind": "group", "name": name, "calls": tolist(st["calls"]), "hit": bool(st.get("hit")),
                "strings": list(real.strings[name] or ()), "tables": [parse_opstring(s) for s in (real.strings[name] or ())],
                "gens": [tr(parse_opstring(s)) for s in (real.strings[name] or ())],
                "group": tolist(st["grp"]), "cells": cells_of(name), "cachekeys": None, "tlc_invariant": inv}
        judge_group(case, real, V)
        if inv in ("Holohedry", "TransposeMatters", "SpectrumOK"):
            # clauses the python judge does not restate: decided by the real list being the model's list
            mats = real.mats[name]
            if mats == case["group"]:
                report_clause(V, name, inv, "%s: specification invariant %s fails for the group list the real "
                              "code produces" % (name, inv), case, mats)
    else:
        G = tolist(st["grp"])
        x0 = tolist(st["x0"])
        win = tolist(st["res"])
        if st["mode"] == "u":
            resm = [mm(G[win[k] - 1], mm(G[k], x0)) for k in range(len(G))]
            orb = [mm(o, x0) for o in G]
            tm = max(trace(m) for m in orb)
            case = {"kind": "u", "name": name, "x0": x0, "res": resm, "smax": tm,
                    "nmax": len(set(tup(m) for m in orb if trace(m) == tm)), "tag": tolist(st["tag"]),
                    "tlc_invariant": inv}
            judge_u(case, real, V)
        else:
            resm = [[mv(G[win[k] - 1], mv(G[k], x0)) for k in range(len(G))]]
            case = {"kind": "h", "name": name, "hkls": [x0], "res": resm, "cells": cells_of(name), "tlc_invariant": inv}
            judge_h(case, real, V)
    return V.total() != before


def run_main_config(chk, base, real, V, workers, coverage, timeout, cells_of):
    """main configuration with the counterexample protocol: a violated invariant is replayed on the real
    code (reported there), the offending group is then explored alone without that invariant, the other
    groups without the offending group."""
    fixed = real.trigonal_fixed()
    records = []
    names = list(NAMES)
    cover = {}
    queue = [(names, (), "all")]
    rounds = 0
    while queue:
        nm, drop, label = queue.pop(0)
        rounds += 1
        if rounds > 14:
            raise common.MachineryError("counterexample protocol does not converge")
        cfg = cfg_variant(base, names=None if nm == NAMES else nm, fixed=fixed, drop=drop, tag="m%d" % rounds)
        res, recs = tlc_records(cfg, base, workers, coverage, timeout)
        chk.add_tlc("SymGroup %s %s%s" % (base[9:-4], label, " TrigonalFixed" if fixed else ""), res)
        for k, v in res.coverage.items():
            old = cover.get(k, (0, 0))
            cover[k] = (old[0] + v[0], old[1] + v[1])
        if not res.violated:
            if not res.finished:
                raise common.MachineryError("TLC did not finish: %s" % (res.error,))
            records += recs
            continue
        inv = res.violated[0]
        st = final_state(res)
        bad = st["name"]
        chk.notes.setdefault("tlc_counterexamples", []).append({"invariant": inv, "group": bad, "pc": st["pc"]})
        if not confirm_counterexample(inv, st, real, V, cells_of):
            raise common.MachineryError("TLC counterexample (%s, group %s) is not reproduced by the real code and no "
                                        "conformance difference explains it: the model misrepresents the code" % (inv, bad))
        rest = [n for n in nm if n != bad]
        if rest:
            queue.append((rest, drop, label + "-" + bad))
        if inv not in ("TypeOK", "GenOK", "Closed", "OrderOK", "CacheOK", "CurOK") and len(drop) < 6:
            # the metric clauses stand or fall together (they are re-evaluated record by record on the real
            # outputs anyway): drop the family at once
            more = METRIC_CLAUSES if inv in METRIC_CLAUSES else (inv,)
            nd = tuple(drop) + tuple(m for m in more if m not in drop)
            queue.append(([bad], nd, bad + " without " + ",".join(nd)))
    return records, cover


# ------------------------------------------------------------------------------------------

def rng_for(*key):
    import hashlib
    h = hashlib.sha256(repr((common.seed(),) + key).encode()).digest()
    return np.random.RandomState(int.from_bytes(h[:4], "little"))


def run(tier, replay=None):
    chk = common.Check(PROP, tier)
    shadow = common.build_shadow("normal")
    common.use_shadow(shadow)
    with quiet():
        _imports(with_pbp=(tier == "thorough" and not replay))
        real = Real()
    V = Verdicts(chk)
    for n in real.timeout:
        V.violation(("group", n, "terminates"), "sym_u.%s(): makegroup does not return within %d s (the group "
                    "generated is not finite?)" % (n, GROUP_TIME_LIMIT), {"kind": "group", "name": n, "calls": [n],
                    "strings": [], "tables": [], "gens": [], "group": [], "cells": [], "cachekeys": None})
    if replay:
        return do_replay(chk, real, V, replay)
    thorough = tier == "thorough"
    t0 = time.time()

    # ---- 1. symcache behaviours (mode B) ----------------------------------------------------
    fixed = real.trigonal_fixed()
    cache_cfgs = ["SymGroup_cache.cfg"] + (["SymGroup_cache3.cfg"] if thorough else [])
    model_group = {}
    cells = {}
    nbeh = 0
    for base in cache_cfgs:
        res, recs = tlc_records(cfg_variant(base, fixed=fixed, tag="c"), base, WORKERS, True, 900)
        chk.add_tlc("SymGroup %s" % base[9:-4], res,
                    require_cover=("CallHit", "CallMiss", "AddGen", "MultiplyNew", "MultiplyOld", "Return"))
        if res.violated:
            # generation-level counterexample: confirm on the real code
            st = final_state(res)
            if not confirm_counterexample(res.violated[0], st, real, V, lambda n: []):
                raise common.MachineryError("TLC counterexample %r in %s not reproduced by the real code" %
                                            (res.violated, base))
            continue
        for r in recs:
            if len(r["calls"]) == 1:
                model_group[r["name"]] = r["group"]
                cells[r["name"]] = r["cells"]
        for r in recs:
            r["earlier"] = {n: model_group[n] for n in r["calls"][:-1] if n in model_group}
            judge_group(r, real, V)
            chk.case(("group", tuple(r["calls"])), nontrivial=len(r["calls"]) > 1)
            chk.traces += 1
            nbeh += 1
            if len(r["calls"]) == 2 and r["hit"]:
                chk.sample({"behaviour": r["calls"], "hit": True, "order": len(r["group"])}, limit=1)
    chk.notes["cache_behaviours_replayed"] = nbeh
    cells_of = lambda n: cells.get(n, [])

    # ---- 2. orbits (mode A) -------------------------------------------------------------------
    base = "SymGroup_t.cfg" if thorough else "SymGroup_q.cfg"
    records, cover = run_main_config(chk, base, real, V, WORKERS, thorough, 1500 if thorough else 400, cells_of)
    if thorough:
        for a in ("CallMiss", "AddGen", "MultiplyNew", "MultiplyOld", "ChooseUbi", "ChooseHkl", "ScanKeep", "ScanSkip"):
            if cover.get(a, (0, 0))[1] == 0:
                raise common.MachineryError("vacuity: action %s never taken" % a)
        chk.notes["action_coverage"] = {k: v[1] for k, v in cover.items()}
    urecs = [r for r in records if r["kind"] == "u"]
    hrecs = [r for r in records if r["kind"] == "h"]
    grecs = [r for r in records if r["kind"] == "group"]
    for r in grecs:
        r["earlier"] = {}
        judge_group(r, real, V)
        chk.traces += 1
        chk.case(("group1", r["name"]))
    nties = 0
    per = {}
    for r in urecs:
        judge_u(r, real, V)
        chk.traces += 1
        chk.case(("u", r["name"], tup(r["x0"])), nontrivial=len(r["res"]) > 1)
        per.setdefault(r["name"], [0, 0])
        per[r["name"]][0] += 1
        if r["nmax"] > 1:
            nties += 1
            per[r["name"]][1] += 1
        if r["name"] == "hexagonal":
            chk.sample({"kind": "u", "name": r["name"], "x0": r["x0"], "res0": r["res"][0], "nmax": r["nmax"]}, limit=3)
    # hkl records are replayed in one vectorised call per group and start (the way users call it)
    byname = {}
    for r in hrecs:
        byname.setdefault(r["name"], []).append(r)
    for n, rs in byname.items():
        rs.sort(key=lambda r: r["x0"])
        case = {"kind": "h", "name": n, "hkls": [r["x0"] for r in rs], "res": [r["res"] for r in rs], "cells": cells_of(n)}
        judge_h(case, real, V)
        chk.traces += len(rs)
        for r in rs:
            chk.case(("h", n, tuple(r["x0"])), nontrivial=r["x0"] != [0, 0, 0])
    chk.notes["orbit_records"] = {n: {"ubis": v[0], "tie_orbits": v[1]} for n, v in per.items()}
    chk.notes["hkl_records"] = len(hrecs)
    if not urecs or not hrecs or len(grecs) < 1:
        raise common.MachineryError("vacuity: no orbit records emitted")
    if nties == 0 or nties == len(urecs):
        raise common.MachineryError("vacuity: CanonicalIfUnique needs both tie and non-tie orbits (%d of %d)" %
                                    (nties, len(urecs)))

    # ---- 3. TLC finds the tie (finding F12) -----------------------------------------------------
    res = common.run_tlc("SymGroup", cfg_variant("SymGroup_ties.cfg", fixed=fixed, tag="t"), workers=1, timeout=300)
    chk.add_tlc("SymGroup ties (CanonicalAlways expected to be violated)", res)
    if "CanonicalAlways" not in res.violated:
        raise common.MachineryError("SymGroup_ties: TLC did not find the trace-tie counterexample")
    st = final_state(res)
    confirm_counterexample("CanonicalAlways", st, real, V, cells_of)
    chk.traces += 1
    chk.sample({"tlc_counterexample": "CanonicalAlways", "group": st["name"], "x0": tolist(st["x0"]),
                "winners_per_start": tolist(st["res"])}, limit=4)

    # ---- 4. users on exact records --------------------------------------------------------------
    nuser = 0
    rs_ = rng_for("users")
    for n in NAMES:
        cand = [r for r in urecs if r["name"] == n]
        if not cand:
            continue
        k = 12 if thorough else 4
        pick = [cand[i] for i in sorted(rs_.choice(len(cand), size=min(k, len(cand)), replace=False))]
        for r in pick:
            judge_makeuniq(dict(r, kind="makeuniq"), real, V)
            nuser += 1
            # an orientation that is no symmetry image of x0
            G = real.mats[n]
            if G is not None:
                for _ in range(20):
                    other = np.dot(np.array(r["x0"], float), quat_matrix(rs_.normal(size=4)))
                    if misorientation_deg(G, r["x0"], other) > 1.0:
                        break
                order = [int(v) for v in rs_.permutation(len(G) + 1)]
                judge_uniq_grain_list({"kind": "uniq_grain_list", "name": n, "x0": r["x0"], "other": other.tolist(),
                                       "order": order}, real, V)
                nuser += 1
            if thorough:
                sidx = [int(v) for v in rs_.choice(len(r["res"]), size=min(3, len(r["res"])), replace=False)]
                judge_pbp({"kind": "pbp", "name": n, "x0": r["x0"], "res": r["res"], "s": sidx}, real, V)
                nuser += 1
            chk.case(("user", n, tup(r["x0"])))
    chk.notes["user_route_calls"] = nuser

    # ---- 5. generic float orientations ----------------------------------------------------------
    nfl = 0
    nskip = 0
    for n in NAMES:
        rs_ = rng_for("float", n)
        want = 60 if thorough else 12
        got = 0
        tries = 0
        while got < want and tries < 10 * want:
            tries += 1
            cell = FLOAT_CELLS[n][tries % len(FLOAT_CELLS[n])]
            ubi = np.dot(cell_rows(cell), quat_matrix(rs_.normal(size=4)))
            case = {"kind": "float", "name": n, "cell": list(cell), "ubi": ubi.tolist()}
            if judge_float(case, real, V) == "skipped":
                nskip += 1
                continue
            got += 1
            nfl += 1
            chk.case(("float", n, got))
    chk.notes["float_orientations"] = nfl
    chk.notes["float_near_ties_skipped"] = nskip

    if thorough:
        selftest(real, urecs, hrecs, grecs, cells_of)
    V.flush()
    chk.rule = ("TLC enumerates, for each of the ten named groups, the makegroup behaviour, every sequence of 2 (3) "
                "named-group calls, every exact UBI = conforming integer cell x rational rotation |q|^2R(q) with "
                "quaternion components in -QMax..QMax and every hkl of the box, each from every group element "
                "applied beforehand; non-trivial = group of order > 1 / hkl != 0 / call sequence longer than 1")
    chk.exhaustive = True
    chk.assumptions = ["exact cases are integer UBIs (products of small integers are exact in double precision)",
                       "float orientations: orbits whose two best traces are closer than 1e-6 relative are skipped "
                       "(ties are decided in exact arithmetic only)",
                       "point_by_point.idxpoint is driven with the indexer, peak selection and unique-peak counter "
                       "stubbed (thorough tier)"]
    chk.notes["tolerance"] = "exact integer equality for exact cases; 1e-9*scale+1e-12 for float orientations"
    chk.notes["trigonal_generator_variant"] = "fixed" if fixed else "pinned"
    return chk.finish()


# ------------------------------------------------------------------------------------------

def do_replay(chk, real, V, path):
    with open(path) as f:
        d = json.load(f)
    case = d["case"]
    kind = case.get("kind")
    if kind not in JUDGES:
        raise common.MachineryError("replay: unknown case kind %r" % kind)
    JUDGES[kind](case, real, V)
    chk.traces += 1
    chk.case(("replay", path))
    chk.exhaustive = False
    chk.rule = "re-execution of one saved case"
    # re-judged against the current tree; the replay file itself is the evidence (not rewritten, and no
    # other file of replay/C16 is clobbered)
    want = case.get("violation_class")
    for key in V.order:
        what = V.classes[key][0]
        if want is not None and [str(k) for k in key] != want:
            # the case also carries the expectations of the model of the tree it was recorded on; a later
            # tree may legitimately differ there (e.g. a repaired generator): only the saved class counts
            print("  (not the saved class, ignored: %s)" % what)
            continue
        print("  violation: %s" % what)
        chk.violations.append((what, os.path.abspath(path)))
    for fid, (what, count) in V.known.items():
        for _ in range(count):
            chk.known_finding(fid, what)
    return chk.finish()


def selftest(real=None, urecs=None, hrecs=None, grecs=None, cells_of=None):
    """the binding rejects perturbed expectations"""
    if real is None:
        shadow = common.build_shadow("normal")
        if np is None:
            common.use_shadow(shadow)
            _imports()
        with quiet():
            real = Real()
    fixed = real.trigonal_fixed()
    if urecs is None:
        res = common.run_tlc("SymGroup", cfg_variant("SymGroup_q.cfg", names=["tetragonal", "hexagonal"], fixed=fixed,
                                                     tag="s"), workers=WORKERS, timeout=300)
        if res.violated or not res.finished:
            raise common.MachineryError("selftest: TLC run failed %r %r" % (res.violated, res.error))
        recs = parse_records(res, "selftest")
        urecs = [r for r in recs if r["kind"] == "u"]
        hrecs = [r for r in recs if r["kind"] == "h"]
        grecs = [r for r in recs if r["kind"] == "group"]
        cells = {r["name"]: r["cells"] for r in grecs}
        cells_of = lambda n: cells.get(n, [])

    def rejected(judge, case):
        v = Verdicts(None)
        judge(case, real, v)
        return v.n() > 0

    # unperturbed records of a sound group are accepted (otherwise the perturbation proves nothing)
    u = next(r for r in urecs if r["name"] == "tetragonal" and r["nmax"] == 1 and len(r["res"]) > 1)
    if rejected(judge_u, u):
        raise common.MachineryError("selftest: unperturbed orbit record rejected")
    u2 = copy.deepcopy(u)
    u2["res"][3][1][2] += 1
    if not rejected(judge_u, u2):
        raise common.MachineryError("selftest: perturbed find_uniq_u expectation not rejected")
    u3 = copy.deepcopy(u)
    u3["res"] = [u["res"][0]] * (len(u["res"]) - 1)
    if not rejected(judge_u, u3):
        raise common.MachineryError("selftest: orbit record with a missing start not rejected")
    # a tie record with a wrong tie count must not be excusable
    t = next((r for r in urecs if r["nmax"] > 1 and r["name"] == "tetragonal"), None)
    if t is not None:
        class FakeChk(object):
            def finding(self, fid):
                return {"id": fid}
        v = Verdicts(FakeChk())
        judge_u(t, real, v)
        if v.n() != 0 or TIE_ID not in v.known:
            raise common.MachineryError("selftest: genuine tie record not matched as the known finding")
        t2 = copy.deepcopy(t)
        j = next(k for k in range(len(t["res"])) if t["res"][k] != t["res"][0])
        t2["res"][0], t2["res"][j] = t["res"][j], t["res"][0]
        v = Verdicts(FakeChk())
        judge_u(t2, real, v)
        if v.n() == 0:
            raise common.MachineryError("selftest: tie record departing from the model was excused")
        t3 = copy.deepcopy(t)
        t3["nmax"] = 1
        v = Verdicts(FakeChk())
        judge_u(t3, real, v)
        if v.n() == 0:
            raise common.MachineryError("selftest: non-canonical record without a model-side tie was excused")
    g = next(r for r in grecs if r["name"] == "hexagonal")
    g2 = copy.deepcopy(g)
    g2["earlier"] = {}
    g2["group"][4], g2["group"][5] = g2["group"][5], g2["group"][4]
    if not rejected(judge_group, g2):
        raise common.MachineryError("selftest: permuted group list not rejected")
    g3 = copy.deepcopy(g)
    g3["earlier"] = {}
    g3["gens"][0] = tr(g3["gens"][0])
    if not rejected(judge_group, g3):
        raise common.MachineryError("selftest: transposed generator not rejected")
    hs = sorted([r for r in hrecs if r["name"] == "hexagonal"], key=lambda r: r["x0"])
    hc = {"kind": "h", "name": "hexagonal", "hkls": [r["x0"] for r in hs], "res": [copy.deepcopy(r["res"]) for r in hs],
          "cells": cells_of("hexagonal")}
    if rejected(judge_h, hc):
        raise common.MachineryError("selftest: unperturbed hkl records rejected")
    hc["res"][5][2][0] += 1
    if not rejected(judge_h, hc):
        raise common.MachineryError("selftest: perturbed find_uniq_hkls expectation not rejected")
    if "ImageD11.sinograms.point_by_point" in sys.modules:
        pc = {"kind": "pbp", "name": u["name"], "x0": u["x0"], "res": copy.deepcopy(u["res"]), "s": [0, 2]}
        if rejected(judge_pbp, pc):
            raise common.MachineryError("selftest: unperturbed idxpoint case rejected")
        pc["res"][2] = mm(real.mats[u["name"]][1], u["res"][2])
        if not rejected(judge_pbp, pc):
            raise common.MachineryError("selftest: perturbed idxpoint expectation not rejected")
    # float judge: a cell that does NOT conform (gamma = 60 with the hexagonal group) must be flagged
    ubi = np.dot(cell_rows((3.2, 3.2, 5.2, 90, 90, 60)), quat_matrix(np.array([0.9, 0.1, -0.3, 0.2])))
    if not rejected(judge_float, {"kind": "float", "name": "hexagonal", "ubi": ubi.tolist()}):
        raise common.MachineryError("selftest: non-conforming cell not flagged by the float judge")
    return True

"""C01 - pixel-to-g-vector geometry agrees across the Python, C and numba implementations.

spec   : specs/Geometry.tla, machine InitFwd (Place, Flip, Tilt, Shift, Origin, Diff, RotateG, Project) in exact
         rational arithmetic at right / Pythagorean angles.  TLC checks TypeOK, StackOrtho, NormLaw, OmegaLaw,
         OriginLaw, Roundtrip on every state and emits one record per terminal state (exact xyz, o, d, G, A = G d,
         Bx = G e_x).
binding: mode A.  The records of one parameter set form a batch of peaks; the batch is fed to every route
         (transform.* reference functions, Ctransform + raw cImageD11 kernels with an independent packing,
         columnfile.updateGeometry / updateGV fast and slow with the translation by parameter and by argument, the
         numba copies in sinograms/point_by_point incl. compute_gve and get_local_gv, refinegrains.compute_gv) and
         every output is compared with the oracle (never with another route).  A seeded subset of the batches is
         also sent with lengths 1, 2 and 4097 (across the OpenMP chunking).
tiers  : quick    = exhaustive corner set (all 256 switch combinations x both omega signs, default flip) plus
                    `tlc -simulate` of 3000 lattice points seeded by VERIF_SEED
         thorough = the whole lattice: 256 switch sets x 8 flips x 2 omega signs x 4 pixel-size sign pairs x 4 peaks
                    x 4 omegas = 262144 records
"""
import json, time
import numpy as np
import common
import c01_geometry as G

PROP = "C01"
WORKERS = 16


def nontrivial(par):
    return any(par["sw"]) or par["flip"] != 1 or par["sgn"] != 1 or par["zs"] < 0 or par["ys"] < 0


def judge_batch(chk, rt, group, lengths, stats, replaying=None):
    orc = G.Oracle(group)
    for L in lengths:
        o = orc if L is None else orc.tiled(L)
        # small batches: 2 OpenMP threads (cheap to wake); the 4097-row batches: 1, 4 and the default thread count
        for nt in ((2,) if (L or 0) < 4097 else (1, 4, None)):
            with G.omp_threads(rt, nt):
                J = G.judge_fwd(rt, o, routes=("py", "c", "cf", "numba", "rg") if nt in (2, None) else ("c", "cf"))
            stats["thread_counts"].add(nt or stats["default_threads"])
            if J.problems:
                break
        stats["comparisons"] += J.ncmp
        stats["worst_ratio"] = max(stats["worst_ratio"], J.worst)
        if J.problems:
            what = "%s%s [%d disagreeing outputs; parameters %s]" % (
                J.problems[0], "" if L is None else " [batch length %d, %s OpenMP threads]" % (L, nt or "default"), len(J.problems),
                json.dumps(G.pars_of(group[0]["par"]), sort_keys=True))
            if replaying:                    # re-judging a saved case: nothing is written
                print("  violation: %s" % what)
                chk.violations.append((what, replaying))
            else:
                chk.violation(what, {"kind": "fwd", "records": group, "length": L, "threads": nt,
                                     "problems": J.problems[:20]})
    return orc


def run(tier, replay=None):
    chk = common.Check(PROP, tier)
    shadow = common.build_shadow("normal")
    common.use_shadow(shadow)
    rt = G.Routes()
    chk.rule = ("lattice point = (on/off of tilt_x tilt_y tilt_z wedge chi t_x t_y t_z) x flip x omegasign x pixel-size signs "
                "x peak x omega; angle values (right / Pythagorean), wavelength, distance, translation are a fixed function "
                "of the lattice point; one record per lattice point, batched per parameter set; non-trivial = some switch "
                "on or non-default flip / omegasign / pixel-size sign; distinct = distinct lattice point")
    chk.assumptions = [
        "sin/cos of atan2(s, c) is within 1 ulp of s/n, c/n (rational-trigonometry points); accuracy of the "
        "implementations between such points is not decided",
        "the last irrational step (sqrt, atan2) of the expected values is evaluated by the harness in 40-digit decimals "
        "from the exact integers emitted by the specification",
        "eta is not compared where (dy, dz) = (0, 0) exactly; tolerance |x-e| <= 1e-9*scale + 1e-12, angles 1e-6 degree",
    ]
    stats = {"comparisons": 0, "worst_ratio": 0.0, "thread_counts": set(),
             "default_threads": int(rt.c.cimaged11_omp_get_max_threads())}
    if replay:
        case = json.load(open(replay))["case"]
        judge_batch(chk, rt, case["records"], [case.get("length")], stats, replaying=replay)
        chk.traces += len(case["records"])
        chk.case(replay)
        chk.sample({"replayed": replay})
        chk.exhaustive = False
        stats["thread_counts"] = sorted(stats["thread_counts"])
        chk.notes.update(stats)
        return chk.finish()

    if tier == "quick":
        recs = G.run_geometry(chk, "Geometry forward corner set (exhaustive)", "fwd_corner", workers=WORKERS,
                              coverage=True, actions=G.FWD_ACTIONS, timeout=600)
        recs += G.run_geometry(chk, "Geometry forward -simulate 3000", "fwd_sim", workers=4, simulate=750, depth=13,
                               timeout=600)
        chk.exhaustive = False
        frac = 0.015
    else:
        recs = G.run_geometry(chk, "Geometry forward corner set (exhaustive, coverage)", "fwd_corner", workers=WORKERS,
                              coverage=True, actions=G.FWD_ACTIONS, timeout=600)
        recs = G.run_geometry(chk, "Geometry forward full lattice (exhaustive)", "fwd_t", workers=WORKERS, timeout=3000)
        if len(recs) != 262144:
            raise common.MachineryError("full lattice emitted %d records, expected 262144" % len(recs))
        frac = 0.01
    groups = G.group_records(recs)
    rng = np.random.default_rng(common.seed())
    seen_angles = {s: set() for s in G.SWITCHES[:5]}
    seen = {"flip": set(), "sgn": set(), "sizes": set(), "t_nonzero": 0, "eta_undefined": 0, "normlaw_in_tlc": 0,
            "pythagorean_3": 0}
    t0 = time.time()
    for gi, group in enumerate(groups):
        lengths = [None]
        if rng.random() < frac:
            lengths += [1, 2, 4097]
        orc = judge_batch(chk, rt, group, lengths, stats)
        par = group[0]["par"]
        for s in seen_angles:
            seen_angles[s].add(tuple(par[s]))
        seen["flip"].add(par["flip"])
        seen["sgn"].add(par["sgn"])
        seen["sizes"].add((par["zs"], par["ys"]))
        for r in group:
            p = r["par"]
            chk.case((p["sw"], p["flip"], p["sgn"], p["zs"], p["ys"], p["pk"], p["om"]), nontrivial=nontrivial(p))
            chk.traces += 1
            seen["normlaw_in_tlc"] += r["normlaw"]
            seen["t_nonzero"] += any(p["t"])
            npy = sum(1 for a in ("tilt_x", "tilt_y", "tilt_z", "wedge", "chi", "omega") if p[a][2] > 1)
            seen["pythagorean_3"] += npy == 3
        seen["eta_undefined"] += int((~np.isfinite(orc.eta)).sum())
        if gi in (3, len(groups) // 2):
            chk.sample({"record": group[-1], "parameters": G.pars_of(par)})
        if len(chk.violations) > 24:
            break
    stats["thread_counts"] = sorted(stats["thread_counts"])
    chk.notes.update(stats)
    chk.notes["batches"] = len(groups)
    chk.notes["replay_s"] = round(time.time() - t0, 1)
    chk.notes["angle_values_per_switch"] = {s: len(v) for s, v in seen_angles.items()}
    chk.notes["flips"] = len(seen["flip"])
    chk.notes["omegasigns"] = len(seen["sgn"])
    chk.notes["pixel_size_sign_pairs"] = len(seen["sizes"])
    for k in ("t_nonzero", "eta_undefined", "normlaw_in_tlc", "pythagorean_3"):
        chk.notes["records_" + k] = int(seen[k])
    chk.notes["routes"] = ["transform (reference)", "Ctransform + raw cImageD11", "columnfile fast/slow", "numba point_by_point",
                           "refinegrains.compute_gv"]
    # vacuity guards (only meaningful for a run that was not cut short by violations)
    if chk.violations:
        return chk.finish()
    need = 10 if tier == "thorough" else 8
    for s, v in seen_angles.items():
        if len(v) < need:
            raise common.MachineryError("vacuity: switch %s saw only %d angle values" % (s, len(v)))
    if seen["t_nonzero"] == 0 or seen["normlaw_in_tlc"] == 0 or seen["pythagorean_3"] == 0 or seen["eta_undefined"] == 0:
        raise common.MachineryError("vacuity: %r" % (seen,))
    if tier == "thorough" and (len(seen["flip"]) != 8 or len(seen["sgn"]) != 2 or len(seen["sizes"]) != 4):
        raise common.MachineryError("vacuity: lattice incomplete %r" % (seen,))
    selftest(rt, groups)
    return chk.finish()


def selftest(rt=None, groups=None):
    """a perturbed expectation must be rejected by the comparison"""
    if rt is None:
        import sys
        if "ImageD11" not in sys.modules:
            common.use_shadow(common.build_shadow("normal"))
        rt = G.Routes(numba_routes=False)
    if not groups:
        groups = G.group_records(G.run_geometry(common.Check(PROP, "selftest"), "selftest corner", "fwd_corner",
                                                workers=WORKERS, timeout=600))
    group = next(g for g in groups if any(g[0]["par"]["sw"][:5]) and any(g[0]["par"]["t"]))
    if G.judge_fwd(rt, G.Oracle(group)).problems:
        return          # the unchanged case already fails: nothing to self-test against
    for pt in ("xyz", "g", "eta"):
        if not G.judge_fwd(rt, G.Oracle(group, perturb=pt)).problems:
            raise common.MachineryError("selftest: perturbed %s accepted" % pt)

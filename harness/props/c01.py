"""C01 - pixel-to-g-vector geometry agrees across the Python, C and numba implementations.

spec   : specs/Geometry.tla, machine InitFwd (Place, Flip, Tilt, Shift, Origin, Diff, RotateG, Project) in exact
         rational arithmetic at right / Pythagorean angles.  TLC checks TypeOK, StackOrtho, NormLaw, OmegaLaw,
         OriginLaw, Roundtrip, UnitLaw on every state and emits one record per terminal state (exact xyz, o, d, G, A = G d,
         Bx = G e_x).
binding: mode A.  The records of one parameter set form a batch of peaks; the batch is fed to every route and every
         output is compared with the oracle (never with another route):
           py     transform.* reference functions, stage by stage
           c      Ctransform (sf2xyz, xyz2gv, xyz2geometry, sf2gv) + raw cImageD11 kernels with an independent packing and
                  dirty output buffers; compute_xlylzl also with a non-zero dist[1], dist[2]
           ct     Ctransform with caller-supplied out= buffers (must be returned, every row written); an object built
                  for other parameters whose .pars are edited followed by reset() - all of them, and only a SUBSET of them
                  (two of the rotation G.SUBSETS per batch); the source dictionary edited after construction (must not matter)
           cf     columnfile.updateGeometry / updateGV fast and slow, translation by parameter and by argument;
                  histories on one object (other parameters first, then set / dict.update / loadparameters from a file);
                  histories in which only a SUBSET of the parameters changes between the two updates (G.SUBSETS: every
                  single parameter, the flip, wedge+chi, translation, detector, non-detector, ... - three of the rotation
                  per batch; the shape rotates too: updateGeometry / updateGV in each order, compiled / Python route,
                  parameters.set / dictionary item / new parameters object / pars= argument, translation by argument)
           cfx    columnfile storage and naming variants: xc,yc titles; one 2-D array behind the columns that already
                  holds all nine geometry columns (attribute, getcolumn and array rows must agree); a bare 2-D array;
                  after copy(); after filter(all true); bigarray taken between two updates
           numba  the copies in sinograms/point_by_point incl. compute_gve (constant xpos and one xpos per peak) and
                  get_local_gv on three (si, sj, ystep) grids incl. (0,0) and a negative ystep
           rg     refinegrains.compute_gv (OmFloat False / True)
           al     refinegrains.assignlabels with two grains (this batch's translation last / first, the other grain and
                  the parameter object carry other translations): .gv and the gx,gy,gz columns after the re-used buffer,
                  tth_per_grain / eta_per_grain of the peaks given to this batch's grain (float32 columns: 5e-5 degree)
         After every family the peak arrays handed in (sc, fc, omega, signed omega, xyz) and the input columns of every
         columnfile must be bit-identical.  A route that raises is reported as a disagreement.
         Instance families that the model does not distinguish (it is covariant under them): batch lengths 1, 2 and 4097
         (across the OpenMP chunking; 1, 2, 4 and the default number of threads) on a seeded 1.5 % of the batches; the
         parameters typed as a parameter file yields them (ints where integral - directly and through
         parameters.set_parameters / dumbtypecheck from text) on a seeded 5 %: every family again, numba through three
         leaf functions in one int pattern each.  Batches of the exhaustive corner set go through every basic family;
         parameter sets met by the simulation only (mostly one peak) go through ct, al, the one-object histories and the
         two further get_local_gv grids on seeded subsets (1/2, 1/2, 1/4, 1/3); cfx runs on a seeded third of all batches,
         the parameter-file history on a quarter, the two grain positions of al alternate.  notes["families"] counts how
         often each family was exercised (vacuity guard: >= 20 each).
         The length unit (UnitLaw of the specification: xyz, o, d are homogeneous of degree one in pixel sizes, distance and
         translation, so angles and g-vectors do not depend on the unit): every eighth batch of the corner set (thorough: every 32nd of
         the 16384 batches) and a fiftieth of the others go through every route family once more written in mm, metres, 2^-10, 2^-20 or nanometres
         (rotation; lengths chosen by the harness - xpos, ystep, dist[1:] - in the same unit); expected angles, k, g, ds
         unchanged, xyz and origins times the unit (their absolute tolerance term too).
         Calls alive at the same time (c01_alive.py; the model makes a record a function of its own lattice point, so a
         result may depend neither on a call of another user in flight nor on a later call): (a) re-entrancy - teams of 4
         and 3 PYTHON threads, each looping over its own parameter set (pairwise different wedge / chi; omega signs,
         translations, flips mixed) and its own objects on tables of 100000 / 250000 rows through Ctransform (sf2xyz,
         xyz2gv, xyz2geometry, sf2gv), columnfile.updateGeometry / updateGV(fast=True), the raw kernels and (first team)
         the slow columnfile route, every output against that thread's own oracle; vacuity guard on the number of compiled
         calls during which another thread started one (compute_geometry is `threadsafe` in _cImageD11.pyf: no GIL);
         (b) results keep standing - all 144 histories of two allocating calls by two callers with tables of equal
         length (7 and 70000 rows; thorough also 4097, 300000) and other parameters: the first result is judged again after
         the second call and np.shares_memory between them must be false (also over what the threads kept).
         Geometry domain: the distance of a lattice point is one of 60, 70 (forward detector), -60 (back-scattering
         detector) and 2 (near field: the tilted detector reaches behind the sample, a translated grain lies beyond it), so
         every route is compared with the oracle on both sides of two-theta = 90 degrees in about a third of the batches
         (notes records_beyond_90_*; vacuity guard: >= 10 records in each of the four classes).
tiers  : quick    = exhaustive corner set (all 256 switch combinations x both omega signs, default flip) plus
                    `tlc -simulate` of 3000 lattice points seeded by VERIF_SEED (guard: all 8 flips, both omega signs
                    and all 4 pixel-size sign pairs occurred)
         thorough = the whole lattice: 256 switch sets x 8 flips x 2 omega signs x 4 pixel-size sign pairs x 4 peaks
                    x 4 omegas = 262144 records
"""
import json, time
import numpy as np
import common
import c01_geometry as G
import c01_alive as A

PROP = "C01"
WORKERS = 16


def nontrivial(par):
    return any(par["sw"]) or par["flip"] != 1 or par["sgn"] != 1 or par["zs"] < 0 or par["ys"] < 0


BASE_ROUTES = ("py", "c", "ct", "cf", "numba", "rg", "al")


def judge_batch(chk, rt, group, lengths, stats, replaying=None, plan=None, unit=None):
    """plan = {"routes": route families of the plain batch, "typed": None / "int" / "str"} (default: everything);
    unit: the batch is written in another length unit (G.Oracle: same expected angles and g-vectors, lengths times unit)"""
    orc = G.Oracle(group, unit=unit)
    plan = plan or {"routes": G.ALL_ROUTES, "typed": None}
    jobs = []               # (length, threads, routes, typing)
    for L in lengths:
        if L is None:
            jobs.append((None, 2, plan["routes"], None))
            if plan.get("typed"):
                jobs.append((None, 2, G.ALL_ROUTES, plan["typed"]))
        elif L < 4097:
            # small batches: 2 OpenMP threads (cheap to wake)
            jobs.append((L, 2, G.ALL_ROUTES, None))
        else:
            # the 4097-row batches: 1, 4 and the default thread count
            jobs += [(L, 1, ("c", "ct", "cf", "al"), None), (L, 4, ("c", "ct", "cf", "al"), None), (L, None, G.ALL_ROUTES, None)]
    for L, nt, routes, typing in jobs:
        o = orc if L is None else orc.tiled(L)
        with G.omp_threads(rt, nt):
            J = G.judge_fwd(rt, o, routes=routes, typing=typing, count=stats["families"])
        stats["thread_counts"].add(nt or stats["default_threads"])
        stats["comparisons"] += J.ncmp
        stats["worst_ratio"] = max(stats["worst_ratio"], J.worst)
        if J.problems:
            what = "%s%s [%d disagreeing outputs; parameters %s]" % (
                J.problems[0], "" if L is None else " [batch length %d, %s OpenMP threads]" % (L, nt or "default"), len(J.problems),
                json.dumps(orc.P, sort_keys=True))
            if replaying:                    # re-judging a saved case: nothing is written
                print("  violation: %s" % what)
                chk.violations.append((what, replaying))
            else:
                chk.violation(what, {"kind": "fwd", "records": group, "length": L, "threads": nt, "routes": list(routes),
                                     "typed": typing, "problems": J.problems[:20],
                                     "unit": None if unit is None else [orc.unit.numerator, orc.unit.denominator]})
            break
    return orc


def run(tier, replay=None):
    chk = common.Check(PROP, tier)
    shadow = common.build_shadow("normal")
    common.use_shadow(shadow)
    rt = G.Routes()
    chk.rule = ("lattice point = (on/off of tilt_x tilt_y tilt_z wedge chi t_x t_y t_z) x flip x omegasign x pixel-size signs "
                "x peak x omega; angle values (right / Pythagorean), wavelength, distance, translation are a fixed function "
                "of the lattice point; one record per lattice point, batched per parameter set; non-trivial = some switch "
                "on or non-default flip / omegasign / pixel-size sign; distinct = distinct lattice point")
    chk.assumptions = [
        "sin/cos of atan2(s, c) is within 1 ulp of s/n, c/n (rational-trigonometry points); accuracy of the "
        "implementations between such points is not decided",
        "the last irrational step (sqrt, atan2) of the expected values is evaluated by the harness in 40-digit decimals "
        "from the exact integers emitted by the specification",
        "eta is not compared where (dy, dz) = (0, 0) exactly; tolerance |x-e| <= 1e-9*scale + 1e-12, angles 1e-6 degree",
    ]
    stats = {"comparisons": 0, "worst_ratio": 0.0, "thread_counts": set(), "families": {},
             "default_threads": int(rt.c.cimaged11_omp_get_max_threads())}
    if replay:
        case = json.load(open(replay))["case"]
        from fractions import Fraction
        if case.get("kind") == "alive":
            def again(what, obj):
                print("  violation: %s" % what)
                chk.violations.append((what, replay))
            A.replay(rt, case, stats, again)
            case = dict(case, records=[r for g in case["groups"] for r in g])
        else:
            judge_batch(chk, rt, case["records"], [case.get("length")], stats, replaying=replay,
                        plan={"routes": G.REPLAY_ROUTES, "typed": case.get("typed")},
                        unit=Fraction(*case["unit"]) if case.get("unit") else None)
        chk.traces += len(case["records"])
        chk.case(replay)
        chk.sample({"replayed": replay})
        chk.exhaustive = False
        stats["thread_counts"] = sorted(stats["thread_counts"])
        chk.notes.update(stats)
        return chk.finish()

    if tier == "quick":
        recs = G.run_geometry(chk, "Geometry forward corner set (exhaustive)", "fwd_corner", workers=WORKERS,
                              coverage=True, actions=G.FWD_ACTIONS, timeout=600)
        recs += G.run_geometry(chk, "Geometry forward -simulate 3000", "fwd_sim", workers=4, simulate=750, depth=13,
                               timeout=600)
        chk.exhaustive = False
        frac = 0.015
    else:
        recs = G.run_geometry(chk, "Geometry forward corner set (exhaustive, coverage)", "fwd_corner", workers=WORKERS,
                              coverage=True, actions=G.FWD_ACTIONS, timeout=600)
        recs = G.run_geometry(chk, "Geometry forward full lattice (exhaustive)", "fwd_t", workers=WORKERS, timeout=3000)
        if len(recs) != 262144:
            raise common.MachineryError("full lattice emitted %d records, expected 262144" % len(recs))
        frac = 0.01
    groups = G.group_records(recs)
    rng = np.random.default_rng(common.seed())
    seen_angles = {s: set() for s in G.SWITCHES[:5]}
    seen = {"flip": set(), "sgn": set(), "sizes": set(), "t_nonzero": 0, "eta_undefined": 0, "normlaw_in_tlc": 0,
            "pythagorean_3": 0, "beyond_90_back_scattering_detector": 0, "beyond_90_near_field_tilted": 0,
            "beyond_90_near_field_translated": 0, "beyond_90_near_field_tilted_and_translated": 0, "beyond_90_forward_detector": 0,
            "batches_beyond_90": 0, "unit_batches": 0}
    units = G.unit_scales(recs)
    chk.notes["length_units"] = [str(x) for x in units]
    t0 = time.time()
    for gi, group in enumerate(groups):
        lengths = [None]
        if rng.random() < frac:
            lengths += [1, 2, 4097]
        # Every batch of the exhaustive corner set goes through every basic family; a parameter set met by the simulation
        # only (mostly one peak) always goes through the reference, the compiled fast path, columnfile fast / slow, the
        # numba copies and refinegrains.compute_gv, and through the dearer families on seeded subsets: Ctransform buffers
        # / histories and assignlabels on a half each, the histories of one columnfile object on a quarter, the two further
        # get_local_gv grids on a third.  For all batches: columnfile storage / naming variants on a third, the history
        # through a parameter file on disk on a quarter, the two positions of the batch's grain in assignlabels alternate,
        # and a twentieth goes through every family once more with the parameters typed as a parameter file yields them
        u = rng.random(8)
        if len(group) >= 4:
            routes = BASE_ROUTES
        else:
            routes = ("py", "c", "cf", "numba", "rg") + (("ct",) if u[3] < 0.5 else ()) + (("al",) if u[4] < 0.5 else ()) \
                     + (("cf_nohist",) if u[5] >= 0.25 else ()) + (("numba_1grid",) if u[6] >= 1 / 3. else ())
        plan = {"routes": routes + (("cfx",) if u[0] < 1 / 3. else ()) + (("cf_file",) if u[1] < 0.25 else ())
                + (("al_last", "al_first")[gi % 2],),
                "typed": None if u[2] >= 0.05 else ("int", "str")[gi % 2]}
        orc = judge_batch(chk, rt, group, lengths, stats, plan=plan)
        # the length unit is free (UnitLaw of the specification): a sample of the batches (every eighth of the corner set,
        # a fiftieth of the others) is replayed through every route family in one unit of the rotation (mm, metres,
        # 2^-10, 2^-20, nanometres): same expected angles and g-vectors, lengths times the unit
        if (len(group) >= 4 and gi % (8 if tier == "quick" else 32) == 0) or (len(group) < 4 and u[7] < 0.02):
            uu = units[seen["unit_batches"] % len(units)]
            seen["unit_batches"] += 1
            judge_batch(chk, rt, group, [None], stats, plan={"routes": BASE_ROUTES + ("cfx", "cf_file"), "typed": None}, unit=uu)
        par = group[0]["par"]
        for s in seen_angles:
            seen_angles[s].add(tuple(par[s]))
        seen["flip"].add(par["flip"])
        seen["sgn"].add(par["sgn"])
        seen["sizes"].add((par["zs"], par["ys"]))
        for r in group:
            p = r["par"]
            chk.case((p["sw"], p["flip"], p["sgn"], p["zs"], p["ys"], p["pk"], p["om"]), nontrivial=nontrivial(p))
            chk.traces += 1
            seen["normlaw_in_tlc"] += r["normlaw"]
            seen["t_nonzero"] += any(p["t"])
            npy = sum(1 for a in ("tilt_x", "tilt_y", "tilt_z", "wedge", "chi", "omega") if p[a][2] > 1)
            seen["pythagorean_3"] += npy == 3
        seen["eta_undefined"] += int((~np.isfinite(orc.eta)).sum())
        # the geometry domain: rows beyond two-theta = 90 degrees (d_x < 0) per class of set-up
        nb = int(orc.back.sum())
        if nb:
            seen["batches_beyond_90"] += 1
            if par["dist"] < 0:
                seen["beyond_90_back_scattering_detector"] += nb
            elif par["dist"] < 10:
                tilted, moved = any(par["sw"][:3]), any(par["t"])
                seen["beyond_90_near_field_" + ("tilted_and_translated" if tilted and moved else "tilted" if tilted
                                                else "translated")] += nb
            else:
                seen["beyond_90_forward_detector"] += nb
        if gi in (3, len(groups) // 2):
            chk.sample({"record": group[-1], "parameters": G.pars_of(par)})
        if len(chk.violations) > 24:
            break
    # calls alive at the same time: python threads with their own parameter sets; results of earlier calls keep standing
    if len(chk.violations) <= 24:
        A.run(rt, groups, np.random.default_rng([common.seed(), 101]), tier, stats, chk.violation)
    stats["thread_counts"] = sorted(stats["thread_counts"])
    subset_counts = {k.split(":", 1)[1]: int(v) for k, v in stats["families"].items() if k.startswith("cf_subset_history:")}
    stats["families"] = {k: int(stats["families"].get(k, 0)) for k in G.FAMILIES}
    stats["cf_subset_histories_by_subset"] = subset_counts
    chk.notes.update(stats)
    chk.notes["batches"] = len(groups)
    chk.notes["replay_s"] = round(time.time() - t0, 1)
    chk.notes["angle_values_per_switch"] = {s: len(v) for s, v in seen_angles.items()}
    chk.notes["flips"] = len(seen["flip"])
    chk.notes["omegasigns"] = len(seen["sgn"])
    chk.notes["pixel_size_sign_pairs"] = len(seen["sizes"])
    for k in sorted(k for k, v in seen.items() if isinstance(v, int)):
        chk.notes["records_" + k] = int(seen[k])
    chk.notes["routes"] = ["transform (reference)", "Ctransform + raw cImageD11 (out= buffers, reset histories)",
                           "columnfile fast/slow (histories, storage / naming variants)", "numba point_by_point",
                           "refinegrains.compute_gv", "refinegrains.assignlabels"]
    # vacuity guards (only meaningful for a run that was not cut short by violations)
    if chk.violations:
        return chk.finish()
    need = 10 if tier == "thorough" else 8
    for s, v in seen_angles.items():
        if len(v) < need:
            raise common.MachineryError("vacuity: switch %s saw only %d angle values" % (s, len(v)))
    if seen["t_nonzero"] == 0 or seen["normlaw_in_tlc"] == 0 or seen["pythagorean_3"] == 0 or seen["eta_undefined"] == 0:
        raise common.MachineryError("vacuity: %r" % (seen,))
    for k in ("beyond_90_back_scattering_detector", "beyond_90_near_field_tilted", "beyond_90_near_field_translated",
              "beyond_90_near_field_tilted_and_translated"):
        if seen[k] < 10:
            raise common.MachineryError("vacuity: only %d records with two-theta > 90 degrees in the class %s" % (seen[k], k))
    if len(seen["flip"]) != 8 or len(seen["sgn"]) != 2 or len(seen["sizes"]) != 4:
        raise common.MachineryError("vacuity: not all 8 flips x 2 omega signs x 4 pixel-size sign pairs occurred %r" % (seen,))
    if seen["unit_batches"] < 4 * len(units):
        raise common.MachineryError("vacuity: only %d batches were replayed in another length unit" % seen["unit_batches"])
    for nm, keys in G.SUBSETS:
        if subset_counts.get(nm, 0) < 5:
            raise common.MachineryError("vacuity: subset history '%s' ran %d times" % (nm, subset_counts.get(nm, 0)))
    for k, v in stats["families"].items():
        if v < 20:
            raise common.MachineryError("vacuity: instance family %s was exercised %d times" % (k, v))
    if stats.get("alive_overlapped_calls", 0) < 12 or stats.get("alive_histories", 0) < 288:
        raise common.MachineryError("vacuity: calls alive at the same time: %d overlapped calls, %d histories" % (
            stats.get("alive_overlapped_calls", 0), stats.get("alive_histories", 0)))
    selftest(rt, groups)
    return chk.finish()


def selftest(rt=None, groups=None):
    """a perturbed expectation must be rejected by the comparison"""
    if rt is None:
        import sys
        if "ImageD11" not in sys.modules:
            common.use_shadow(common.build_shadow("normal"))
        rt = G.Routes(numba_routes=False)
    if not groups:
        groups = G.group_records(G.run_geometry(common.Check(PROP, "selftest"), "selftest corner", "fwd_corner",
                                                workers=WORKERS, timeout=600))
    group = next(g for g in groups if any(g[0]["par"]["sw"][:5]) and any(g[0]["par"]["t"]))
    if G.judge_fwd(rt, G.Oracle(group)).problems:
        return          # the unchanged case already fails: nothing to self-test against
    for pt in ("xyz", "g", "eta"):
        if not G.judge_fwd(rt, G.Oracle(group, perturb=pt)).problems:
            raise common.MachineryError("selftest: perturbed %s accepted" % pt)
    A.selftest(rt, group)

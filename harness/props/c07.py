"""C07 - every peak is assigned to its best-fitting grain, whatever the order or threads.

specs: ScoreAssign.tla (the kernel's loop body as three named branches TakeP / ReleaseP / LeaveP, any peak schedule;
       configurations q = all fresh passes 3 grains x 2 peaks over -1 filled buffers, hist = every history of 1..3 calls
       (thorough: 1..4) over 2 labels x 3 UBI versions - fresh passes, a label presented again after its UBI changed,
       partial passes - from every initial label content (-1, a foreign value, either label) and stale stored errors,
       thorough also dirty_t = fresh passes of 3 grains x 2 peaks over buffers holding -1 / a foreign value / a grain's
       label), TraceScoreAssign.tla (trace validation of recorded real runs),
       ScoreAssignLayout.tla (ScoreAssign seen through the MEMORY LAYOUT of what the Python callers hand to the kernel: the
       kernel's view `Seen` of the logical g-vector array under an address map x item type (12 g-vector layouts: C, column
       major, strided rows / columns, reversed, binary32, integer, byte swapped, unaligned, read only; 6 UBI layouts), the
       way the indexer was built (indexer(gv=), indexer_from_colfile, indexer_from_colfile_and_ucell, .gv assigned,
       readgvfile) and prepared (directly / assigntorings() first); configuration lay = every history of 1..2 calls over 2
       grains from every label buffer content x 108 layout combinations, invariants LayoutBlind + the property on the
       LOGICAL array; configuration ravelK = a caller flattening the held array in memory order: TLC MUST refute BestGrain;
       configuration nf = NON-FINITE peaks: a g-vector with NaN / +inf / -inf in one or all components (5 kinds) has no hkl
       error below the tolerance for any UBI - the logical table holds E on every row whatever its finite components would
       score - x all 16 tables x every history of 1..2 calls x 4 label buffer contents x 23 floating layout combinations).
Mode A: EVERY behaviour TLC emits is realised with exactly representable UBIs / g-vectors; behaviours sharing a
        presentation sequence are packed as the peaks of one array, tiled to 5*4096+7 peaks (6 OpenMP chunks), and run
        through raw score_and_assign calls at 1/2/3/5/8/16/32 threads, two label numberings, two initial error values:
        labels, stored errors and returned count after every call must equal the model's snapshot.  The callers are
        driven with the same arrays: indexer.fight_over_peaks (.ga .gas .drlv2), nb_utils.assign_peaks_to_grains (zero
        filled labels), indexer.getind (dirty and default work buffers), GrainSinogram.prepare_peaks_from_2d (label 0 / 5).
        The behaviours of configuration lay are realised as real numpy arrays with the emitted address map / item type
        (the tables are exact in binary32 and, scaled by 64, as integers): raw calls and the columnfile routes (gx gy gz =
        the columns of the laid out array itself) per (g-vector layout, UBI layout), fight_over_peaks and getind for every
        layout x build x prep; expectations are the model's, i.e. those of the logical array.
Mode C: seeded realistic runs (random / twinned / duplicated UBIs, noisy peaks, strays) through every route: raw calls
        (fresh buffers; zero filled buffers with zero based labels; a second pass after the grains moved, over stale
        labels with reset or stale stored errors, other tolerance), fight_over_peaks, assign_peaks_to_grains, getind,
        prepare_peaks_from_2d, and refinegrains.assignlabels on forward simulated detector peaks of sub-grain families
        whose positions are distinct / all equal / shared with another position in between, in several grain orders,
        in memory and through files.  Every raw-kernel case hands ALL its routes arrays under one of the 108 layout
        combinations (rotating, seeded; integer g-vectors = 4096 gv with UBI / 4096) and also goes through
        indexer.saveindexing (g-vector file read back, assigntorings, report written); assignlabels gets its detector
        columns as the columns of one array under a value preserving layout, laid out UBIs, list translations and stale
        labels / drlv2 columns of several item types.  Reference errors are formed from the logical binary64 values of
        what was handed over, by the harness's own numpy (c07_lib.hkl_err, c09_sim.forward for
        per-grain g-vectors).  Non-finite family: the same generators with seeded rows (first / last peak of every OpenMP
        chunk included) made non-finite (NaN, +inf, -inf in one or all components; a whole NaN gx / gy / gz column; NaN /
        inf detector positions or omega on the assignlabels route, in memory and through files): the reference error of such
        a peak is +inf for every grain (indexed by no grain -> unassigned, not counted, stored error untouched), the finite
        rows are judged as ever; stored errors are compared so that a NaN fails (never through abs() < eps alone); runs are recorded (ranks of reference errors, labels and rank of stored error after every
        observable call) and validated by TLC in blocks of 256 peaks; the model's per-block counts are summed.
"""
import os, sys, json, time, threading, contextlib
import numpy as np
import common
import c07_lib as L

PROP = "C07"
TOTAL = 5 * L.CHUNK + 7                     # 6 chunks: with 2, 3, 5 threads the chunks wrap around the threads
CONFIGS = {"q": ("ScoreAssign_q.cfg", 3, 24576), "hist": ("ScoreAssign_hist.cfg", 2, 29952),
           "dirty_t": ("ScoreAssign_dirty_t.cfg", 3, 221184), "hist_t": ("ScoreAssign_hist_t.cfg", 2, 122880),
           "lay": ("ScoreAssignLayout_lay.cfg", 2, 16 * 6 * 4 * 108), "ravelK": ("ScoreAssignLayout_ravelK.cfg", 2, 0),
           "nf": ("ScoreAssignLayout_nf.cfg", 2, 16 * 6 * 4 * 23 * 5)}
LAYOUT_CONFIGS = ("lay", "nf")               # behaviours carry layout tags; raw calls / column routes once per (glay, ulay)
ACTIONS = ("Call", "TakeP", "ReleaseP", "LeaveP", "Return")


def spec_module(cfg):
    return cfg.split("_")[0]


def load_mods():
    from ImageD11 import cImageD11 as c, indexing, transform, unitcell, columnfile, grain, parameters, refinegrains
    with L.quiet():
        import ImageD11.nbGui.nb_utils as nb_utils
        import ImageD11.sinograms.sinogram as sinogram
        import ImageD11.sinograms.dataset as dataset
    return {"c": c, "indexing": indexing, "transform": transform, "unitcell": unitcell, "columnfile": columnfile, "grain": grain,
            "parameters": parameters, "refinegrains": refinegrains, "nb_utils": nb_utils, "sinogram": sinogram, "dataset": dataset}


# ---------------------------------------------------------------------------------------------
# mode A

def tlc_tables(name, tier, out, after=None):
    cfg, G, nexp = CONFIGS[name]
    if after is not None:                     # memory: not more JVMs at a time than before configuration nf existed
        after.join()
    try:
        res = common.run_tlc(spec_module(cfg), os.path.join(common.SPECS, cfg), workers=(6 if name != "ravelK" else 2), timeout=2400,
                             coverage=(tier == "thorough" and name != "ravelK"))
        out[name] = res
    except Exception as e:                                      # re-raised by the main thread
        out[name] = e


def model_must_flag(chk, name, res):
    """configuration ravelK (a caller that flattens the held array in memory order): the MODEL has to report BestGrain
    violated for a column major held array - the layout layer of the specification is not vacuous"""
    cfg, G, nexp = CONFIGS[name]
    chk.add_tlc("%s %s (the wrong flattening: a counterexample is required)" % (spec_module(cfg), cfg), res)
    v = res.trace[-1].get("vars", {}) if res.violated and res.trace else {}
    held_f = v.get("prep") == '"direct"' and (v.get("build") == '"from_colfile"' or v.get("glay") == '"F"')
    if "BestGrain" not in res.violated or not held_f:
        raise common.MachineryError("%s: TLC did not refute BestGrain for a memory-order flattening of a column major array (%s)\n%s" % (
            cfg, res.violated, res.stdout[-1500:]))
    chk.notes.setdefault("mode_A", {})[name] = {"violated_as_required": res.violated, "states": res.states}


def mode_a(chk, mods, name, res, tier):
    cfg, G, nexp = CONFIGS[name]
    c = mods["c"]
    if name == "ravelK":
        return model_must_flag(chk, name, res)
    need = ACTIONS if name != "q" else ("Call", "TakeP", "LeaveP", "Return")
    if name in LAYOUT_CONFIGS:
        need = ()                 # the actions are the instantiated ScoreAssign's (coverage is reported under that module's names)
    chk.add_tlc("%s %s" % (spec_module(cfg), cfg), res, require_cover=(need if res.coverage else ()))
    if res.violated:
        raise common.MachineryError("%s model (%s) violates %s" % (spec_module(cfg), cfg, res.violated))
    recs = [json.loads(line) for line in res.printed]
    if len(recs) != nexp:
        raise common.MachineryError("%s: expected %d finished behaviours, got %d" % (cfg, nexp, len(recs)))
    if name == "lay" and set(L.rec_lay(t) for t in recs) != set(L.combos()):
        raise common.MachineryError("%s: the layout combinations emitted are not c07_lib.combos()" % cfg)
    if name == "nf" and (set(L.rec_lay(t) for t in recs) != set(L.nf_combos()) or set(k for t in recs for k in t["nf"]) != set(L.NF_KINDS)):
        raise common.MachineryError("%s: the layout combinations / non-finite kinds emitted are not c07_lib.nf_combos() x NF_KINDS" % cfg)
    cnt = chk.notes.setdefault("mode_A", {})
    fam = cnt.setdefault(name, {"behaviours": len(recs), "release_branch_behaviours": 0, "stale_error_behaviours": 0, "fight": 0,
                                "assign_peaks_to_grains": 0, "getind": 0, "prepare_peaks_from_2d": 0, "kernel_calls": 0})
    if name in LAYOUT_CONFIGS:
        fam["layout_combinations"] = len(set(L.rec_lay(t) for t in recs))
    if name == "nf":
        fam["non_finite_kinds"] = list(L.NF_KINDS)
    groups = sorted(L.group_by_order(recs).items())
    for (order, lay), cases in groups:
        pk = L.Packed(cases, G)
        # configuration nf: 2 chunks (mode C's non-finite family puts such peaks at every chunk edge of larger arrays)
        base = TOTAL if name != "nf" else L.CHUNK + 7
        total = max(base, pk.P + 7)
        for t in cases:
            k2 = any(sum(1 for r in range(pk.R) if t["err"][r][k] < 3) >= 2 for k in range(pk.K))
            chk.case((name, json.dumps(t["err"]), order, tuple(t["lab0"]), tuple(t["dr0"]), lay), nontrivial=k2)
            fam["release_branch_behaviours"] += int(any(a != -1 and b == -1 for s0, s1 in zip([{"labels": t["lab0"]}] + t["snaps"][:-1], t["snaps"])
                                                        for a, b in zip(s0["labels"], s1["labels"])))
            fam["stale_error_behaviours"] += int(any(d < 3 for d in t["dr0"]))
        chk.traces += len(cases)
        if (order, lay) == groups[0][0]:
            chk.sample({"config": name, "behaviour": cases[len(cases) // 2]})
        probs = []
        # one-based labels (0 = the foreign value) at every thread count; zero-based labels (what every caller uses: a
        # zero filled buffer then holds the first grain's label) at two.  Layout configuration: the build / prep tags only
        # concern the indexer routes, so the raw calls are made once per (g-vector layout, UBI layout), at two thread counts
        plans = (("one", L.THREADS, ((1.0, 2.0) if name == "q" else (1.0,))), ("zero", (3, 16), (2.0,)))
        if name == "lay":
            plans = (("one", (1, 5), (1.0,)), ("zero", (3,), (2.0,))) if lay[2:] == L.PLAIN[2:] else ()
        if name == "nf":
            plans = (("one", (1, 3, 16), (1.0,)), ("zero", (5,), (2.0,))) if lay[2:] == L.PLAIN[2:] else ()
        try:
            for labmap, threads, inits in plans:
                probs += pk.run_raw(c, threads, total, labmap=labmap, inits=inits, lay=lay)
                fam["kernel_calls"] += len(threads) * len(inits) * len(order)
        except common.MachineryError:
            raise
        except Exception as e:
            probs.append(("score_and_assign raised %s: %s (order %s, %s)" % (type(e).__name__, str(e)[:300], list(order), L.lay_tag(lay)), cases[0]))
        route_probs = []
        try:
            route_probs += caller_routes(c, mods, fam, pk, cases, order, G, lay, ((1, 3, 16) if name not in LAYOUT_CONFIGS else (3,)), base=base)
        except common.MachineryError:
            raise
        except Exception as e:
            route_probs.append(("a caller of score_and_assign raised %s: %s (order %s, %s)" % (
                type(e).__name__, str(e)[:300], list(order), L.lay_tag(lay)), cases[0]))
        for what, case in probs:
            chk.violation(what, {"table": case, "G": G, "total": total, "route": "raw", "lay": list(lay)})
        for what, case in route_probs:
            chk.violation(what, {"table": case, "G": G, "total": total, "route": "callers", "lay": list(lay)})
        if len(chk.violations) > 10:
            break
    return recs


def caller_routes(c, mods, fam, pk, cases, order, G, lay=L.PLAIN, fight_threads=(1, 3, 16), base=TOTAL):
    """the callers on the behaviours they can produce (every one is a fresh single pass); returns [(what, behaviour)].
    The indexer routes (fight_over_peaks, getind) are driven for every layout tag; the columnfile routes know nothing of
    build / prep and are driven once per (g-vector layout, UBI layout)"""
    probs = []
    colroutes = tuple(lay[2:]) == L.PLAIN[2:]
    fresh = [t for t in cases if t["pass"] == 1 and all(x == -1 for x in t["lab0"])]
    if fresh:
        probs += L.Packed(fresh, G).run_fight(c, mods, fight_threads, max(base, len(fresh) * pk.K + 7), lay=lay)
        fam["fight"] += len(fresh)
    # a ZERO filled label buffer with zero based labels = the buffer holds the label of the first grain presented
    zf = [t for t in cases if t["pass"] == 1 and all(x == L.row_label(order[0], G) for x in t["lab0"])]
    if zf and len(order) > 1 and colroutes:
        probs += L.Packed(zf, G).run_nb(c, mods, ((1, 5) if len(fight_threads) > 1 else (5,)), max(base, len(zf) * pk.K + 7), lay=lay)
        fam["assign_peaks_to_grains"] += len(zf)
    if len(order) == 1:
        gi = [t for t in cases if t["lab0"] == [0] and t["dr0"] == [3]]                              # a value that is not the label
        own = [t for t in cases if t["lab0"] == [L.row_label(order[0], G)] and t["dr0"] == [3]]    # the label itself (grain_label=0)
        if gi:
            probs += L.Packed(gi, G).run_getind(c, mods, max(base, len(gi) * pk.K + 7), lay=lay)
            fam["getind"] += len(gi)
            if colroutes:
                probs += L.Packed(gi, G).run_sino(c, mods, max(base, len(gi) * pk.K + 7), 5, lay=lay)
                fam["prepare_peaks_from_2d"] += len(gi)
        if own and colroutes:
            probs += L.Packed(own, G).run_sino(c, mods, max(base, len(own) * pk.K + 7), 0, lay=lay)
            fam["prepare_peaks_from_2d"] += len(own)
    return probs


def replay_table(chk, mods, case):
    """one behaviour, tiled: raw calls and every caller it qualifies for"""
    t, G, total = case["table"], case.get("G", 3), case.get("total", TOTAL)
    lay = tuple(case.get("lay", L.PLAIN))
    c = mods["c"]
    order = t["order"]
    pk = L.Packed([t], G)
    probs = []
    try:
        for labmap in ("one", "zero"):
            probs += pk.run_raw(c, L.THREADS, total, labmap=labmap, lay=lay)
        if t["pass"] == 1 and all(x == -1 for x in t["lab0"]):
            probs += pk.run_fight(c, mods, (1, 3, 16), total, lay=lay)
        if t["pass"] == 1 and len(order) > 1 and all(x == L.row_label(order[0], G) for x in t["lab0"]):
            probs += pk.run_nb(c, mods, (1, 5), total, lay=lay)
        if len(order) == 1 and t["dr0"] == [3]:
            if t["lab0"] == [0]:
                probs += pk.run_getind(c, mods, total, lay=lay)
                probs += pk.run_sino(c, mods, total, 5, lay=lay)
            if t["lab0"] == [L.row_label(order[0], G)]:
                probs += pk.run_sino(c, mods, total, 0, lay=lay)
    except common.MachineryError:
        raise
    except Exception as e:
        probs.append(("a route raised %s: %s (%s)" % (type(e).__name__, str(e)[:300], L.lay_tag(lay)), t))
    return probs


# ---------------------------------------------------------------------------------------------
# mode C

class ModeC(object):
    def __init__(self, chk, mods):
        self.chk, self.mods, self.c = chk, mods, mods["c"]
        self.recs = []            # trace records
        self.real_n = {}          # cid -> (returned counts per call event, number of peaks not kept)
        self.meta = {}
        self.count = {}

    @contextlib.contextmanager
    def guarded(self, route, meta):
        """a caller that raises on the inputs of the property is a violation, not a machinery error"""
        try:
            yield
        except common.MachineryError:
            raise
        except Exception as e:
            self.chk.violation("%s raised %s: %s" % (route, type(e).__name__, str(e)[:300]), dict(meta, route=route))

    def hit(self, what, n=1):
        self.count[what] = self.count.get(what, 0) + n

    def add(self, cid, rk, G, rowlabel, lab0, events, meta, hist=None, init=None, floor=None):
        rr, allkept = L.block_traces(cid, rk, G, rowlabel, lab0, events, hist=hist, init=init, floor=floor, block=256)
        if not rr:
            return False
        self.recs += rr
        ns = [ev["n"] for ev in events if ev["kind"] == "call"]
        if all(n >= 0 for n in ns):
            self.real_n[cid] = (ns, int(rk.K - rk.keep.sum()))
        self.meta[cid] = meta
        self.chk.traces += 1
        return True

    def judge_py(self, what, rk, rows, lab_model, dr, meta, seglab=None, floor=None):
        """independent judgement of the final state of a fresh single pass over `rows` (0-based) in plain numpy: kept peaks
        only.  lab_model: model numbering where label i+1 = rows[i]"""
        exp, none = rk.expected(rows)
        k = rk.keep
        lab_model = np.asarray(lab_model)
        nobody = -1 if seglab is None else np.where(np.asarray(seglab) == 0, 0, -1)
        bad = k & none & (lab_model != nobody)
        if bad.any():
            self.chk.violation("%s: %d peaks indexed by no grain are not labelled unassigned" % (what, int(bad.sum())), meta)
            return False
        asg = k & ~none
        ok = np.zeros(rk.K, bool)
        li = np.clip(lab_model, 1, len(rows)) - 1
        ok[asg] = (lab_model[asg] >= 1) & exp[li[asg], np.nonzero(asg)[0]]
        bad = asg & ~ok
        if bad.any():
            self.chk.violation("%s: %d peaks are not with their best-fitting grain" % (what, int(bad.sum())), meta)
            return False
        if dr is not None:
            r = rk.dr_rank(dr, floor=floor)
            mn = rk.rank[rows].min(axis=0)
            bad = asg & (r != mn)
            if bad.any():
                self.chk.violation("%s: the stored error of %d peaks is not the minimum" % (what, int(bad.sum())), meta)
                return False
        return True

    # ---- one raw-kernel case through every route
    def raw_case(self, cid, ubis, gv, tol, order, rng, big, tier, lay=L.PLAIN):
        """lay = (g-vector layout, UBI layout, indexer build, prep) of ScoreAssignLayout.tla: the arrays handed to EVERY route
        below are laid out that way; every expectation is formed from their logical binary64 values (numpy only)"""
        chk, c, mods = self.chk, self.c, self.mods
        G, K = len(ubis), len(gv)
        lay = tuple(lay)
        if lay[1] == "i64":                       # real UBIs are not integer valued
            lay = (lay[0], "strided") + lay[2:]
        meta = {"G": G, "K": K, "tol": tol, "order": order, "ubis": [np.asarray(u).tolist() for u in ubis],
                "gv": np.asarray(gv).tolist() if K <= 300 else "omitted (seeded)", "seed": common.seed(), "case": cid, "lay": list(lay)}
        # gv / ubis from here on: what is handed over; gvl / ubl: their values; sc: integer g-vectors are 4096 gv, UBI / 4096
        ubis_in = ubis
        gv, ubis, gvl, ubl, sc = L.realise(gv, ubis_in, lay[0], lay[1], 4096)
        errs = np.array([L.hkl_err(u, gvl) for u in ubl])
        nfr = ~L.finite_rows(gvl)                 # a non-finite g-vector has no hkl error below any tolerance: indexed by no grain
        errs[:, nfr] = np.inf
        if nfr.any() and (lay[0] in L.INT_LAYOUTS or lay[3] != "direct"):
            raise common.MachineryError("non-finite g-vectors need a floating layout and no assigntorings() (it raises on them)")
        rk = L.Ranked(errs, tol * tol, L.ident_matrix(ubl))
        if not rk.keep.any():
            return False
        self.hit("layout " + L.lay_tag(lay))
        if nfr.any():
            meta["non_finite_rows"] = np.nonzero(nfr)[0].tolist()[:40]
            self.hit("non_finite_cases")
            self.hit("non_finite_peaks", int(nfr.sum()))
        ident = list(range(1, G + 1))
        # (a) fresh buffers, labels 1..G, every thread count gives the same log
        rows = [(ubis[g], tol, g + 1) for g in range(G)]
        logs = None
        for nt in (L.THREADS if big else (1, 16)):
            ev = L.record(c, rows, gv, order, nt, np.full(K, -1, np.int32), np.full(K, 1.0))
            if logs is None:
                logs = ev
            elif L.log_key(ev) != L.log_key(logs):
                chk.violation("score_and_assign log with %d threads differs from the 1-thread log (G=%d K=%d tol=%g)" % (nt, G, K, tol),
                              dict(meta, threads=nt))
        events = [{"kind": "call", "row": r, "n": n, "labels": L.to_model(lab, 1, G), "dr": dr} for (r, n, lab, dr) in logs]
        if not self.add(cid + "/fresh", rk, G, ident, np.full(K, -1), events, dict(meta, route="raw, fresh buffers"), init=1.0):
            return False
        self.hit("raw_fresh")
        chk.case((cid,), nontrivial=rk.contested)
        final_lab, final_dr = logs[-1][2], logs[-1][3]
        bad = nfr & ((final_lab != -1) | ~(final_dr == 1.0))
        if bad.any():
            k0 = int(np.nonzero(bad)[0][0])
            chk.violation("score_and_assign: %d of %d peaks with a non-finite g-vector are not left unassigned with their stored error untouched "
                          "(peak %d %s: label %d, stored error %r)" % (int(bad.sum()), int(nfr.sum()), k0, gvl[k0].tolist(), final_lab[k0], float(final_dr[k0])),
                          dict(meta, route="raw, fresh buffers"))
        # (b) another order: same answer apart from exact ties (judged against the argmin, not against run (a))
        order2 = list(reversed(order)) if G > 1 else order
        ev2 = L.record(c, rows, gv, order2, 4, np.full(K, -1, np.int32), np.full(K, 2.0))
        if big:
            self.judge_py("second grain order (raw calls)", rk, list(range(G)), L.to_model(ev2[-1][2], 1, G), ev2[-1][3],
                          dict(meta, order=order2), floor=tol * tol)
        else:
            events = [{"kind": "call", "row": r, "n": n, "labels": L.to_model(lab, 1, G), "dr": dr} for (r, n, lab, dr) in ev2]
            self.add(cid + "/order2", rk, G, ident, np.full(K, -1), events, dict(meta, order=order2, route="raw, second order"), init=2.0)
        self.hit("raw_second_order")
        # (c) ZERO filled label buffer, labels = list positions 0..G-1 (what assign_peaks_to_grains does)
        pos_rows = [(ubis[r - 1], tol, i) for i, r in enumerate(order)]          # row i+1 = i-th presented grain
        rkp = L.Ranked(errs[[r - 1 for r in order]], tol * tol, L.ident_matrix([ubl[r - 1] for r in order]))
        evz = L.record(c, pos_rows, gv, ident, (3 if big else 1), np.zeros(K, np.int32), np.full(K, 1.0))
        if big:
            self.judge_py("zero filled label buffer (raw calls)", rkp, list(range(G)), L.to_model(evz[-1][2], 0, G), evz[-1][3], meta,
                          floor=tol * tol)
        else:
            events = [{"kind": "call", "row": r, "n": n, "labels": L.to_model(lab, 0, G), "dr": dr} for (r, n, lab, dr) in evz]
            self.add(cid + "/zero", rkp, G, ident, np.full(K, 1), events, dict(meta, route="raw, zero filled labels, zero based"), init=1.0)
        self.hit("raw_zero_filled")
        nun = int((evz[-1][2] == -1).sum())
        self.hit("raw_zero_filled_released_peaks", nun)
        # (d) indexer.fight_over_peaks: same calls as (a) with labels = positions, drlv2 from 2
        # the positions name the same grains as run (a) (same sequence of kernel calls, other label values and initial error)
        want = np.array([-1] + [order.index(g + 1) for g in range(G)])[np.where(final_lab < 0, 0, final_lab)]
        asg = final_lab >= 0

        def same_as_direct(ind, what):
            ga = np.asarray(ind.ga)
            ok = ga.shape == (K,) and np.shape(ind.drlv2) == (K,)
            if not ok or list(ind.gas) != np.bincount(ga[ga >= 0], minlength=G).tolist() or len(ind.gas) != G:
                chk.violation("%s: gas %s is not the histogram of the labels ga" % (what, [int(x) for x in ind.gas][:60]), dict(meta, route=what))
            if not ok or not np.array_equal(ga, want) or not np.array_equal(ind.drlv2[asg], final_dr[asg]) or not (ind.drlv2[~asg] >= tol * tol).all():
                chk.violation("%s (%s): .ga / .drlv2 differ from the same calls made directly" % (what, L.lay_tag(lay)), dict(meta, route=what))
                return None
            return ga

        with self.guarded("indexer.fight_over_peaks", meta):
            ind = L.build_indexer(mods, gv, gvl, tol, lay[2], lay[3], sc=sc)
            ind.ubis = [ubis[r - 1] for r in order]
            with L.omp(c, 3 if big else 1), L.quiet():
                ind.fight_over_peaks()
            ga = same_as_direct(ind, "indexer.fight_over_peaks")
            if ga is None:
                ga = np.full(K, -9)
            if big:
                self.judge_py("indexer.fight_over_peaks", rkp, list(range(G)), L.to_model(ga, 0, G), ind.drlv2, meta, floor=tol * tol)
            else:
                events = [{"kind": "call", "row": i + 1, "n": -1, "labels": None, "dr": None} for i in range(G - 1)]
                events.append({"kind": "call", "row": G, "n": -1, "labels": L.to_model(ga, 0, G), "dr": ind.drlv2.copy()})
                self.add(cid + "/fight", rkp, G, ident, np.full(K, -1), events, dict(meta, route="indexer.fight_over_peaks"),
                         hist=[int(x) for x in ind.gas], floor=tol * tol)
            self.hit("fight_over_peaks")
        # (d2) indexer.saveindexing: a g-vector file read back, assigntorings(), the grains, the report written: it makes
        #      .gv contiguous and runs fight_over_peaks itself (small cases: one text line per peak and grain)
        if not big and not nfr.any():             # (assigntorings() raises ValueError on a non-finite g-vector: no assignment at all)
            with self.guarded("indexer.saveindexing", meta):
                ind = L.build_indexer(mods, gv, gvl, tol, "readgvfile", "rings", sc=sc)
                if lay[2] == "set_gv":
                    ind.gv = gv
                ind.ubis = [ubl[r - 1].copy() for r in order]       # the report also prints U, B, cell parameters: plain binary64 arrays
                path = os.path.join(common.scratch(), "c07_%d.ubi_report" % os.getpid())
                with L.quiet():
                    ind.saveindexing(path)
                os.remove(path)
                if same_as_direct(ind, "indexer.saveindexing") is not None:
                    self.hit("saveindexing")
        # (e) nb_utils.assign_peaks_to_grains
        with self.guarded("nb_utils.assign_peaks_to_grains", meta):
            cf = mods["columnfile"].colfile_from_dict(L.columns(gv))
            grains = [mods["grain"].grain(ubis[r - 1]) for r in order]
            with L.omp(c, 5 if big else 1), L.quiet():
                mods["nb_utils"].assign_peaks_to_grains(grains, cf, tol)
            gid = np.rint(np.asarray(cf.grain_id)).astype(int)
            gdr = np.asarray(cf.drlv2, float)
            if not np.array_equal(gid, evz[-1][2]) or not np.array_equal(gdr, evz[-1][3]):
                chk.violation("nb_utils.assign_peaks_to_grains (g-vector columns %s, UBIs %s): grain_id / drlv2 differ from the same calls made "
                              "directly" % lay[:2], dict(meta, route="assign_peaks_to_grains"))
                gid = np.full(K, -9)
            if big:
                self.judge_py("nb_utils.assign_peaks_to_grains", rkp, list(range(G)), L.to_model(gid, 0, G), gdr, meta, floor=tol * tol)
            else:
                events = [{"kind": "call", "row": i + 1, "n": -1, "labels": None, "dr": None} for i in range(G - 1)]
                events.append({"kind": "call", "row": G, "n": -1, "labels": L.to_model(gid, 0, G), "dr": gdr})
                self.add(cid + "/nb", rkp, G, ident, np.full(K, 1), events, dict(meta, route="nb_utils.assign_peaks_to_grains"), floor=tol * tol)
            self.hit("assign_peaks_to_grains")
        # (f) one grain at a time: indexer.getind (dirty / default work buffers), GrainSinogram.prepare_peaks_from_2d (label 0 / 7)
        with self.guarded("indexer.getind / GrainSinogram.prepare_peaks_from_2d", meta):
            g1 = int(rng.integers(0, G))
            rk1 = L.Ranked(errs[[g1]], tol * tol, [[True]])
            dtmp, ltmp = np.full(K, 1e-9), np.full(K, 1, np.int32)
            ind1 = L.build_indexer(mods, gv, gvl, tol, lay[2], lay[3], sc=sc)
            with L.quiet():
                m1 = np.asarray(ind1.getind(ubis[g1], drlv2tmp=dtmp, labelstmp=ltmp), bool)
                # after assigntorings() the default buffers are sized by the peaks on rings (see observe_getind_default)
                m2 = np.asarray(ind1.getind(ubis[g1]), bool) if lay[3] == "direct" else m1
            if m1.shape != (K,):
                raise ValueError("getind returned a mask of shape %s for %d peaks" % (m1.shape, K))
            if not np.array_equal(m1, m2):
                chk.violation("indexer.getind: supplied (dirty) work buffers and default buffers give different masks", dict(meta, route="getind", grain=g1))
            events = [{"kind": "call", "row": 1, "n": int(m1.sum()), "labels": np.where(m1, 1, 0), "dr": dtmp.copy()}]
            self.add(cid + "/getind", rk1, 1, [1], np.zeros(K, int), events, dict(meta, route="indexer.getind", grain=g1), init=1.0)
            self.hit("getind")
            for glabel in (0, 7):
                cf2 = mods["columnfile"].colfile_from_dict(dict(L.columns(gv), dty=np.arange(K, dtype=float), omega=np.zeros(K),
                                                                eta=np.zeros(K), sum_intensity=np.ones(K)))
                with L.quiet():
                    gs = mods["sinogram"].GrainSinogram(mods["grain"].grain(ubis[g1]), mods["dataset"].DataSet())
                    gs.prepare_peaks_from_2d(cf2, glabel, hkltol=tol)
                got = np.zeros(K, bool)
                got[np.rint(np.asarray(gs.cf_for_sino.dty)).astype(int)] = True
                seg0 = np.full(K, 1 if glabel == 0 else 0)
                lab = np.where(got, 1, np.where(seg0 == 0, 0, -1))
                self.judge_py("GrainSinogram.prepare_peaks_from_2d(grain_label=%d)" % glabel, rk1, [0], lab, None,
                              dict(meta, route="prepare_peaks_from_2d", grain=g1), seglab=seg0)
                self.hit("prepare_peaks_from_2d")
        # (g) the grains moved: a second pass over the buffers of pass (a) - stale labels, stored errors reset or stale,
        #     some grains unchanged (their label is presented again with the same error: released), other tolerance
        #     (small cases only: mode A runs every such history exactly at 20487 peaks)
        if not big:
            tol2 = tol if rng.random() < 0.5 else tol * float(rng.choice([0.5, 2.0]))
            moved = [ubis[g] if rng.random() < 0.3 else L.lay_ubi(ubl[g] @ L.c09_sim.small_rotation(rng, rng.uniform(0.002, 0.02)).T, lay[1])
                     for g in range(G)]
            movedl = [L.logical(u) for u in moved]
            rows2 = rows + [(moved[g], tol2, g + 1) for g in range(G)]
            errs2 = np.vstack([errs, np.array([L.hkl_err(u, gvl) for u in movedl])])
            rk2 = L.Ranked(errs2, np.array([tol * tol] * G + [tol2 * tol2] * G), L.ident_matrix(ubl + movedl))
            reset = bool(rng.random() < 0.5)
            seq2 = [int(x) + G for x in rng.permutation(G) + 1]
            lab, dr = np.full(K, -1, np.int32), np.full(K, 1.0)
            ev1 = L.record(c, rows2, gv, order, 1, lab, dr)
            if reset:
                dr[:] = 1.0
            ev3 = L.record(c, rows2, gv, seq2, 2, lab, dr)
            events = [{"kind": "call", "row": r, "n": n, "labels": L.to_model(lb, 1, G), "dr": d} for (r, n, lb, d) in ev1]
            if reset:
                events.append({"kind": "reset"})
            events += [{"kind": "call", "row": r, "n": n, "labels": L.to_model(lb, 1, G), "dr": d} for (r, n, lb, d) in ev3]
            if self.add(cid + "/moved", rk2, G, ident + ident, np.full(K, -1), events,
                        dict(meta, route="raw, second pass after the grains moved (%s stored errors)" % ("reset" if reset else "stale"),
                             moved=[u.tolist() for u in movedl], tol2=tol2, seq2=seq2, reset=reset), init=1.0):
                self.hit("second_pass_reset" if reset else "second_pass_stale")
                rel = sum(int(((a[2] >= 0) & (b[2] == -1)).sum()) for a, b in zip([ev1[-1]] + ev3[:-1], ev3))
                self.hit("second_pass_released_peaks", rel)
        return True

    # ---- refinegrains.assignlabels
    def geo_case(self, cid, case, tol, orders, threads, rng, files=None, twice=False, ntrace=9, lay0=0):
        """one simulated detector data set through refinegrains.assignlabels: every grain order (the first `ntrace` are
        validated by TLC, the others judged in numpy), every thread count, optionally a second call after the grains
        moved and the file route"""
        grains = case["grains"]
        G, K = len(grains), len(case["sc"])
        meta0 = {"route": "refinegrains.assignlabels", "case": cid, "family": case["family"], "G": G, "K": K, "tol": tol,
                 "positions": case["which"], "seed": common.seed()}
        errs = L.geo_errs(case["sc"], case["fc"], case["omega"], grains, case["pars"])
        for oi, order in enumerate(orders):
            # detector columns sc fc omega as the columns of ONE array under a value preserving layout, grains with laid out UBIs
            lay = (L.SAME_VALUE_LAYOUTS[(lay0 + oi) % len(L.SAME_VALUE_LAYOUTS)], ("C", "F", "strided", "list")[(lay0 + oi) % 4])
            with self.guarded("refinegrains.assignlabels", dict(meta0, order=order, lay=list(lay))):
                self._geo_order(cid, case, tol, oi, order, threads, errs, dict(meta0, order=order, lay=list(lay)), oi < ntrace, lay)
        if twice:
            with self.guarded("refinegrains.assignlabels (second call)", dict(meta0, order=orders[0], again=True)):
                self._geo_again(cid, case, tol, orders[0], threads[0], rng, dict(meta0, order=orders[0], again=True))
        for with_t in (files or ()):
            meta = dict(meta0, order=orders[-1], files=True, with_translations=with_t)
            with self.guarded("refinegrains.assignlabels (files)", meta):
                self._geo_files(cid, case, tol, orders[-1], threads[0], with_t, meta)

    @staticmethod
    def _route_events(G, labels_model, dr):
        """inside a caller only the buffers after the last call are observable"""
        events = [{"kind": "call", "row": i + 1, "n": -1, "labels": None, "dr": None} for i in range(G - 1)]
        events.append({"kind": "call", "row": G, "n": -1, "labels": labels_model, "dr": dr})
        return events

    def _geo_order(self, cid, case, tol, oi, order, threads, errs, meta, trace, lay=None):
        chk, c, mods = self.chk, self.c, self.mods
        grains = case["grains"]
        G, K = len(grains), len(case["sc"])
        first = None
        # from the second order on the scan already carries a labels column filled with the first grain's label and tiny errors
        # (item types rotate: the columns of a scan read from a file are binary64, columns added in memory may be anything)
        stale = None if oi == 0 else (np.full(K, order[0], dtype=(float, np.int32, np.float32)[oi % 3]),
                                      np.full(K, 1e-9, dtype=(float, np.float32)[oi % 2]))
        for nt in threads:
            lab, dr, npks, rg = L.run_assignlabels(c, mods, case, grains, order, tol, nt, stale=stale, lay=lay)
            if first is None:
                first = (lab, dr, npks)
            elif not (np.array_equal(lab, first[0]) and np.array_equal(dr, first[1]) and npks == first[2]):
                chk.violation("refinegrains.assignlabels: result with %d threads differs from %d threads" % (nt, threads[0]), dict(meta, threads=nt))
        lab, dr, npks = first
        li = np.rint(lab).astype(int)
        if npks != np.bincount(li[li >= 0], minlength=G).tolist():
            chk.violation("refinegrains.assignlabels: npks %s is not the histogram of the labels column %s" % (
                npks, np.bincount(li[li >= 0], minlength=G).tolist()), meta)
        # rows = grains in presentation order; row i is presented under the label order[i] (model label order[i] + 1)
        rows = [int(g) for g in order]
        rkp = L.Ranked(errs[rows], tol * tol, L.ident_matrix([grains[g][0] for g in rows], [grains[g][1] for g in rows]))
        if trace:
            done = self.add("%s/o%d" % (cid, oi), rkp, G, [g + 1 for g in rows], np.full(K, -1), self._route_events(G, L.to_model(li, 0, G), dr),
                            meta, hist=npks, floor=tol * tol)
        else:
            pos = np.array([rows.index(g) + 1 for g in range(G)])                  # judge_py numbers the labels by row
            done = self.judge_py("refinegrains.assignlabels", rkp, list(range(G)), np.where(li < 0, -1, pos[np.clip(li, 0, G - 1)]), dr, meta,
                                 floor=tol * tol)
        if done:
            which = case["which"]
            self.hit("assignlabels")
            self.hit("assignlabels columns %s, UBIs %s" % (lay or ("separate", "C")))
            self.hit("assignlabels_contested_peaks", int(((rkp.rank < rkp.E).sum(axis=0) >= 2).sum()))
            apart = any(which[order[i]] == which[order[j]] and any(which[order[m]] != which[order[i]] for m in range(i + 1, j))
                        for i in range(G) for j in range(i + 2, G))
            self.hit("assignlabels_shared_position_apart", int(apart))
        chk.case((cid, tuple(order)), nontrivial=rkp.contested)

    def _geo_again(self, cid, case, tol, order, nt, rng, meta):
        """a second call on the same object after the grains moved (what makemap does between refinements)"""
        c, mods = self.c, self.mods
        grains = case["grains"]
        G, K = len(grains), len(case["sc"])
        lab, dr, npks, rg = L.run_assignlabels(c, mods, case, grains, order, tol, nt)
        moved = []
        for gi, (ubi, t) in enumerate(grains):
            u2 = ubi @ L.c09_sim.small_rotation(rng, 0.004).T
            t2 = t + rng.uniform(-40, 40, size=3) if gi % 2 == 0 else t.copy()
            gr = rg.grains[(gi, "scan")]
            gr.set_ubi(u2)
            gr.translation = t2.copy()
            moved.append((np.array(gr.ubi, float), t2))
        with L.omp(c, nt), L.quiet(), np.errstate(invalid="ignore", divide="ignore"):
            rg.assignlabels(quiet=True)
        cf = rg.scandata["scan"]
        li = np.rint(np.asarray(cf.labels)).astype(int)
        rows = [int(g) for g in order]
        e2 = L.geo_errs(case["sc"], case["fc"], case["omega"], moved, case["pars"])
        rk2 = L.Ranked(e2[rows], tol * tol, L.ident_matrix([moved[g][0] for g in rows], [moved[g][1] for g in rows]))
        npks2 = [int(rg.grains[(gi, "scan")].npks) for gi in range(G)]
        if self.add(cid + "/again", rk2, G, [g + 1 for g in rows], np.full(K, -1),
                    self._route_events(G, L.to_model(li, 0, G), np.asarray(cf.drlv2, float)), meta, hist=npks2, floor=tol * tol):
            self.hit("assignlabels_second_call_after_move")

    def _geo_files(self, cid, case, tol, order, nt, with_t, meta):
        """parameter file + grain file (in presentation order) + peak file; without #translation lines every grain sits at
        the parameter file's t_x, t_y, t_z.  The reference uses what the object holds after the text round trip."""
        chk, c, mods = self.chk, self.c, self.mods
        grains = case["grains"]
        G, K = len(grains), len(case["sc"])
        gl = grains if with_t else [(u, grains[0][1]) for (u, t) in grains]
        lab, dr, npks, held, cols, heldpars = L.run_assignlabels_files(c, mods, case, gl, order, tol, nt, with_translations=with_t)
        li = np.rint(lab).astype(int)
        pp = dict(case["pars"])
        for k in pp:
            if k in heldpars and not isinstance(pp[k], str):
                pp[k] = float(heldpars[k])
        e3 = L.geo_errs(cols["sc"], cols["fc"], cols["omega"], held, pp)            # held: in file (= presentation) order
        rk3 = L.Ranked(e3, tol * tol, L.ident_matrix([h[0] for h in held], [h[1] for h in held]))
        if npks != np.bincount(li[li >= 0], minlength=G).tolist():
            chk.violation("refinegrains.assignlabels (files): npks is not the histogram of the labels column", meta)
        if self.add("%s/files%d" % (cid, int(with_t)), rk3, G, list(range(1, G + 1)), np.full(K, -1),
                    self._route_events(G, L.to_model(li, 0, G), dr), meta, hist=npks, floor=tol * tol):
            self.hit("assignlabels_files" if with_t else "assignlabels_files_no_translations")

    # ---- TLC
    def validate(self, tag="modeC", extra=()):
        """extra: the self-test records (ids selftest/...), validated in the same TLC run; their verdicts are returned"""
        chk = self.chk
        if not self.recs and not extra:
            return {}
        verdicts, sums, rejected = validate(chk, self.recs + list(extra), tag)
        for cid, (r, v) in rejected.items():
            if cid == "selftest":
                continue
            chk.violation("%s: trace rejected by TraceScoreAssign: %s (block %s, consumed %d events)" % (
                self.meta[cid].get("route", "?"), v["why"], r["id"], v["consumed"]), dict(self.meta[cid], rejected_block=r))
        njudged = 0
        for cid, (ns, nout) in self.real_n.items():
            if cid in rejected:
                continue
            s = sums.get(cid)
            njudged += 1
            if s is None or len(s) != len(ns) or any(not (a <= b <= a + nout) for a, b in zip(s, ns)):
                chk.violation("%s: returned counts %s differ from the specification's counts %s (+ at most %d peaks not ranked)" % (
                    self.meta[cid].get("route", "?"), ns, s, nout), self.meta[cid])
        chk.notes["block_traces"] = len(self.recs)
        chk.notes["runs_with_returned_counts_judged"] = njudged
        chk.notes["mode_C_routes"] = dict(sorted(self.count.items()))
        return verdicts


def validate(chk, recs, tag):
    """run TraceScoreAssign on recs; returns verdicts, per-run sums of the model's counts, first rejected block per run"""
    path = os.path.join(common.scratch(), "trace_sa_%s.ndjson" % tag)
    with open(path, "w") as f:
        for r in recs:
            f.write(json.dumps(r) + "\n")
    cfg = common.write_cfg(os.path.join(common.scratch(), "tracesa.cfg"))
    res = common.run_tlc("TraceScoreAssign", cfg, workers=1, timeout=3000, env_extra={"TRACE_FILE": path}, heap="10g",
                         cwd=common.SPECS)
    chk.add_tlc("TraceScoreAssign %s (%d block traces)" % (tag, len(recs)), res)
    verdicts = {}
    for line in res.printed:
        v = json.loads(line)
        verdicts[v["id"]] = v
    if len(verdicts) != len(recs):
        raise common.MachineryError("TraceScoreAssign: %d verdicts for %d traces\n%s" % (len(verdicts), len(recs), res.stdout[-1500:]))
    sums = {}
    rejected = {}
    for r in recs:
        v = verdicts[r["id"]]
        cid = r["id"].rsplit("/", 1)[0]
        if not v["ok"]:
            rejected.setdefault(cid, (r, v))
        ncall = sum(1 for e in r["ev"] if e["kind"] == "call")
        s = sums.setdefault(cid, [0] * ncall)
        for i, x in enumerate(v.get("ns", [])):
            s[i] += x
    return verdicts, sums, rejected


def mode_c(chk, mods, tier, rng, extra=()):
    mc = ModeC(chk, mods)
    ncase = 60 if tier == "quick" else 400
    tried = done = 0
    lays = L.combos()
    lay0 = int(rng.integers(0, len(lays)))
    while done < ncase and tried < ncase * 5:
        tried += 1
        bigcase = (done % 20 == 19)
        G = int(rng.integers(1, 9)) if not bigcase else int(rng.integers(10, 51 if tier == "thorough" else 21))
        K = int(rng.integers(10, 200)) if not bigcase else (2 * L.CHUNK + 8 if tier == "quick" else int(rng.choice([2 * L.CHUNK + 8, 20000, 100000])))
        ubis, gv, tol = L.make_case(rng, G, K, big=bigcase)
        order = [int(x) for x in rng.permutation(G) + 1]
        # the layouts rotate through Combos (mode A drives every one of them on the exact tables)
        if mc.raw_case("c%d" % tried, ubis, gv, tol, order, rng, bigcase, tier, lay=lays[(lay0 + 37 * tried) % len(lays)]):
            done += 1
        if len(chk.violations) > 10:
            break
    # a list of 50 UBIs (the upper end of the quantifier) on a small peak list, and a single UBI on a large one
    ubis, gv, tol = L.make_case(rng, 50, 150, big=True)
    mc.raw_case("cfifty", ubis, gv, tol, [int(x) for x in rng.permutation(50) + 1], rng, True, tier, lay=("F", "F", "from_colfile_and_ucell", "direct"))
    ubis, gv, tol = L.make_case(rng, 1, L.CHUNK + 5, big=True)
    mc.raw_case("cone", ubis, gv, tol, [1], rng, False, tier, lay=("cols2", "C", "from_colfile", "rings"))
    # non-finite g-vectors (NaN / +inf / -inf in one or all components of seeded rows, a whole NaN column) through every
    # route of raw_case, under rotating floating layouts; the finite rows are judged as in every other case
    flays = L.float_combos()
    nnf = 10 if tier == "quick" else 60
    for i in range(nnf + 2):
        bigcase = (i == nnf)
        G = int(rng.integers(1, 9)) if not bigcase else int(rng.integers(10, 21))
        K = int(rng.integers(10, 200)) if not bigcase else 2 * L.CHUNK + 8
        ubis, gv, tol = L.make_case(rng, G, K, big=bigcase)
        gv, _ = L.inject_nonfinite(rng, gv, column=(int(rng.integers(0, 3)) if i == nnf + 1 else None))
        lay = flays[(lay0 + 37 * i) % len(flays)] if i % 3 else ("F", "C", "from_colfile", "direct")     # what the notebooks do
        mc.raw_case("nf%d" % i, ubis, gv, tol, [int(x) for x in rng.permutation(G) + 1], rng, bigcase, tier, lay=lay)
        if len(chk.violations) > 10:
            break
    # refinegrains.assignlabels: per-grain g-vectors
    plan = [("shared", 3, "F", 0.05), ("shared", 4, "F", 0.1), ("shared", 5, "F", 0.02), ("same", 3, "F", 0.05), ("distinct", 4, "F", 0.05)]
    if tier == "thorough":
        plan = plan * 6
    kpar0 = int(rng.integers(0, 64))
    glay0 = int(rng.integers(0, 8))
    for i, (fam, G, lat, tol) in enumerate(plan):
        case = L.make_geo_case(rng, mods, kpar0 + 7 * i, G, fam, lattice=lat)
        orders = [list(range(G)), [int(x) for x in rng.permutation(G)], list(range(G))[::-1]]
        mc.geo_case("g%d" % i, case, tol, orders, (1,), rng, files=((True,) if i % 5 == 0 else (False,) if i % 5 == 3 else None), twice=(i % 5 == 1),
                    lay0=glay0 + 3 * i)
        if len(chk.violations) > 10:
            break
    case = L.make_geo_case(rng, mods, kpar0 + 3, 14, "shared", lattice="P", nstray=400)          # > 4096 peaks: two OpenMP chunks
    mc.geo_case("gbig", case, 0.05, [list(range(14)), [int(x) for x in rng.permutation(14)]], (1, 4, 16), rng, ntrace=1, lay0=glay0 + 1)
    mc.hit("assignlabels_big_case_peaks", len(case["sc"]))
    # non-finite detector positions / omega (a "nan" in a peak file, a failed spatial correction): compute_gv hands the kernel
    # non-finite g-vectors for every grain; in memory (3 orders, 1 and 4 threads, second call) and through files
    for i, (fam, G) in enumerate((("shared", 4), ("distinct", 3)) if tier == "quick" else (("shared", 4), ("distinct", 3), ("same", 3), ("shared", 5))):
        case = L.make_geo_case(rng, mods, kpar0 + 11 + i, G, fam, lattice="F")
        n = len(case["sc"])
        rows = rng.choice(n, size=max(6, n // 12), replace=False)
        for j, k in enumerate(rows):
            case[("sc", "fc", "omega")[j % 3]][k] = (np.nan, np.inf, -np.inf)[(j // 3 + i) % 3]
        if i % 2:
            case["sc"][rows] = np.nan
        orders = [list(range(G)), [int(x) for x in rng.permutation(G)], list(range(G))[::-1]]
        mc.geo_case("gnf%d" % i, case, 0.05, orders, (1, 4), rng, files=((True,) if i % 2 == 0 else (False,)), twice=(i % 2 == 1), lay0=glay0 + i)
        mc.hit("assignlabels_non_finite_cases")
        mc.hit("assignlabels_non_finite_peaks", int((~L.finite_rows(np.array((case["sc"], case["fc"], case["omega"])).T)).sum()))
    mc.verdicts = mc.validate(extra=extra)
    return mc


def observe_rings_nonfinite(chk, mods):
    """indexer.assigntorings() on a peak list with a NaN g-vector: it raises (no assignment is produced: outside the
    statement; why configuration nf and the non-finite family use prep = direct), recorded as an observation"""
    try:
        with L.quiet():
            uc = mods["unitcell"].unitcell([4.0, 4.0, 4.0, 90, 90, 90], "P")
            gv = np.array([[0.25, 0, 0], [0, 0.5, 0], [np.nan, 0.25, 0], [0.25, 0.25, 0]])
            ind = mods["indexing"].indexer(unitcell=uc, gv=gv, hkl_tol=0.05, wavelength=0.3)
            ind.ds_tol = 0.01
            try:
                ind.assigntorings()
                out = "returns"
            except Exception as e:
                out = "raises %s: %s" % (type(e).__name__, str(e)[:100])
    except Exception as e:                                       # an observation must never decide the verdict
        out = "probe failed: %r" % (e,)
    chk.notes.setdefault("observations", []).append("indexer.assigntorings() with a NaN g-vector among the peaks: %s" % out)


def observe_getind_default(chk, mods, rng):
    """indexer.getind with its default buffers after assigntorings() left peaks without a ring: outside the statement
    (no assignment is produced at all), recorded as an observation"""
    with L.quiet():
        uc = mods["unitcell"].unitcell([4.0, 4.0, 4.0, 90, 90, 90], "P")
        hkl = rng.integers(-4, 5, size=(50, 3)).astype(float)
        gv = np.concatenate([hkl / 4.0, rng.normal(size=(10, 3)) * 0.5])
        ind = mods["indexing"].indexer(unitcell=uc, gv=gv, hkl_tol=0.05, wavelength=0.3)
        ind.ds_tol = 0.01
        try:
            ind.assigntorings()
            nring = int((ind.ra > -1).sum())
            try:
                ind.getind(np.eye(3) * 4.0)
                out = "returns a mask"
            except ValueError as e:
                out = "raises ValueError (buffers sized len(gvflat)=%d, kernel given the %d peaks of .gv)" % (len(ind.gvflat), len(ind.gv))
            m = ind.getind(np.eye(3) * 4.0, drlv2tmp=np.empty(len(ind.gv)), labelstmp=np.empty(len(ind.gv), np.int32))
            out += "; with supplied buffers (the only call in the code base, scorethem) it returns a mask of %d peaks" % int(np.sum(m))
        except Exception as e:                                   # an observation must never decide the verdict
            out, nring = "probe failed: %r" % (e,), -1
    chk.notes.setdefault("observations", []).append(
        "indexer.getind(UBI) with default work buffers when %d of %d peaks are on a ring: %s" % (nring, len(gv), out))


def run(tier, replay=None):
    chk = common.Check(PROP, tier)
    shadow = common.build_shadow("normal")
    common.use_shadow(shadow)
    mods = load_mods()
    chk.rule = ("mode A: every behaviour of ScoreAssign.tla (q: 3 grains x 2 peaks x 4 levels x 6 orders; hist: all histories of <= 3 calls "
                "over 2 labels x 3 UBI versions from every initial label (-1, foreign, either grain's) and stored error) realised with exact dyadic g-vectors, packed per presentation sequence and tiled to %d peaks "
                "(6 chunks), threads 1/2/3/5/8/16/32, one- and zero-based labels, two initial error values, plus fight_over_peaks / "
                "assign_peaks_to_grains / getind / prepare_peaks_from_2d on the behaviours they can produce; ScoreAssignLayout.tla lay: every "
                "history of <= 2 calls over 2 grains x 4 label buffer contents x 108 memory layout combinations (12 g-vector layouts x 5 indexer "
                "builds x direct / assigntorings, 6 UBI layouts) realised as numpy arrays with that address map / item type on every route; "
                "nf: the same histories with the peak's g-vector NON-FINITE (NaN / +inf / -inf in one or all components: 5 kinds x 16 tables x 23 "
                "floating layout combinations): indexed by no grain on every route; "
                "mode C: every case under one of those combinations (rotating) incl. saveindexing; a family with seeded non-finite rows "
                "(every chunk edge, a NaN column; NaN / inf detector columns for assignlabels) through every route; seeded runs with 1..50 "
                "UBIs (twins, overlapping lattices), 10..1e5 peaks, tolerances 0.02..0.5, random grain orders through every route "
                "(see notes mode_C_routes), refinegrains.assignlabels on simulated detector peaks with shared / equal / distinct grain "
                "positions; recorded and validated by TLC in blocks of 256 peaks; non-trivial = a peak is within tolerance of >= 2 "
                "grains; distinct = distinct behaviour or (case, order)" % TOTAL)
    chk.assumptions = ["ranks of binary64 reference errors are only formed when distinct values differ by > 1e-6 relative and are "
                       "1e-6 away from tol^2 (other peaks are left out of the trace, their number bounds the returned counts); exact "
                       "ties are produced only from exact dyadic tables and bit-identical UBIs",
                       "real OpenMP interleavings are not observable: identical results at every thread count are required",
                       "inside a caller only the final buffers are observable: the intermediate calls are the model's steps",
                       "per-grain g-vectors of the assignlabels route: c09_sim.forward (numpy, written from the formulas; agrees with "
                       "cImageD11.compute_gv to 1e-15, C01's subject); peaks are generated with ImageD11.transform's inverse (inputs only)",
                       "a stored error of an unassigned peak is only required to be >= tol^2 on the caller routes (1 or 2 today)",
                       "memory layouts: the g-vector / UBI / column arrays handed over are laid out as named (numpy views, item types); the "
                       "work buffers labels / drlv2, which f2py only accepts contiguous and of the exact item type (it raises otherwise), are "
                       "always plain; the expectation is that of the array's logical binary64 values (numpy conversion)"]
    if replay:
        return run_replay(chk, mods, replay)
    rng = np.random.default_rng(common.seed())
    names = ("q", "hist", "lay", "ravelK", "nf") if tier == "quick" else ("q", "hist_t", "dirty_t", "lay", "ravelK", "nf")
    out = {}
    common.scratch()
    th = [threading.Thread(target=tlc_tables, args=(n, tier, out)) for n in names if n != "nf"]
    th.append(threading.Thread(target=tlc_tables, args=("nf", tier, out, th[names.index("lay")])))      # nf starts when lay has ended
    for t in th:
        t.start()
    try:
        # the recorded runs are made (and validated, together with the self-test records) while TLC enumerates the tables
        mc = mode_c(chk, mods, tier, rng, extra=selftest_records(mods))
        selftest_verdicts(mc.verdicts)
        observe_getind_default(chk, mods, rng)
        observe_rings_nonfinite(chk, mods)
    finally:
        for t in th:
            t.join()
    for n in names:
        if isinstance(out.get(n), Exception):
            raise out[n]
        if len(chk.violations) <= 10:
            mode_a(chk, mods, n, out[n], tier)
    chk.exhaustive = False
    if mc.meta:
        k0 = sorted(mc.meta)[0]
        chk.sample({"trace_case": {k: mc.meta[k0][k] for k in ("G", "K", "tol", "order", "route") if k in mc.meta[k0]}})
    selftest_tables(mods, chk)
    return chk.finish()


def run_replay(chk, mods, path):
    obj = json.load(open(path))
    case = obj["case"]
    chk.exhaustive = False
    if "table" in case:
        for what, t in replay_table(chk, mods, case):
            chk.violation(what, dict(case, table=t))
        chk.case((json.dumps(case["table"]["err"]),))
        chk.traces += 1
        chk.sample(case["table"])
        return chk.finish()
    if "ubis" in case and case.get("gv") != "omitted (seeded)":
        mc = ModeC(chk, mods)
        ubis = [np.array(u) for u in case["ubis"]]
        gv = np.ascontiguousarray(np.array(case["gv"]))
        mc.raw_case("r", ubis, gv, case["tol"], [int(x) for x in case["order"]], np.random.default_rng(case.get("seed", 0)), False, "thorough",
                    lay=tuple(case.get("lay", L.PLAIN)))
        mc.validate("replay")
        chk.sample({"replayed": path})
        return chk.finish()
    # seeded big / geometry case: rerun the tier with the recorded seed
    os.environ["VERIF_SEED"] = str(case.get("seed", 0))
    return run(chk.tier)


def selftest_records(mods=None):
    """a hand-made correct trace over a zero filled buffer (2 grains, 3 peaks; no code under test involved) and two
    corruptions of it: an assignment dropped from the last state, and a peak indexed by no grain that keeps the zero"""
    ev = lambda row, n, labels, dr: {"kind": "call", "row": row, "n": n, "obs": 1, "labels": labels, "dr": dr}
    good = {"id": "selftest/0", "G": 2, "R": 2, "K": 3, "E": 3, "rowlabel": [1, 2], "err": [[0, 3, 1], [1, 3, 0]], "lab0": [1, 1, 1],
            "ev": [ev(1, 2, [1, -1, 1], [0, 3, 1]), ev(2, 1, [1, -1, 2], [0, 3, 0])], "hist": [1, 1]}
    bad = json.loads(json.dumps(good))
    bad["id"] = "selftest/bad"
    bad["ev"][-1]["labels"][0] = -1
    kept = json.loads(json.dumps(good))
    kept["id"] = "selftest/kept"
    for e in kept["ev"]:
        e["labels"][1] = 1
    return [good, bad, kept]


def selftest_verdicts(verdicts):
    if not verdicts["selftest/0"]["ok"] or verdicts["selftest/bad"]["ok"] or verdicts["selftest/kept"]["ok"]:
        raise common.MachineryError("selftest: trace spec verdicts wrong: %s" % {k: v for k, v in verdicts.items() if k.startswith("selftest")})


def selftest_tables(mods, chk=None):
    """needs a correct kernel: skipped when the run has already recorded violations"""
    if chk is not None and chk.violations:
        return
    c = mods["c"]
    t = {"err": [[0, 3], [1, 3], [3, 3]], "order": [1, 2, 3], "lab0": [1, 1], "dr0": [3, 3], "labels": [1, -1], "drlv2": [0, 3], "rets": [1, 0, 0],
         "snaps": [{"labels": [1, -1], "drlv2": [0, 3]}] * 3, "noties": 1, "pass": 1}
    pk = L.Packed([t], 3)
    if pk.run_raw(c, (1, 3), TOTAL) or pk.run_nb(c, mods, (1,), 40):
        raise common.MachineryError("selftest: correct table rejected")
    if not pk.run_raw(c, (1,), TOTAL, perturb=True):
        raise common.MachineryError("selftest: perturbed table accepted")
    colmajor = ("F", "C", "indexer", "direct")
    if pk.run_raw(c, (1,), TOTAL, lay=colmajor) or pk.run_fight(c, mods, (1,), 47, lay=("i32F", "C", "from_colfile", "rings")):
        raise common.MachineryError("selftest: correct table rejected under a column major layout")
    if not pk.run_raw(c, (1,), TOTAL, lay=colmajor, scramble=True) or pk.run_raw(c, (1,), TOTAL, scramble=True):
        raise common.MachineryError("selftest: a column major array flattened in memory order accepted (or a C ordered one rejected)")
    # a non-finite peak whose finite components score 0 for grain 1: unassigned is accepted on the real kernel; the same record
    # over the FINITE peak (the kernel takes it) is rejected: a peak taken although the model says unassigned is seen
    tn = {"err": [[0], [3]], "order": [1, 2], "lab0": [-1], "dr0": [3], "labels": [-1], "drlv2": [3], "rets": [0, 0],
          "snaps": [{"labels": [-1], "drlv2": [3]}] * 2, "noties": 1, "pass": 1, "nf": ["nan_one"]}
    if L.Packed([tn], 2).run_raw(c, (1, 3), TOTAL) or L.Packed([tn], 2).run_fight(c, mods, (3,), 47):
        raise common.MachineryError("selftest: non-finite peak left unassigned rejected")
    if not L.Packed([dict(tn, nf=["fin"])], 2).run_raw(c, (1,), 40):
        raise common.MachineryError("selftest: a peak taken against the model's 'unassigned' accepted")
    if L.Ranked(np.array([[np.nan, 0.001]]), 0.01, [[True]]).dr_rank(np.array([np.nan, np.nan]), init=1.0, floor=0.01).tolist() != [-2, -2]:
        raise common.MachineryError("selftest: a NaN stored error is given a rank")
    t2 = json.loads(json.dumps(t))
    t2["labels"] = [1, 1]
    t2["snaps"] = [{"labels": [1, 1], "drlv2": [0, 3]}] * 3          # what a kernel without the release branch would leave
    if not L.Packed([t2], 3).run_raw(c, (1,), 40):
        raise common.MachineryError("selftest: table without the release accepted")


def selftest(mods=None, chk=None):
    """a corrupted recorded field must be rejected by the trace specification; a perturbed snapshot by mode A; a label left in
    place of a release by both; a column major array handed over flattened in memory order by mode A"""
    if mods is None:
        common.use_shadow(common.build_shadow("normal"))
        mods = load_mods()
    tmp = common.Check(PROP, "quick")
    verdicts, sums, rejected = validate(tmp, selftest_records(mods), "selftest")
    common.ACTIVE_CHECKS.remove(tmp)
    selftest_verdicts(verdicts)
    selftest_tables(mods)

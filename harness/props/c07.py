"""C07 - every peak is assigned to its best-fitting grain, whatever the order or threads.

specs: ScoreAssign.tla (all error tables 3 grains x 2 peaks x 4 levels, all orders, all chunk schedules),
       TraceScoreAssign.tla (trace validation of recorded real runs).
Mode A: every TLC table is realised with exactly representable UBIs / g-vectors, tiled across the 4096 OpenMP
        chunk size, and run through raw score_and_assign calls and indexer.fight_over_peaks at several thread
        counts: labels, stored errors, returned counts and histogram must equal the model's final state.
Mode C: seeded realistic runs (random / twinned / duplicated UBIs, noisy peaks, strays) are recorded call by call
        (ranks of the reference errors, labels and rank of stored error after every real call) and validated by TLC;
        large runs are split into blocks of 64 peaks (peaks are independent) and the model's per-block counts summed.
"""
import os, sys, json, io, contextlib, time, itertools
import numpy as np
import common

PROP = "C07"
TOL = 8.0 / 64.0
LEVEL = {0: 1.0 / 64, 1: 2.0 / 64, 2: 3.0 / 64, 3: 20.0 / 64}      # level 3 = E : outside tolerance
BLOCK = 64


def table_ubis(G):
    """UBI_g = 64 I except 1 at (g,g): err_g(gv) = frac(gv[g])^2 when the other components are multiples of 1/64"""
    out = []
    for g in range(G):
        u = np.eye(3) * 64.0
        u[g, g] = 1.0
        out.append(u)
    return out


def realise(err, reps):
    """g-vectors for an error table err[g][k] (levels 0..3), each peak tiled reps times, interleaved"""
    G = len(err)
    K = len(err[0])
    gv1 = np.zeros((K, 3))
    for k in range(K):
        for g in range(3):
            lev = err[g][k] if g < G else 3
            gv1[k, g] = (3 + k + g) + LEVEL[lev]
    return np.ascontiguousarray(np.tile(gv1, (reps, 1)))


def run_table(case, c, indexing, reps, threads, perturb=False):
    err = [case["err"][g] for g in range(len(case["err"]))]
    G, K = len(err), len(err[0])
    order = case["order"]
    ubis = table_ubis(3)
    gv = realise(err, reps)
    ng = len(gv)
    probs = []
    exp_lab = np.tile(np.array(case["labels"], np.int32), reps)
    exp_dr = np.tile(np.array([LEVEL[d] ** 2 if d < 3 else -1.0 for d in case["drlv2"]]), reps)
    if perturb:
        exp_lab = exp_lab.copy()
        exp_lab[0] = 2 if exp_lab[0] != 2 else 1
    old = c.cimaged11_omp_get_max_threads()
    try:
        for nt in threads:
            c.cimaged11_omp_set_num_threads(nt)
            for init in (1.0, 2.0):
                labels = np.full(ng, -1, np.int32)
                drlv2 = np.full(ng, init)
                rets = []
                for g in order:
                    rets.append(c.score_and_assign(ubis[g - 1], gv, TOL, drlv2, labels, g))
                if rets != [r * reps for r in case["rets"]]:
                    probs.append("score_and_assign (threads=%d): returned counts %s, specification %s" % (nt, rets, [r * reps for r in case["rets"]]))
                if not np.array_equal(labels, exp_lab):
                    bad = np.nonzero(labels != exp_lab)[0][:5]
                    probs.append("score_and_assign (threads=%d): labels differ from specification at peaks %s: %s vs %s" % (
                        nt, bad.tolist(), labels[bad].tolist(), exp_lab[bad].tolist()))
                want = np.where(exp_dr < 0, init, exp_dr)
                if not np.array_equal(drlv2, want):
                    probs.append("score_and_assign (threads=%d): stored errors differ from specification" % nt)
            # indexer.fight_over_peaks: ubis in presentation order, labels are positions 0..G-1
            with contextlib.redirect_stdout(io.StringIO()):
                ind = indexing.indexer(gv=gv, hkl_tol=TOL)
            ind.ubis = [ubis[g - 1] for g in order]
            ind.fight_over_peaks()
            pos = {g: i for i, g in enumerate(order)}
            want_ga = np.array([pos[l] if l > 0 else -1 for l in exp_lab], np.int32)
            if not np.array_equal(ind.ga, want_ga):
                probs.append("indexer.fight_over_peaks (threads=%d): ga differs from specification" % nt)
            hist = [int((want_ga == i).sum()) for i in range(G)]
            if list(ind.gas) != hist:
                probs.append("indexer.fight_over_peaks (threads=%d): gas %s is not the histogram of the labels %s" % (nt, list(ind.gas), hist))
    finally:
        c.cimaged11_omp_set_num_threads(old)
    return probs


# ---------------------------------------------------------------------------------------------
# mode C: realistic recorded runs

def random_rotation(rng):
    q = rng.normal(size=4)
    q /= np.linalg.norm(q)
    a, b, cc, d = q
    return np.array([[a * a + b * b - cc * cc - d * d, 2 * (b * cc - a * d), 2 * (b * d + a * cc)],
                     [2 * (b * cc + a * d), a * a - b * b + cc * cc - d * d, 2 * (cc * d - a * b)],
                     [2 * (b * d - a * cc), 2 * (cc * d + a * b), a * a - b * b - cc * cc + d * d]])


def make_case(rng, G, K, big=False, simple=False):
    a = 3.0 + rng.random() * 3
    B0i = np.diag([a, a * (1 + 0.2 * rng.random()), a * (1 + 0.4 * rng.random())])
    ubis = []
    for g in range(G):
        kind = rng.integers(0, 4) if not simple else 3
        if g > 0 and kind == 0:          # twin-like: small rotation of an earlier grain
            ang = rng.random() * 0.02
            R = np.array([[np.cos(ang), -np.sin(ang), 0], [np.sin(ang), np.cos(ang), 0], [0, 0, 1]])
            ubis.append(ubis[rng.integers(0, g)] @ R.T)
        elif g > 0 and kind == 1:        # overlapping lattice: 90 degree permutation of an earlier grain
            P = np.array([[0, 1, 0], [-1, 0, 0], [0, 0, 1]], float)
            ubis.append(P @ ubis[rng.integers(0, g)])
        else:
            ubis.append(B0i @ random_rotation(rng).T)
    gv = []
    for k in range(K):
        if rng.random() < 0.15:
            gv.append(rng.normal(size=3) * 0.5)            # stray
        else:
            g = rng.integers(0, G)
            h = rng.integers(-4, 5, size=3).astype(float)
            noise = rng.normal(size=3) * [0.0, 0.01, 0.05, 0.15][rng.integers(0, 4)]
            gv.append(np.linalg.inv(ubis[g]) @ (h + noise))
    tol = [0.5, 0.25, 0.1, 0.05, 0.02][rng.integers(0, 5)] if not big else 0.1
    return ubis, np.ascontiguousarray(np.array(gv)), tol


def clearly_distinct(a, b):
    return abs(a - b) > 1e-6 * max(a, b) + 1e-15


def same_value(a, b):
    return abs(a - b) <= 1e-9 * max(a, b) + 1e-20


def peak_ranks(ubis, errs, tol2):
    """per-peak dense ranks of the reference errors among the grains that index the peak (E = G + 1 otherwise).
    A peak is *kept* only if binary64 cannot blur the order: every reference error is clearly away from tol^2, and
    any two in-tolerance errors are clearly distinct, or belong to bit-identical UBIs (a true tie in the kernel too).
    returns (rank[G][K], keep[K], E)"""
    G, K = errs.shape
    E = G + 1
    rank = np.full((G, K), E, int)
    keep = np.ones(K, bool)
    ident = [[np.array_equal(ubis[g], ubis[h]) for h in range(G)] for g in range(G)]
    for k in range(K):
        v = errs[:, k]
        if (np.abs(v - tol2) < 1e-6 * tol2).any():
            keep[k] = False
            continue
        ins = [g for g in range(G) if v[g] < tol2]
        ok = True
        for i, g in enumerate(ins):
            for h in ins[i + 1:]:
                if not ident[g][h] and not clearly_distinct(v[g], v[h]):
                    ok = False
        if not ok:
            keep[k] = False
            continue
        order = sorted(ins, key=lambda g: v[g])
        r = -1
        prev = None
        for g in order:
            if prev is None or not ident[prev][g]:
                r += 1
            rank[g, k] = r
            prev = g
    return rank, keep, E


def record(c, indexing, ubis, gv, tol, order, nt, init=1.0):
    labels = np.full(len(gv), -1, np.int32)
    drlv2 = np.full(len(gv), init)
    ev = []
    old = c.cimaged11_omp_get_max_threads()
    try:
        c.cimaged11_omp_set_num_threads(nt)
        for g in order:
            n = c.score_and_assign(ubis[g - 1], gv, tol, drlv2, labels, g)
            ev.append((g, int(n), labels.copy(), drlv2.copy()))
    finally:
        c.cimaged11_omp_set_num_threads(old)
    return ev


def traces_for(case_id, ubis, gv, tol, order, ev, indexing, init=1.0):
    """ndjson records (blocks of BLOCK kept peaks) for one recorded run; returns (records, all_kept)"""
    G, K = len(ubis), len(gv)
    errs = np.array([indexing.calc_drlv2(u, gv) for u in ubis])
    rank, keep, E = peak_ranks(ubis, errs, tol * tol)
    kept = np.nonzero(keep)[0]
    recs = []
    for b0 in range(0, len(kept), BLOCK):
        idx = kept[b0:b0 + BLOCK]
        evs = []
        for (g, n, lab, dr) in ev:
            r = []
            for k in idx:
                d = dr[k]
                if d == init:
                    r.append(E)
                    continue
                # the stored value must be the (kernel's) error of some in-tolerance grain of this peak
                cand = [h for h in range(G) if rank[h, k] < E and same_value(errs[h, k], d)]
                r.append(int(rank[cand[0], k]) if cand else -2)
            evs.append({"g": int(g), "n": -1, "labels": lab[idx].tolist(), "dr": r})
        hist = [int((ev[-1][2][idx] == g).sum()) for g in range(1, G + 1)]
        recs.append({"id": "%s/%d" % (case_id, b0 // BLOCK), "G": G, "K": len(idx), "E": E,
                     "err": [rank[g, idx].tolist() for g in range(G)], "ev": evs, "hist": hist})
    return recs, bool(keep.all())


def validate(chk, recs, expect_n, tag):
    """run TraceScoreAssign on recs; expect_n: case_id -> list of real returned counts per event"""
    path = os.path.join(common.scratch(), "trace_sa_%s.ndjson" % tag)
    with open(path, "w") as f:
        for r in recs:
            f.write(json.dumps(r) + "\n")
    cfg = common.write_cfg(os.path.join(common.scratch(), "tracesa.cfg"))
    res = common.run_tlc("TraceScoreAssign", cfg, workers=1, timeout=3000, env_extra={"TRACE_FILE": path}, heap="10g",
                         cwd=common.SPECS)
    chk.add_tlc("TraceScoreAssign %s (%d block traces)" % (tag, len(recs)), res)
    verdicts = {}
    for line in res.printed:
        v = json.loads(line)
        verdicts[v["id"]] = v
    if len(verdicts) != len(recs):
        raise common.MachineryError("TraceScoreAssign: %d verdicts for %d traces\n%s" % (len(verdicts), len(recs), res.stdout[-1500:]))
    sums = {}
    rejected = {}
    for r in recs:
        v = verdicts[r["id"]]
        cid = r["id"].rsplit("/", 1)[0]
        if not v["ok"]:
            rejected.setdefault(cid, (r, v))
        s = sums.setdefault(cid, [0] * len(r["ev"]))
        for i, x in enumerate(v.get("ns", [])):
            s[i] += x
    return verdicts, sums, rejected


def run(tier, replay=None):
    chk = common.Check(PROP, tier)
    shadow = common.build_shadow("normal")
    common.use_shadow(shadow)
    from ImageD11 import cImageD11 as c, indexing
    chk.rule = ("mode A: every error table of ScoreAssign.tla (3 grains x 2 peaks x 4 levels, 6 orders) realised with exact "
                "dyadic g-vectors, tiled across the 4096 chunk size, threads 1/2/4/16, two initial error values; mode C: seeded "
                "runs with 1..50 UBIs (twins, overlapping lattices), 10..1e5 peaks, tolerances 0.02..0.5, random grain orders, "
                "threads 1..32, recorded call by call and validated by TLC in blocks of 64 peaks; non-trivial = a peak is "
                "within tolerance of >= 2 grains; distinct = distinct table/order or (case, order, threads)")
    chk.assumptions = ["ranks of binary64 reference errors are only formed when distinct values differ by > 1e-9 relative "
                       "(otherwise the case is regenerated); exact ties are produced only from exact dyadic tables",
                       "real OpenMP interleavings are not observable: identical logs at every thread count are required",
                       "refinegrains.assignlabels (per-grain recomputed g-vectors) is covered by C09's protocol check"]
    if replay:
        return run_replay(chk, c, indexing, replay)

    # ---- mode A
    res = common.run_tlc("ScoreAssign", os.path.join(common.SPECS, "ScoreAssign_q.cfg"), workers=16, timeout=1800,
                         coverage=(tier == "thorough"))
    chk.add_tlc("ScoreAssign G=3 K=2 E=3 all tables, orders, chunk schedules", res,
                require_cover=(("Call", "Chunk", "Return") if res.coverage else ()))
    if res.violated:
        raise common.MachineryError("ScoreAssign model violates %s" % res.violated)
    tables = []
    for line in res.printed:
        t = json.loads(line)
        tables.append(t)
    if len(tables) != 4096 * 6:
        raise common.MachineryError("expected 24576 finished tables, got %d" % len(tables))
    rng = np.random.default_rng(common.seed())
    ntie = 0
    for idx, t in enumerate(tables):
        err = t["err"]
        multi = any(sum(1 for g in range(3) if err[g][k] < 3) >= 2 for k in range(2))
        big = rng.random() < (0.004 if tier == "quick" else 0.03)
        if tier == "quick" and not big and rng.random() > 0.25:
            continue
        reps = 2049 if big else 1          # 2 peaks x 2049 = 4098 > chunk
        threads = [1, 2, 4, 16] if big else [1, 4]
        probs = run_table(t, c, indexing, reps, threads)
        chk.case((json.dumps(err), tuple(t["order"]), reps), nontrivial=multi)
        chk.traces += 1
        ntie += 0 if t["noties"] else 1
        if idx in (100, 9999):
            chk.sample(t)
        for p in probs:
            chk.violation(p, {"table": t, "reps": reps, "threads": threads})
        if len(chk.violations) > 10:
            break
    chk.notes["tables_with_exact_ties"] = ntie

    # ---- mode C
    ncase = 60 if tier == "quick" else 400
    recs = []
    real_n = {}
    meta = {}
    tried = 0
    done = 0
    while done < ncase and tried < ncase * 5:
        tried += 1
        bigcase = (done % 20 == 19)
        G = int(rng.integers(1, 9)) if not bigcase else int(rng.integers(10, 51 if tier == "thorough" else 21))
        K = int(rng.integers(10, 200)) if not bigcase else (8200 if tier == "quick" else int(rng.choice([8200, 20000, 100000])))
        ubis, gv, tol = make_case(rng, G, K, big=bigcase)
        order = [int(x) for x in rng.permutation(G) + 1]
        logs = None
        same = True
        tlist = [1, 2, 3, 4, 8, 16, 32] if not bigcase else [1, 4, 16]
        for nt in tlist:
            ev = record(c, indexing, ubis, gv, tol, order, nt)
            key = [(g, n, lab.tobytes(), dr.tobytes()) for (g, n, lab, dr) in ev]
            if logs is None:
                logs = (ev, key)
            elif key != logs[1]:
                same = False
                chk.violation("score_and_assign log with %d threads differs from the 1-thread log (G=%d K=%d tol=%g)" % (nt, G, K, tol),
                              {"seed": common.seed(), "case_index": tried, "G": G, "K": K, "tol": tol, "threads": nt})
        cid = "c%d" % tried
        rr, allkept = traces_for(cid, ubis, gv, tol, order, logs[0], indexing)
        if not rr:
            continue
        done += 1
        recs += rr
        if allkept:
            real_n[cid] = [n for (_, n, _, _) in logs[0]]
        meta[cid] = {"G": G, "K": K, "tol": tol, "order": order, "ubis": [u.tolist() for u in ubis],
                     "gv": gv.tolist() if K <= 300 else "omitted (seeded)", "seed": common.seed(), "case_index": tried}
        errs = np.array([indexing.calc_drlv2(u, gv) for u in ubis])
        multi = ((errs < tol * tol).sum(axis=0) >= 2).any()
        chk.case((cid,), nontrivial=bool(multi))
        # a second pass in another order: tie-free cases must end with the same labels (order independence)
        order2 = list(reversed(order))
        ev2 = record(c, indexing, ubis, gv, tol, order2, 4)
        rank, keep, E = peak_ranks(ubis, errs, tol * tol)
        tf = np.array([keep[k] and ((rank[:, k] == rank[:, k].min()).sum() == 1 or rank[:, k].min() >= E) for k in range(K)])
        if not np.array_equal(ev2[-1][2][tf], logs[0][-1][2][tf]):
            chk.violation("final labels depend on the order in which grains are presented (no exact ties; G=%d K=%d)" % (G, K), meta[cid])
    verdicts, sums, rejected = validate(chk, recs, real_n, "modeC")
    for cid, (r, v) in rejected.items():
        chk.violation("trace rejected by TraceScoreAssign: %s (block %s, consumed %d events)" % (v["why"], r["id"], v["consumed"]),
                      dict(meta[cid], rejected_block=r))
    chk.traces += len(meta)
    for cid, ns in real_n.items():
        if cid in rejected:
            continue
        if sums.get(cid) != ns:
            chk.violation("returned counts %s differ from the specification's counts %s" % (ns, sums.get(cid)), meta[cid])
    if meta:
        k0 = sorted(meta)[0]
        chk.sample({"trace_case": {k: meta[k0][k] for k in ("G", "K", "tol", "order")}})
    chk.exhaustive = False
    chk.notes["block_traces"] = len(recs)
    selftest(c, indexing, chk=chk)
    return chk.finish()


def run_replay(chk, c, indexing, path):
    obj = json.load(open(path))
    case = obj["case"]
    chk.exhaustive = False
    if "table" in case:
        for p in run_table(case["table"], c, indexing, case.get("reps", 1), case.get("threads", [1, 4])):
            chk.violation(p, case)
        chk.case((json.dumps(case["table"]["err"]),))
        chk.traces += 1
        chk.sample(case["table"])
        return chk.finish()
    if "ubis" in case and case.get("gv") != "omitted (seeded)":
        ubis = [np.array(u) for u in case["ubis"]]
        gv = np.ascontiguousarray(np.array(case["gv"]))
        recs = []
        ns = {}
        for nt in (1, 2, 4, 16):
            ev = record(c, indexing, ubis, gv, case["tol"], case["order"], nt)
            rr, allkept = traces_for("r%d" % nt, ubis, gv, case["tol"], case["order"], ev, indexing)
            if rr:
                recs += rr
                if allkept:
                    ns["r%d" % nt] = [n for (_, n, _, _) in ev]
        verdicts, sums, rejected = validate(chk, recs, ns, "replay")
        for cid, (r, v) in rejected.items():
            chk.violation("trace rejected by TraceScoreAssign: %s" % v["why"], case)
        for cid, n in ns.items():
            chk.traces += 1
            chk.case((cid,))
            if cid not in rejected and sums.get(cid) != n:
                chk.violation("returned counts differ from the specification's", case)
        chk.sample({"replayed": path})
        return chk.finish()
    # seeded big case: rerun the whole mode C part with the recorded seed
    os.environ["VERIF_SEED"] = str(case.get("seed", 0))
    return run(chk.tier)


def selftest(c=None, indexing=None, chk=None):
    """a corrupted recorded field must be rejected by the trace specification; a perturbed table expectation by mode A"""
    rng = np.random.default_rng(5)
    for _ in range(50):
        ubis, gv, tol = make_case(rng, 3, 40, simple=True)
        ev = record(c, indexing, ubis, gv, 0.25, [1, 2, 3], 1)
        rr, _ = traces_for("s", ubis, gv, 0.25, [1, 2, 3], ev, indexing)
        if rr and any(l > 0 for l in rr[0]["ev"][-1]["labels"]):
            break
    else:
        raise common.MachineryError("selftest: could not build a trace")
    good = json.loads(json.dumps(rr[0]))
    bad = json.loads(json.dumps(rr[0]))
    bad["id"] = "s/bad"
    k = next(i for i, l in enumerate(bad["ev"][-1]["labels"]) if l > 0)
    bad["ev"][-1]["labels"][k] = -1                      # drop one assignment from the last recorded state
    tmp = common.Check(PROP, "quick")
    verdicts, sums, rejected = validate(tmp, [good, bad], {}, "selftest")
    if chk is not None:
        chk.states += tmp.states
        chk.transitions += tmp.transitions
        chk.tlc_runs += tmp.tlc_runs
    if not verdicts["s/0"]["ok"] or verdicts["s/bad"]["ok"]:
        raise common.MachineryError("selftest: trace spec verdicts wrong: %s" % verdicts)
    t = {"err": [[0, 3], [1, 3], [3, 3]], "order": [1, 2, 3], "labels": [1, -1], "drlv2": [0, 3], "rets": [1, 0, 0], "noties": 1}
    if run_table(t, c, indexing, 1, [1]):
        raise common.MachineryError("selftest: correct table rejected")
    if not run_table(t, c, indexing, 1, [1], perturb=True):
        raise common.MachineryError("selftest: perturbed table accepted")

"""X01 - misorientation kernels return the trace of the best symmetry-equivalent misorientation.

Extra check (specification growth, not one of the listed properties; not registered in MANIFEST.json).
Specification: specs/Misori.tla (configurations Misori_q / _t / _pinned / _pinned_tet / _pinned_ort /
_pinned_mon).

Property.  For proper rotations u1, u2 (ImageD11 "U" matrices, crystal -> sample axes) and the proper
point group G of the lattice (432, 422, 222, 2 with b unique)

    cImageD11.misori_<name>(u1, u2)  =  max over g in G of trace( (u1.g)^T . u2 )

hence: symmetric in (u1, u2); unchanged when u1 or u2 is replaced by u.g, g in G; unchanged under a common
rotation of the sample frame; = 3 (angle 0) exactly when u2 is in the orbit u1.G; cubic >= tetragonal >=
orthorhombic >= monoclinic >= trace(u1^T u2).

Binding
  mode A  every pair of exact rational rotations TLC enumerates is replayed on the four real kernels:
          value = specification's maximum (rational -> float, |x - e| <= 1e-12) through the plain call,
          the swapped call, every u1.g / u2.g, a rotated frame, and non-contiguous / Fortran / list /
          integer inputs;
  plus    the group lists of the specification = sym_u.cubic/tetragonal/orthorhombic/monoclinic_b/triclinic
          (sets) = xfab.symmetry.rotations (trusted reference: a difference there is a machinery error);
          a sample of the specification's maxima is cross-checked against xfab.symmetry.Umis (angles);
  plus    seeded random float orientations judged by the laws against a brute-force numpy maximum over the
          sym_u matrices;
  plus    TLC, run on the model of the pinned formulas (Kernels = "pinned"), finds TetraAgrees / OrthoAgrees /
          MonoAgrees violated; each counterexample is replayed on the real kernel.

Findings (all three are reported as VIOLATION unless /verif/known_findings.json lists them for X01)
  X01-misori-tetragonal-branch   misori_tetragonal branches on m2 > m3 instead of m1 > m2 (misori(I, I) = 1)
  X01-misori-monoclinic-mirror   misori_monoclinic flips b alone (the mirror), not a and c (the two-fold)
  X01-misori-orthorhombic-laue   misori_orthorhombic maximises |trace| (mmm); differs beyond 90 degrees
A failing case is excused only when the entry exists AND the real value equals, to 1e-12, what the
specification's model of the pinned formula gives for that very input (PinnedTetra / PinnedOrtho /
PinnedMono; transcribed below in exact integers and checked against the emitted `pinned` field of every
record).
"""
from __future__ import print_function
import os, sys, json, io, math, time, copy, contextlib, hashlib
import common

PROP = "X01"
KERNELS = ["cubic", "tetragonal", "orthorhombic", "monoclinic"]       # best[0..3]; best[4] = triclinic
GROUPS = KERNELS + ["triclinic"]
XFAB_CS = {"cubic": 7, "tetragonal": 4, "orthorhombic": 3, "monoclinic": 2, "triclinic": 1}
SYMU = {"cubic": "cubic", "tetragonal": "tetragonal", "orthorhombic": "orthorhombic",
        "monoclinic": "monoclinic_b", "triclinic": "triclinic"}
FINDING = {"tetragonal": "X01-misori-tetragonal-branch",
           "orthorhombic": "X01-misori-orthorhombic-laue",
           "monoclinic": "X01-misori-monoclinic-mirror"}
FINDING_TEXT = {
    "tetragonal": "misori_tetragonal takes its branch on m2 > m3 instead of m1 > m2 and sums absolute values "
                  "(specification: TetraAgrees violated with Kernels = pinned)",
    "orthorhombic": "misori_orthorhombic maximises |trace| (Laue class mmm, improper elements let in): larger "
                    "than the best proper trace when the disorientation exceeds 90 degrees (specification: "
                    "OrthoAgrees violated with Kernels = pinned)",
    "monoclinic": "misori_monoclinic flips b alone (mirror) instead of a and c together (two-fold about b) "
                  "(specification: MonoAgrees violated with Kernels = pinned)"}
PINNED_CFG = {"tetragonal": ("Misori_pinned_tet.cfg", "TetraAgrees"),
              "orthorhombic": ("Misori_pinned_ort.cfg", "OrthoAgrees"),
              "monoclinic": ("Misori_pinned_mon.cfg", "MonoAgrees")}
WORKERS = 16
TOL = 1e-12

np = None
xsym = None


# ------------------------------------------------------------------------------------------
# exact integer algebra (python ints)

def mm(A, B):
    return [[sum(A[i][k] * B[k][j] for k in range(3)) for j in range(3)] for i in range(3)]


def tr(A):
    return [[A[j][i] for j in range(3)] for i in range(3)]


def tup(A):
    return tuple(tuple(int(v) for v in r) for r in A)


def trace_op(g, R):
    """trace(g^T . R)"""
    return sum(g[i][j] * R[i][j] for i in range(3) for j in range(3))


def best_exact(R, G):
    return max(trace_op(g, R) for g in G)


def pinned_formulas(R):
    """the formulas of the pinned tree (src/closest.c 704-877) on the numerators R of u1^T u2; works for
    python ints (exact) and floats.  Used ONLY to decide whether a failing case is the recorded finding;
    checked against the specification's `pinned` field of every record."""
    a = abs
    t = [a(R[0][0]) + a(R[1][1]) + a(R[2][2]), a(R[0][0]) + a(R[1][2]) + a(R[2][1]),
         a(R[0][1]) + a(R[1][0]) + a(R[2][2]), a(R[0][1]) + a(R[2][0]) + a(R[1][2]),
         a(R[0][2]) + a(R[1][0]) + a(R[2][1]), a(R[0][2]) + a(R[2][0]) + a(R[1][1])]
    cub = max(t)
    m3 = a(R[2][2])
    m1 = a(R[0][0]) + a(R[1][1])
    m2 = a(R[1][0]) + a(R[0][1])
    tet = m1 + m3 if m2 > m3 else m2 + m3
    ort = a(R[0][0]) + a(R[1][1]) + a(R[2][2])
    mon = R[0][0] + a(R[1][1]) + R[2][2]
    return [cub, tet, ort, mon]


def pinned_candidates(R, k, scale):
    """values the pinned formula of kernel k may return for numerators R (divided by scale): one value,
    or both branches of misori_tetragonal when m2 = m3 up to rounding (the real kernel decides the tie on
    doubles that carry ~1e-16 of rounding)"""
    out = [pinned_formulas(R)[k] / float(scale)]
    if k == 1:
        a = abs
        m3 = a(R[2][2])
        m1 = a(R[0][0]) + a(R[1][1])
        m2 = a(R[1][0]) + a(R[0][1])
        if a(m2 - m3) / float(scale) <= 1e-13:
            out = [(m1 + m3) / float(scale), (m2 + m3) / float(scale)]
    return out


# ------------------------------------------------------------------------------------------
# verdict collection: one VIOLATION per class, the first case is the replay file

class Verdicts(object):
    def __init__(self, chk=None):
        self.chk = chk
        self.classes = {}
        self.order = []
        self.known = {}

    def violation(self, key, what, case):
        if key not in self.classes:
            self.classes[key] = [what, dict(case, violation_class=[str(k) for k in key]), 0]
            self.order.append(key)
        self.classes[key][2] += 1

    def known_finding(self, fid, what):
        self.known.setdefault(fid, [what, 0])
        self.known[fid][1] += 1

    def finding(self, fid):
        return self.chk.finding(fid) if self.chk is not None else None

    def n(self):
        return len(self.classes)

    def total(self):
        return sum(c[2] for c in self.classes.values()) + sum(k[1] for k in self.known.values())

    def flush(self):
        for key in self.order:
            what, case, count = self.classes[key]
            self.chk.violation("%s [%d case(s) of class %s]" % (what, count, "/".join(str(k) for k in key)), case)
        for fid, (what, count) in self.known.items():
            for _ in range(count):
                self.chk.known_finding(fid, what)


# ------------------------------------------------------------------------------------------
# the real code

@contextlib.contextmanager
def quiet():
    buf = io.StringIO()
    with contextlib.redirect_stdout(buf):
        yield buf


def _imports(shadow):
    global np, xsym
    import numpy
    np = numpy
    with quiet():
        from ImageD11 import cImageD11, sym_u
        import ImageD11._cImageD11 as _c
        import xfab.symmetry
    xsym = xfab.symmetry
    global FRAME
    FRAME = np.dot(np.array([[3, -4, 0], [4, 3, 0], [0, 0, 5]], float) / 5,
                   np.array([[13, 0, 0], [0, 5, -12], [0, 12, 5]], float) / 13)
    for m in (cImageD11, sym_u):
        real = os.path.realpath(m.__file__)
        if not real.startswith(os.path.realpath(common.REPO) + os.sep):
            raise common.MachineryError("%s resolved to %s, not to the tree under test %s" %
                                        (m.__name__, real, common.REPO))
    if not os.path.realpath(_c.__file__).startswith(os.path.realpath(shadow) + os.sep):
        raise common.MachineryError("_cImageD11 resolved to %s, not to the shadow build %s" % (_c.__file__, shadow))
    return cImageD11, sym_u


class Real(object):
    """the kernels and the sym_u groups of the tree under test"""

    def __init__(self, cImageD11, sym_u):
        self.kern = {n: getattr(cImageD11, "misori_" + n) for n in KERNELS}
        self.symu = {}
        self.symu_int = {}
        for n in GROUPS:
            with quiet():
                g = getattr(sym_u, SYMU[n])()
            mats = [np.array(m, float) for m in g.group]
            self.symu[n] = mats
            ints = []
            for m in mats:
                r = np.round(m)
                ints.append(tup(r) if m.shape == (3, 3) and np.all(m == r) else None)
            self.symu_int[n] = ints
        self.model = None            # name -> list of integer matrices (from the specification)
        self.model_f = None          # the same as float arrays

    def with_kernels(self, kern):
        o = copy.copy(self)
        o.kern = dict(self.kern)
        o.kern.update(kern)
        return o


# ------------------------------------------------------------------------------------------
# judges

def judge_groups(case, real, V):
    """case: the specification's group lists.  sym_u's named groups are the same sets (code under test);
    xfab's rotations are the same sets (trusted reference for the specification itself)."""
    model = {}
    for n, g in zip(case["names"], case["groups"]):
        model[n] = [[list(r) for r in m] for m in g]
        ms = set(tup(m) for m in g)
        if len(ms) != len(g):
            raise common.MachineryError("specification: duplicate element in group list %s" % n)
        xs = set(tup(np.round(m)) for m in xsym.rotations(XFAB_CS[n]))
        if xs != ms:
            raise common.MachineryError("specification's group %s is not xfab.symmetry.rotations(%d)" % (n, XFAB_CS[n]))
        si = real.symu_int[n]
        if any(m is None for m in si) or set(si) != ms or len(si) != len(g):
            V.violation(("groups", n), "sym_u.%s() is not the proper point group the misorientation kernels are "
                        "specified against (%d elements, specification %d)" % (SYMU[n], len(si), len(g)), case)
    real.model = model
    real.model_f = {n: [np.array(g, float) for g in model[n]] for n in model}
    return model


def explained(V, name, x, pinned_values, best_value):
    """x (real) is not the property's value.  Is it the recorded finding?  Only when the entry is listed and
    x is exactly what the model of the pinned formula gives for this input (and that differs from the
    property's value)."""
    fid = FINDING.get(name)
    if fid is None or not pinned_values:
        return False
    if not any(abs(p - best_value) > TOL and abs(x - p) <= TOL for p in pinned_values):
        return False
    return "listed" if V.finding(fid) is not None else "pinned"


def report(V, name, route, x, e, pinned_values, case, law):
    """real value x differs from the property's value e on kernel `name` through `route`"""
    why = explained(V, name, x, pinned_values, e)
    if why == "listed":
        V.known_finding(FINDING[name], FINDING_TEXT[name])
        return
    if why == "pinned":
        V.violation(("kernel", name, "pinned-formula"),
                    "misori_%s returns %.15g, the best proper trace is %.15g (%s; route %s): %s [finding %s, not "
                    "listed in known_findings.json]" % (name, x, e, law, route, FINDING_TEXT[name], FINDING[name]), case)
        return
    V.violation(("kernel", name, "value"),
                "misori_%s returns %.15g, the specification's maximum over the proper group is %.15g "
                "(%s; route %s)" % (name, x, e, law, route), case)


FRAME = None          # Rz(3-4-5) . Rx(5-12-13): common rotation of the sample frame (set by _imports)


def judge_pair(case, real, V, only=None, stats=None):
    """case: one 'pair' record: m1, n1, m2, n2 (u = m / n), den, best[0..4] (numerators over den of the
    specification's maxima for cubic .. triclinic), pinned[0..3] (what the model of the pinned formulas
    gives).  Every route must return best[k] / den."""
    m1, n1, m2, n2 = case["m1"], case["n1"], case["m2"], case["n2"]
    D = case["den"]
    if D != n1 * n2:
        raise common.MachineryError("record: den is not n1 * n2")
    R = mm(tr(m1), m2)
    if case.get("pinned") is not None and "tlc_invariant" not in case:
        if pinned_formulas(R) != list(case["pinned"]):
            raise common.MachineryError("transcription: pinned_formulas() in x01.py is not PinnedTetra/Ortho/Mono of "
                                        "Misori.tla for %r" % ((m1, n1, m2, n2),))
    U1 = np.array(m1, float) / n1
    U2 = np.array(m2, float) / n2
    model = real.model
    nroutes = 0
    for k, name in enumerate(KERNELS):
        if only is not None and name not in only:
            continue
        f = real.kern[name]
        e = case["best"][k] / float(D)
        G = model[name]

        def pin(Rn):
            return pinned_candidates(Rn, k, D)

        def check(route, law, x, Rn=None):
            # Rn: thunk giving the integer numerators of the u1^T u2 the kernel was called with
            if not (abs(x - e) <= TOL):          # also catches nan
                report(V, name, route, float(x), e, pin(R if Rn is None else Rn()), case, law)
        check("c", "value", f(U1, U2))
        check("swap", "Symmetric", f(U2, U1), lambda: tr(R))
        nroutes += 2
        for g, ga in zip(G, real.model_f[name]):
            check("u1.g", "GroupInvariant", f(np.dot(U1, ga), U2), lambda: mm(tr(mm(m1, g)), m2))
            check("u2.g", "GroupInvariant", f(U1, np.dot(U2, ga)), lambda: mm(tr(m1), mm(m2, g)))
            nroutes += 2
        check("frame", "FrameInvariant", f(np.dot(FRAME, U1), np.dot(FRAME, U2)))
        # argument forms f2py accepts: Fortran order, a strided view, nested lists, integers
        check("fortran", "value", f(np.asfortranarray(U1), np.asfortranarray(U2)))
        big = np.zeros((6, 6))
        big[::2, ::2] = U1
        big[1::2, 1::2] = U2
        check("strided", "value", f(big[::2, ::2], big[1::2, 1::2]))
        check("lists", "value", f(U1.tolist(), U2.tolist()))
        nroutes += 4
        if n1 == 1 and n2 == 1:
            check("int", "value", f(np.array(m1, int), np.array(m2, int)))
            nroutes += 1
    if stats is not None:
        stats["routes"] = stats.get("routes", 0) + nroutes
    return nroutes


def quat_matrix(q):
    w, x, y, z = q / np.sqrt(np.dot(q, q))
    return np.array([[1 - 2 * (y * y + z * z), 2 * (x * y - w * z), 2 * (x * z + w * y)],
                     [2 * (x * y + w * z), 1 - 2 * (x * x + z * z), 2 * (y * z - w * x)],
                     [2 * (x * z - w * y), 2 * (y * z + w * x), 1 - 2 * (x * x + y * y)]])


def judge_float(case, real, V, only=None):
    """case: q1, q2 (quaternions of u1, u2), qf (frame rotation), kind 'float'.  Optional: near (group
    name, element index, angle): u2 = u1 . g . (small rotation).  Judged by the laws against the
    brute-force maximum over the sym_u matrices."""
    U1 = quat_matrix(np.array(case["q1"], float))
    U2 = quat_matrix(np.array(case["q2"], float))
    Q = quat_matrix(np.array(case["qf"], float))
    r = np.dot(U1.T, U2)
    vals = {}
    for k, name in enumerate(KERNELS):
        if only is not None and name not in only:
            continue
        f = real.kern[name]
        G = real.symu[name]
        brute = max(float(np.sum(g * r)) for g in G)            # trace(g^T r)

        def check(route, law, x, rn):
            if not (abs(x - brute) <= TOL):
                report(V, name, route, float(x), brute, pinned_candidates(rn, k, 1.0), case, law)
        x = f(U1, U2)
        vals[name] = x
        check("c", "brute-force maximum over sym_u.%s()" % SYMU[name], x, r)
        check("swap", "Symmetric", f(U2, U1), r.T)
        for g in G:
            check("u1.g", "GroupInvariant", f(np.dot(U1, g), U2), np.dot(g.T, r))
            check("u2.g", "GroupInvariant", f(U1, np.dot(U2, g)), np.dot(r, g))
        check("frame", "FrameInvariant", f(np.dot(Q, U1), np.dot(Q, U2)), r)
        # the orbit of u1 is at angle zero
        for g in G:
            x0 = f(U1, np.dot(U1, g))
            if not (abs(x0 - 3.0) <= TOL):
                report(V, name, "orbit", float(x0), 3.0, pinned_candidates(g, k, 1.0), case, "ZeroIffOrbit")
        if not (x <= 3.0 + TOL and x >= -1.0 - TOL):
            V.violation(("kernel", name, "range"), "misori_%s returns %.15g outside [-1, 3]" % (name, x), case)
    # subgroup chain on the real outputs (only where each value is the property's: otherwise reported above)
    if only is None:
        seq = [vals[n] for n in KERNELS] + [float(np.trace(r))]
        for a in range(4):
            if not (seq[a] >= seq[a + 1] - TOL):
                name = KERNELS[a]
                brute = [max(float(np.sum(g * r)) for g in real.symu[n]) for n in GROUPS]
                if abs(seq[a] - brute[a]) <= TOL and abs(seq[a + 1] - brute[a + 1]) <= TOL:
                    V.violation(("chain", name), "subgroup chain broken: %s %.15g < %s %.15g" %
                                (GROUPS[a], seq[a], GROUPS[a + 1], seq[a + 1]), case)
    return vals


JUDGES = {"pair": judge_pair, "float": judge_float, "groups": judge_groups}


# ------------------------------------------------------------------------------------------
# TLC

def parse_records(res, label):
    recs = []
    skipped = 0
    for p in res.printed:
        try:
            recs.append(json.loads(p))
        except ValueError:
            skipped += 1
    return recs, skipped


def tlc_records(cfg, label, coverage, timeout, chk, require_cover=()):
    res = common.run_tlc("Misori", os.path.join(common.SPECS, cfg), workers=WORKERS, coverage=coverage, timeout=timeout)
    recs, skipped = (None, 0)
    if not (res.violated or res.error):
        recs, skipped = parse_records(res, label)
    if skipped:
        res = common.run_tlc("Misori", os.path.join(common.SPECS, cfg), workers=1, coverage=coverage, timeout=timeout * 6)
        if not (res.violated or res.error):
            recs, skipped = parse_records(res, label)
            if skipped:
                raise common.MachineryError("%s: %d emitted lines do not parse" % (label, skipped))
    chk.add_tlc(label, res, require_cover=require_cover)
    if res.violated:
        raise common.MachineryError("%s: the specification's own laws fail (%r): the model is wrong\n%s" %
                                    (label, res.violated, res.stdout[-1500:]))
    if not res.finished:
        raise common.MachineryError("%s: TLC did not finish: %s" % (label, res.error))
    return res, recs


def tolist(v):
    if isinstance(v, tuple):
        return [tolist(x) for x in v]
    return v


def counterexample_case(res, inv):
    """last state of the TLC counterexample -> a 'pair' case"""
    if not res.trace:
        raise common.MachineryError("TLC reported %r without a trace" % (res.violated,))
    st = res.trace[-1]["vars"]
    u1 = tolist(common.parse_tla(st["u1"].strip()))
    u2 = tolist(common.parse_tla(st["u2"].strip()))
    best = tolist(common.parse_tla(st["res"].strip()))
    kres = tolist(common.parse_tla(st["kres"].strip()))
    return {"kind": "pair", "m1": u1[0], "n1": u1[1], "m2": u2[0], "n2": u2[1], "den": u1[1] * u2[1],
            "best": best, "pinned": [k[2] for k in kres], "branch": kres[1][1], "tlc_invariant": inv}


def run_pinned(chk, real, V):
    """TLC on the model of the pinned formulas: the three agreement invariants are violated; each
    counterexample is replayed on the real kernel.  Returns {kernel: 'reproduced' | 'repaired'}"""
    out = {}
    for name in ("tetragonal", "orthorhombic", "monoclinic"):
        cfg, inv = PINNED_CFG[name]
        res = common.run_tlc("Misori", os.path.join(common.SPECS, cfg), workers=WORKERS, timeout=300)
        chk.add_tlc("Misori %s (%s expected to be violated)" % (cfg[7:-4], inv), res)
        if res.violated != [inv]:
            raise common.MachineryError("%s: TLC did not find the %s counterexample (%r)" % (cfg, inv, res.violated))
        case = counterexample_case(res, inv)
        k = KERNELS.index(name)
        if case["pinned"][k] == case["best"][k] or pinned_formulas(mm(tr(case["m1"]), case["m2"]))[k] != case["pinned"][k]:
            raise common.MachineryError("%s: counterexample inconsistent with the pinned formulas" % cfg)
        before = V.total()
        judge_pair(case, real, V, only=(name,))
        chk.traces += 1
        chk.case(("tlc-counterexample", name))
        out[name] = "reproduced" if V.total() != before else "repaired"
        chk.sample({"tlc_counterexample": inv, "u1": [case["m1"], case["n1"]], "u2": [case["m2"], case["n2"]],
                    "best_proper_trace": "%d/%d" % (case["best"][k], case["den"]),
                    "pinned_formula": "%d/%d" % (case["pinned"][k], case["den"]), "real_kernel": out[name]}, limit=6)
    return out


# ------------------------------------------------------------------------------------------

def rng_for(*key):
    h = hashlib.sha256(repr((common.seed(),) + key).encode()).digest()
    return np.random.RandomState(int.from_bytes(h[:4], "little"))


def float_cases(n, real):
    rs = rng_for("float")
    out = []
    for j in range(n):
        c = {"kind": "float", "q1": rs.normal(size=4).tolist(), "q2": rs.normal(size=4).tolist(),
             "qf": rs.normal(size=4).tolist()}
        out.append(c)
    # near-orbit pairs: u2 = u1 . g . (rotation by a small angle): the maximum is close to 3 and attained at g
    for j in range(max(n // 4, 8)):
        q1 = rs.normal(size=4)
        name = GROUPS[j % 4]
        G = real.symu[name]
        g = G[rs.randint(len(G))]
        ang = 10.0 ** rs.uniform(-7, -1)
        ax = rs.normal(size=3)
        ax /= np.sqrt(np.dot(ax, ax))
        qs = np.concatenate([[math.cos(ang / 2)], math.sin(ang / 2) * ax])
        U2 = np.dot(np.dot(quat_matrix(q1), g), quat_matrix(qs))
        out.append({"kind": "float", "q1": q1.tolist(), "q2": matrix_quat(U2).tolist(), "qf": rs.normal(size=4).tolist(),
                    "near": [name, float(ang)]})
    return out


def matrix_quat(U):
    """rotation matrix -> quaternion (w, x, y, z), numerically stable branch"""
    t = np.trace(U)
    c = [t, U[0, 0], U[1, 1], U[2, 2]]
    b = int(np.argmax(c))
    if b == 0:
        w = math.sqrt(1 + t) / 2
        return np.array([w, (U[2, 1] - U[1, 2]) / (4 * w), (U[0, 2] - U[2, 0]) / (4 * w), (U[1, 0] - U[0, 1]) / (4 * w)])
    i = b - 1
    j, k = (i + 1) % 3, (i + 2) % 3
    s = math.sqrt(1 + U[i, i] - U[j, j] - U[k, k]) * 2
    q = np.zeros(4)
    q[0] = (U[k, j] - U[j, k]) / s
    q[1 + i] = s / 4
    q[1 + j] = (U[j, i] + U[i, j]) / s
    q[1 + k] = (U[k, i] + U[i, k]) / s
    return q


def xfab_crosscheck(recs, nmax):
    """the specification's maxima against xfab.symmetry.Umis (angles in degrees).  A difference is a fault
    of the specification (xfab is a reference, not the code under test)."""
    rs = rng_for("xfab")
    idx = rs.choice(len(recs), size=min(nmax, len(recs)), replace=False)
    n = 0
    for i in idx:
        c = recs[int(i)]
        U1 = np.array(c["m1"], float) / c["n1"]
        U2 = np.array(c["m2"], float) / c["n2"]
        for k, name in enumerate(GROUPS):
            ang = float(np.min(xsym.Umis(U1, U2, XFAB_CS[name])[:, 1]))
            e = math.degrees(math.acos(max(-1.0, min(1.0, (c["best"][k] / float(c["den"]) - 1) / 2))))
            if abs(ang - e) > 1e-4:
                raise common.MachineryError("specification disagrees with xfab.symmetry.Umis for %s: %.8f vs %.8f deg (%r)"
                                            % (name, e, ang, (c["m1"], c["n1"], c["m2"], c["n2"])))
            n += 1
    return n


def run(tier, replay=None):
    chk = common.Check(PROP, tier)
    shadow = common.build_shadow("normal")
    common.use_shadow(shadow)
    cI, sym_u = _imports(shadow)
    real = Real(cI, sym_u)
    V = Verdicts(chk)
    thorough = tier == "thorough"

    # ---- 1. the specification: proper closed forms, all laws; records for the replay ------------
    cfg = "Misori_t.cfg" if thorough else "Misori_q.cfg"
    if replay:
        cfg = "Misori_one.cfg"            # one pair: only the group lists are needed
    res, recs = tlc_records(cfg, "Misori %s (Kernels = proper)" % cfg[7:-4], False, 2400 if thorough else 400, chk)
    if thorough and not replay:
        # action coverage (TLC's cost statistics triple the run time: taken on the quick configuration, whose
        # pairs are a subset of the thorough one's)
        rc, _ = tlc_records("Misori_q.cfg", "Misori q (Kernels = proper, coverage)", True, 900, chk,
                            require_cover=("Pick", "ScanKeep", "ScanSkip", "Call", "KTetra"))
        if not rc.coverage:
            raise common.MachineryError("vacuity: no coverage statistics")
        chk.notes["action_coverage_proper"] = {k: v[1] for k, v in rc.coverage.items()}
    grecs = [r for r in recs if r["kind"] == "groups"]
    precs = [r for r in recs if r["kind"] == "pair"]
    if len(grecs) != 1 or not precs:
        raise common.MachineryError("vacuity: expected one groups record and pair records (%d, %d)" % (len(grecs), len(precs)))
    # simplest pairs first (identity, small denominators): the first case of a class is its replay file
    ident = [[1, 0, 0], [0, 1, 0], [0, 0, 1]]
    precs.sort(key=lambda r: (r["den"], r["m1"] != ident, r["m2"] != ident, r["m1"], r["m2"]))
    judge_groups(grecs[0], real, V)
    chk.case(("groups",))
    chk.traces += 1
    if replay:
        return do_replay(chk, real, V, replay)

    # ---- 2. replay every pair on the real kernels ---------------------------------------------
    stats = {}
    cnt = {"order_matters": 0, "inorbit": [0] * 5, "notinorbit": [0] * 5, "pinned_differs": [0] * 4,
           "branchA": 0, "branchB": 0, "chain_strict": [0] * 4}
    for r in precs:
        if r["proper"] != r["best"][:4] or r["kernel"] != r["best"][:4]:
            raise common.MachineryError("record: specification's closed forms differ from its scan")
        judge_pair(r, real, V, stats=stats)
        chk.traces += 1
        chk.case(("pair", tup(r["m1"]), r["n1"], tup(r["m2"]), r["n2"]), nontrivial=r["best"][4] != 3 * r["den"])
        cnt["order_matters"] += any(r["wrong"][k] != r["best"][k] for k in range(4))
        for k in range(5):
            cnt["inorbit" if r["inorbit"][k] else "notinorbit"][k] += 1
            if r["inorbit"][k] != (r["best"][k] == 3 * r["den"]):
                raise common.MachineryError("record: inorbit inconsistent with best")
        for k in range(4):
            cnt["pinned_differs"][k] += r["pinned"][k] != r["best"][k]
            cnt["chain_strict"][k] += r["best"][k] > r["best"][k + 1]
        cnt["branchA" if r["branch"] == "A" else "branchB"] += 1
        if r["n1"] > 1 and r["n2"] > 1 and r["pinned"][2] != r["best"][2]:
            chk.sample({"kind": "pair", "u1": [r["m1"], r["n1"]], "u2": [r["m2"], r["n2"]],
                        "best/den": [r["best"], r["den"]], "pinned_formulas/den": r["pinned"]}, limit=2)
    chk.notes["pairs_replayed"] = len(precs)
    chk.notes["kernel_calls_on_exact_pairs"] = stats.get("routes", 0)
    chk.notes["nonvacuity"] = cnt
    if cnt["order_matters"] == 0:
        raise common.MachineryError("vacuity: no pair separates u1^T u2 from u1 u2^T")
    if min(cnt["inorbit"][:4]) == 0 or min(cnt["notinorbit"]) == 0:
        raise common.MachineryError("vacuity: ZeroIffOrbit needs pairs inside and outside the orbit for every group")
    if min(cnt["pinned_differs"][1:]) == 0 or cnt["pinned_differs"][0] != 0:
        raise common.MachineryError("vacuity: the pinned formulas must differ from the maximum for tetragonal, "
                                    "orthorhombic and monoclinic (and never for cubic): %r" % (cnt["pinned_differs"],))
    if min(cnt["chain_strict"]) == 0:
        raise common.MachineryError("vacuity: subgroup chain never strict")

    # ---- 3. the specification against xfab (reference) ------------------------------------------
    chk.notes["xfab_umis_crosschecks"] = xfab_crosscheck(precs, 400 if thorough else 80)

    # ---- 4. TLC on the pinned formulas: counterexamples replayed ------------------------------------
    if thorough:
        r2, pr = tlc_records("Misori_pinned.cfg", "Misori pinned (both tetragonal branches, PinnedExplained)", True, 900, chk,
                             require_cover=("Pick", "ScanKeep", "ScanSkip", "Call", "KTetraA", "KTetraB"))
        chk.notes["pinned_model_records"] = len(pr)
        chk.notes["action_coverage_pinned"] = {k: v[1] for k, v in r2.coverage.items()}
        for r in pr:
            if r["kind"] == "pair" and r["kernel"] != r["pinned"]:
                raise common.MachineryError("record: pinned kernel actions differ from the pinned operators")
    chk.notes["pinned_counterexamples_on_real_kernels"] = run_pinned(chk, real, V)

    # ---- 5. seeded float orientations -----------------------------------------------------------
    fcs = float_cases(4000 if thorough else 600, real)
    for c in fcs:
        judge_float(c, real, V)
        chk.case(("float", tuple(c["q1"]), tuple(c["q2"])))
    chk.notes["float_pairs"] = len(fcs)

    if thorough:
        selftest(real, precs)
    V.flush()
    chk.rule = ("TLC enumerates every pair (u1, u2) of exact rational rotations (|q|^-2 R(q), integer quaternion "
                "components bounded by QMax; Rz(a).Rx(b) for right / Pythagorean angles) and, per pair, the scan over "
                "the 24 / 8 / 4 / 2 / 1 proper rotations; each pair is replayed on the four real kernels through the "
                "plain, swapped, u.g, rotated-frame and alternative-argument routes; non-trivial = u1 != u2")
    chk.exhaustive = True
    chk.assumptions = ["u1, u2 are proper rotations (the property is not stated for other matrices)",
                       "rational entries are rounded to double precision once (|error| ~ 1e-16); tolerance 1e-12 absolute",
                       "xfab.symmetry.rotations / Umis are trusted as reference for the specification's groups and maxima",
                       "monoclinic: unique axis b (sym_u.monoclinic_b), as the kernel's docstring says"]
    chk.notes["tolerance"] = "abs(x - e) <= 1e-12 (e = exact rational maximum -> nearest double; floats: brute-force numpy maximum)"
    return chk.finish()


# ------------------------------------------------------------------------------------------

def do_replay(chk, real, V, path):
    with open(path) as f:
        d = json.load(f)
    case = d["case"]
    kind = case.get("kind")
    if kind not in JUDGES:
        raise common.MachineryError("replay: unknown case kind %r" % kind)
    JUDGES[kind](case, real, V)
    chk.traces += 1
    chk.case(("replay", path))
    chk.exhaustive = False
    chk.rule = "re-execution of one saved case"
    want = case.get("violation_class")
    for key in V.order:
        what = V.classes[key][0]
        if want is not None and [str(k) for k in key] != want:
            print("  (not the saved class, ignored: %s)" % what)
            continue
        print("  violation: %s" % what)
        chk.violations.append((what, os.path.abspath(path)))
    for fid, (what, count) in V.known.items():
        for _ in range(count):
            chk.known_finding(fid, what)
    return chk.finish()


def selftest(real=None, precs=None):
    """the binding rejects perturbed expectations and wrong kernels, and excuses only the modelled findings"""
    if real is None:
        shadow = common.build_shadow("normal")
        if np is None:
            common.use_shadow(shadow)
        cI, sym_u = _imports(shadow)
        real = Real(cI, sym_u)
    if precs is None or real.model is None:
        res = common.run_tlc("Misori", os.path.join(common.SPECS, "Misori_q.cfg"), workers=WORKERS, timeout=400)
        if res.violated or not res.finished:
            raise common.MachineryError("selftest: TLC run failed %r %r" % (res.violated, res.error))
        recs, skipped = parse_records(res, "selftest")
        judge_groups([r for r in recs if r["kind"] == "groups"][0], real, Verdicts(None))
        precs = [r for r in recs if r["kind"] == "pair"]

    def rejected(judge, case, rl=real, **kw):
        v = Verdicts(None)
        judge(case, rl, v, **kw)
        return v.n() > 0

    # the python kernels below are exact transcriptions of the property (brute force), so the self-test does
    # not depend on whether the tree under test has the recorded defects
    G = {n: [np.array(g, float) for g in real.model[n]] for n in GROUPS}

    def brute(name, order="ok", drop=None):
        def f(u1, u2):
            u1 = np.asarray(u1, float)
            u2 = np.asarray(u2, float)
            r = np.dot(u1.T, u2) if order == "ok" else np.dot(u1, u2.T)
            gs = G[name] if drop is None else [g for i, g in enumerate(G[name]) if i != drop]
            return max(float(np.sum(g * r)) for g in gs)
        return f
    good = real.with_kernels({n: brute(n) for n in KERNELS})
    sample = [r for r in precs if r["n1"] > 1 and r["n2"] > 1][:300] + precs[:200]
    fcs = float_cases(60, real)
    for r in sample:
        if rejected(judge_pair, r, good):
            raise common.MachineryError("selftest: unperturbed record rejected for a brute-force kernel")
    for c in fcs:
        if rejected(judge_float, c, good):
            raise common.MachineryError("selftest: float case rejected for a brute-force kernel")
    # 1. perturbed expectations
    r0 = next(r for r in sample if r["best"][0] > r["best"][1] > r["best"][2] > r["best"][3])
    for k in range(4):
        p = copy.deepcopy(r0)
        p["best"][k] += 1
        p["pinned"] = None
        if not rejected(judge_pair, p, good):
            raise common.MachineryError("selftest: perturbed expectation for %s not rejected" % KERNELS[k])
    p = copy.deepcopy(r0)
    p["m2"] = mm(p["m2"], [[0, -1, 0], [1, 0, 0], [0, 0, 1]])        # u2 . 4z : another pair for 222 and 2
    p["pinned"] = None
    v = Verdicts(None)
    judge_pair(p, good, v)
    if not any(key[1] in ("orthorhombic", "monoclinic") for key in v.classes):
        raise common.MachineryError("selftest: record with a rotated u2 not rejected")
    # 2. wrong kernels: product order, a missing group element, |trace| (Laue class)
    wrongs = {"order": {n: brute(n, order="swapped") for n in KERNELS},
              "dropped": {n: brute(n, drop=len(G[n]) - 1) for n in KERNELS}}
    for label, kern in wrongs.items():
        bad = real.with_kernels(kern)
        for name in KERNELS:
            if not any(rejected(judge_pair, r, bad, only=(name,)) for r in sample):
                raise common.MachineryError("selftest: kernel with %s not rejected on exact records (%s)" % (label, name))
            if not any(rejected(judge_float, c, bad, only=(name,)) for c in fcs):
                raise common.MachineryError("selftest: kernel with %s not rejected on float cases (%s)" % (label, name))
    # 3. findings: excused only when listed AND the value is the pinned formula's
    def pinned_kernel(k):
        def f(u1, u2):
            return float(pinned_formulas(np.dot(np.asarray(u1, float).T, np.asarray(u2, float)))[k])
        return f
    pinned = real.with_kernels({n: pinned_kernel(k) for k, n in enumerate(KERNELS)})

    class FakeChk(object):
        def __init__(self, listed):
            self.listed = listed

        def finding(self, fid):
            return {"id": fid} if fid in self.listed else None
    for name in ("tetragonal", "orthorhombic", "monoclinic"):
        v = Verdicts(FakeChk(set()))
        for r in sample:
            judge_pair(r, pinned, v, only=(name,))
        if list(v.classes) != [("kernel", name, "pinned-formula")] or v.known:
            raise common.MachineryError("selftest: unlisted pinned formula of %s must be one violation class: %r" %
                                        (name, list(v.classes)))
        v = Verdicts(FakeChk({FINDING[name]}))
        for r in sample:
            judge_pair(r, pinned, v, only=(name,))
        for c in fcs:
            judge_float(c, pinned, v, only=(name,))
        if v.n() != 0 or list(v.known) != [FINDING[name]]:
            raise common.MachineryError("selftest: listed pinned formula of %s not matched as known finding: %r" %
                                        (name, list(v.classes)))
        v = Verdicts(FakeChk({FINDING[name]}))
        other = real.with_kernels(wrongs["order"])
        for r in sample:
            judge_pair(r, other, v, only=(name,))
        if v.n() == 0:
            raise common.MachineryError("selftest: a different defect of %s was excused by the finding entry" % name)
    v = Verdicts(FakeChk(set(FINDING.values())))
    for r in sample:
        judge_pair(r, pinned, v, only=("cubic",))
    if v.n() != 0 or v.known:
        raise common.MachineryError("selftest: cubic kernel (pinned = proper) must simply pass")
    return True

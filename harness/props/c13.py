"""C13 - local-maximum labelling follows steepest ascent for every thread count.

specs: LocalMax.tla (sequential meaning, phase by phase, + independent steepest-ascent definition),
       LocalMaxPar.tla (PlusCal, the parallel walk-to-max region, one step per shared access).
Mode A: every image TLC enumerates -> exact label array replayed into cImageD11.localmaxlabel (poisoned
        buffers), sparse_localmaxlabel, sparseframe.sparse_localmax; normal + ASan build.
Schedules: TLC proves (bounded) that the repaired ordering yields the sequential result for every
        interleaving (also with more threads than pixels: empty ranges) and that the thread ranges tile the
        image (RangesTile); the real code is bound by outcomes: every run at every thread count must equal
        the unique sequential result.
Thread counts are always explicit and READ BACK (cimaged11_omp_get_max_threads; in the hooks build the number of
        per-thread logs must equal the request): a request that does not take effect is a machinery error.
        Small cases run at 1, 2, 3, 5, 7, 16, 64 threads (64 > pixels of every small case).
OpenMP configurations (LocalMaxPar: requested team NT vs delivered `team`, RangesTile over both): the thread sweep
        (stress images, strips, a share of the TLC cases; dirty label / work buffers) is repeated in CHILD PROCESSES
        started under environments in which the runtime delivers another team than was requested (OMP_ENVS:
        OMP_NUM_THREADS=8 OMP_THREAD_LIMIT=3; OMP_NUM_THREADS=16 OMP_DYNAMIC=true; OMP_THREAD_LIMIT=2 with
        cimaged11_omp_set_num_threads(1..64); limit 1; a nesting list; ...), with and without a call of the setter;
        every result must equal the sequential one.  The hooks build runs under the limiting environments too: the
        number of per-thread logs IS the delivered team; every pending pixel must lie in exactly one logged range and
        every log must pass TraceWalk.
Call histories (LocalMaxCalls.tla: Stand, NoAlias): every sequence of 3 (thorough: 4) wrapper calls - sparse_localmax,
        sparse_smooth, smooth + localmax on the smoothed signal, sparse_connected_pixels, SparseScan.lmlabel with and
        without smoothing - over three frames (two of EQUAL nnz) and two scans of equal frame sizes, on several seeded
        concrete pools; every array handed out is kept and ALL of them are re-judged against the definitions after
        every later call, np.shares_memory between them (and with the inputs) must be false (harness/c13_calls.py).
Scan arguments x value classes (LocalMaxScan.tla: AllLabelled, MapCovariant): SparseScan.lmlabel as a function of its
        arguments and of the SIGN / ZERO class of the stored values.  TLC enumerates every frame of <= 3 stored pixels on
        2x3 (thorough: also 3x3, <= 4 pixels, 4 levels) under order preserving maps a v - b of the grey levels (v - 2, v - 3,
        v - 4, 2v - 4, 3v - 5: negative values, an exact 0, positive values) and emits signal and labels for smooth x
        countall; the scans <<frame, no pixels, mirrored frame>> are written with intensity dtypes float32, int32, float64,
        int16, int64, uint16 and labelled with the DEFAULT call, every smooth x countall, every threshold of THRS (keyword
        and positional, int and float): every stored pixel must carry the label of its maximum whatever the threshold
        argument (the local-maximum variant has no background class); the variant that cuts at the threshold "like
        cplabel" must violate AllLabelled (vacuity); harness/c13_scan.py.  One pool of the call histories holds values of
        mixed sign as well.
Harness-only instance families (the model only compares values and walks pointers, so it is covariant under order
preserving value maps, shapes and coordinate offsets; expectations are the independent numpy / python definitions
`definition`, `sparse_definition`, `c13_replay.expected_sparse`, `smooth16_definition`):
  * boundary shapes 3x3, 3xN, Nx3, 4xN, Nx4, Nx5 (one or two interior rows / columns, also > 1024 pixels) at
    1..64 threads incl. more threads than pixels and thread counts exceeding the strip width + 2
  * work buffer pre-filled with every direction code 0..9; buffers left by the previous call on another image
  * the stress images (serpentine = one ascent path through half the image, ridges, noise, ...) and a larger frame
    through sparse_localmaxlabel / sparseframe.sparse_localmax: full listing, threshold, random and ascent-closed
    masks; coordinates also at the top of the uint16 range; values of every sign class incl. <= -1e10
  * clause "sparse = same partition as dense on the same pixels" judged on the REAL outputs of both kernels whenever
    the listed set is closed under the dense ascent (decided from the image)
  * cImageD11.sparse_smooth / sparseframe.sparse_smooth directly (16x16 and other shapes, integers < 2^20 so that
    the 1/16 weights are exact in binary32) and sparse_localmaxlabel on the smoothed signal (what lmlabel does)
Finding matcher: C13-sparse-mvlow-sentinel (sparse_localmaxlabel mislabels pixels whose values are <= -1e10).
"""
import os, sys, json, subprocess, time
import numpy as np
import common
import c13_replay
import c13_calls
import c13_scan

PROP = "C13"
RACE_ID = "C13-walk-race"
MVLOW_ID = "C13-sparse-mvlow-sentinel"
MVLOW_WHAT = ("sparse_localmaxlabel starts the neighbour maximum at MV_LOW = -1e10 (src/sparse_image.c): pixels with values "
              "<= -1e10 are not attached to / not stolen by their larger neighbours (false maxima)")


def report(chk, msg, case):
    """a problem string of c13_replay.run_case / of the sparse families: known finding (structural tag) or violation"""
    if msg.startswith(c13_replay.MVLOW_TAG):
        n = chk.notes["sparse_mismatches_with_values_le_mvlow"] = chk.notes.get("sparse_mismatches_with_values_le_mvlow", 0) + 1
        if chk.finding(MVLOW_ID) is not None:
            chk.known_finding(MVLOW_ID, MVLOW_WHAT)
        elif n <= 3:            # one class of failure: the first few are reported, all are counted
            chk.violation(msg, case)
    else:
        chk.violation(msg, case)


def merge_stats(dst, src):
    for k, v in src.items():
        if isinstance(v, dict):
            d = dst.setdefault(k, {})
            for kk, vv in v.items():
                d[kk] = d.get(kk, 0) + vv
        else:
            dst[k] = dst.get(k, 0) + v


def lm_cfg(ns, nf, family, V, P):
    return common.write_cfg(os.path.join(common.scratch(), "localmax_%dx%d_%s.cfg" % (ns, nf, family)),
                            constants={"NS": ns, "NF": nf, "FAMILY": '"%s"' % family, "V": V, "P": P, "EmitOn": True},
                            invariants=["NoPoisonRead", "Defined", "BorderZero", "SteepestAscent", "Count",
                                        "SparseAgrees", "Emit"])


def par_cfg(n, nt, fixed, reread, invs=("Correct", "FlagImpliesLabel", "RangesTile"), teams=None, blocks="team"):
    """teams = the team sizes the runtime may deliver for the request nt (default: exactly nt); blocks = which of the
    two sizes cuts the per-thread blocks ("team": the code; "max": the variant that uses omp_get_max_threads())"""
    teams = set(teams) if teams else {nt}
    return common.write_cfg(os.path.join(common.scratch(), "lmpar_%d_%d_%s_%s_%s_%s_%s.cfg" % (
        n, nt, fixed, reread, "-".join(str(t) for t in sorted(teams)), blocks, "-".join(invs))),
                            constants={"N": n, "NT": nt, "FIXED": fixed, "REREAD": reread, "POISON": 99,
                                       "TEAMS": teams, "BLOCKS": '"%s"' % blocks},
                            invariants=list(invs))


def definition(img, pointers=False):
    """steepest-ascent labels by the independent definition (numpy); None if some 3x3 block has a tie.
    pointers=True: also the uphill pointer of every pixel (flat index; border pixels point to themselves)"""
    ns, nf = img.shape
    best = np.full(img.shape, -1, np.int64)
    bestv = np.full(img.shape, -np.inf)
    tie = np.zeros(img.shape, bool)
    idx = np.arange(ns * nf).reshape(ns, nf)
    for dr in (-1, 0, 1):
        for dc in (-1, 0, 1):
            sh = np.full(img.shape, -np.inf)
            si = np.full(img.shape, -1, np.int64)
            rs = slice(max(0, -dr), ns - max(0, dr))
            cs = slice(max(0, -dc), nf - max(0, dc))
            rd = slice(max(0, dr), ns - max(0, -dr))
            cd = slice(max(0, dc), nf - max(0, -dc))
            sh[rs, cs] = img[rd, cd]
            si[rs, cs] = idx[rd, cd]
            gt = sh > bestv
            eq = (sh == bestv) & (si >= 0)
            tie = (tie & ~gt) | eq
            best = np.where(gt, si, best)
            bestv = np.where(gt, sh, bestv)
    interior = np.zeros(img.shape, bool)
    interior[1:-1, 1:-1] = True
    if (tie & interior).any():
        return None
    ptr = np.where(interior, best, idx).ravel()
    ptr0 = ptr
    # pointer jumping to the terminal
    for _ in range(64):
        nxt = ptr[ptr]
        if np.array_equal(nxt, ptr):
            break
        ptr = nxt
    ismax = (ptr == np.arange(ns * nf)) & interior.ravel()
    rank = np.cumsum(ismax) * ismax
    lab = rank[ptr]
    lab[~interior.ravel()] = 0
    if pointers:
        return lab.reshape(ns, nf).astype(np.int32), int(ismax.sum()), ptr0
    return lab.reshape(ns, nf).astype(np.int32), int(ismax.sum())


def sparse_definition(vals, listed):
    """the sparse variant's meaning on a listed pixel set (numpy, any size): every listed pixel points to the largest
    LISTED pixel of its 3x3 block (clipped at the image edge), labels = rank in list (raster) order of the terminal
    maximum.  Returns (labels of the listed pixels in raster order, number of maxima) or None when some listed pixel's
    block has a tie among listed pixels (result then implementation defined)."""
    ns, nf = vals.shape
    p = np.full((ns + 2, nf + 2), -np.inf)
    p[1:-1, 1:-1] = np.where(listed, vals.astype(np.float64), -np.inf)
    flat = np.arange(ns * nf).reshape(ns, nf)
    best = np.full((ns, nf), -np.inf)
    cnt = np.zeros((ns, nf), np.int64)
    up = flat.copy()
    for dr in (-1, 0, 1):
        for dc in (-1, 0, 1):
            sh = p[1 + dr:1 + dr + ns, 1 + dc:1 + dc + nf]
            gt = sh > best
            eq = (sh == best) & (sh > -np.inf)
            cnt = np.where(gt, 1, cnt + eq)
            up = np.where(gt, flat + dr * nf + dc, up)
            best = np.where(gt, sh, best)
    if (cnt[listed] != 1).any():
        return None
    lf = listed.ravel()
    ptr = np.where(lf, up.ravel(), np.arange(ns * nf))
    ismax = lf & (ptr == np.arange(ns * nf))
    for _ in range(64):
        nxt = ptr[ptr]
        if np.array_equal(nxt, ptr):
            break
        ptr = nxt
    rank = np.cumsum(ismax) * ismax
    return rank[ptr][lf].astype(np.int32), int(ismax.sum())


def smooth16_definition(rows, cols, vals):
    """16 x (sparse_smooth's meaning) in exact integers: weight 4 for the pixel itself, 2 for listed edge neighbours,
    1 for listed corner neighbours; pixels that are not listed contribute nothing"""
    at = {(int(r), int(c)): int(v) for r, c, v in zip(rows, cols, vals)}
    out = []
    for (r, c) in zip(rows, cols):
        r, c = int(r), int(c)
        t = 0
        for dr in (-1, 0, 1):
            for dc in (-1, 0, 1):
                w = 4 if (dr == 0 and dc == 0) else (2 if (dr == 0 or dc == 0) else 1)
                t += w * at.get((r + dr, c + dc), 0)
        out.append(t)
    return np.array(out, np.int64)


def stress_images(tier, rng):
    out = []
    shapes = [(40, 40), (64, 48), (31, 97)] if tier == "quick" else [(64, 64), (100, 130), (200, 200), (33, 301), (257, 19)]
    for (a, b) in shapes:
        r, c = np.mgrid[0:a, 0:b]
        out.append(("ramp_diag", (r * b + c).astype(np.float32)))
        out.append(("ramp_vert", (r * 1000 + (c * 7) % 13).astype(np.float32)))
        out.append(("ramp_up", ((a - r) * 1000 + (c * 5) % 11).astype(np.float32)))
        out.append(("ridges", (np.minimum(r, a - r) * 500 + ((c * 37) % 101) + 0.001 * (r * b + c)).astype(np.float32)))
        noise = rng.permutation(a * b).reshape(a, b).astype(np.float32)
        out.append(("noise", noise))
        out.append(("serpentine", serpentine(a, b, rng)))
        out.append(("serpentine_T", np.ascontiguousarray(serpentine(b, a, rng).T)))
        sm = (np.sin(r / 7.0) + np.cos(c / 5.0)) * 1000
        out.append(("smooth", (sm + 0.0001 * noise).astype(np.float32)))
    return out


def serpentine(a, b, rng):
    """one ridge winding through the whole image (ridge rows 1,3,5,... joined alternately at the right and left end):
    the ascent path is ~ a*b/2 steps long, far longer than a + b, and crosses every thread's block"""
    im = rng.permutation(a * b).reshape(a, b).astype(np.float64)          # distinct background values < a*b
    k = a * b + 10
    rows = list(range(1, a - 1, 2))
    for n, r in enumerate(rows):
        cols = range(1, b - 1) if n % 2 == 0 else range(b - 2, 0, -1)
        for c in cols:
            im[r, c] = k
            k += 1
        if n + 1 < len(rows):
            cend = b - 2 if n % 2 == 0 else 1
            im[r + 1, cend] = k
            k += 1
    return im.astype(np.float32) if k < 2 ** 24 else im.astype(np.float32)


def gap_patterns(tier, rng):
    """sparse patterns with gaps (empty rows, row starts right of the previous row's end, isolated pixels): tie-free
    random values; expectation from the abstract definition (c13_replay.expected_sparse)"""
    out = []
    n = 300 if tier == "quick" else 3000
    for t in range(n):
        ns, nf = int(rng.integers(3, 9)), int(rng.integers(3, 9))
        vals = rng.permutation(ns * nf).reshape(ns, nf).astype(np.float32) + 1
        kind = t % 4
        m = np.zeros((ns, nf), bool)
        if kind == 0:                       # random fill
            m = rng.random((ns, nf)) < rng.choice([0.2, 0.5, 0.8])
        elif kind == 1:                     # bands: occupied rows separated by empty rows, staircase column runs
            c = 0
            for r in range(0, ns, int(rng.integers(2, 4))):
                w = int(rng.integers(1, 4))
                m[r, c:min(nf, c + w)] = True
                c = min(nf - 1, c + w)
        elif kind == 2:                     # every other row full
            m[::2, :] = True
        else:                               # staircase touching only at corners, with an empty row in between
            for r in range(ns):
                if r % 3 != 1:
                    c0 = min(nf - 1, (r * 2) % nf)
                    m[r, c0:min(nf, c0 + 2)] = True
        if m.sum() >= 1:
            out.append((vals, m))
    return out


def run_gap_patterns(chk, tier, mods):
    cImageD11, sparseframe = mods
    rng = np.random.default_rng(common.seed() + 1313)
    n = 0
    for vals, m in gap_patterns(tier, rng):
        ns, nf = vals.shape
        es = c13_replay.expected_sparse(vals.ravel().tolist(), ns, nf, m)
        if es is None:
            continue
        elab, en = es
        es2 = sparse_definition(vals, m)        # the two independent statements of the definition must agree
        if es2 is None or es2[1] != en or es2[0].tolist() != elab:
            raise common.MachineryError("sparse_definition and c13_replay.expected_sparse disagree on %s / %s" % (vals.tolist(), m.tolist()))
        ii, jj = np.nonzero(m)
        v = vals[m]
        n += 1
        chk.case(("gap", vals.tobytes(), m.tobytes()))
        chk.traces += 1
        for fill in (-123.0, 3.0e38):           # previous content of the work buffers
            sl = np.full(len(v), c13_replay.POISON, np.int32)
            mv = np.full(len(v), fill, np.float32)
            imv = np.full(len(v), c13_replay.POISON, np.int32)
            n2 = cImageD11.sparse_localmaxlabel(v, ii.astype(np.uint16), jj.astype(np.uint16), mv, imv, sl)
            if n2 != en or sl.tolist() != elab:
                chk.violation("sparse_localmaxlabel on a pattern with gaps (work buffers pre-filled with %g): labels %s (n=%d), "
                              "steepest-ascent definition %s (n=%d)" % (fill, sl.tolist(), n2, elab, en),
                              {"gap_pattern": {"img": vals.tolist(), "mask": m.astype(int).tolist()}})
                break
        if len(chk.violations) > 10:
            break
    chk.notes["sparse_gap_patterns"] = n


# OpenMP environments of the child processes: (environment, thread requests).  A request 0 = the setter is not called,
# the team size comes from the environment alone; "all" = cimaged11_omp_set_num_threads(1..64).  In every one of them but
# the last the runtime DELIVERS another team than omp_get_max_threads() says for some requests.
OMP_ENVS = [({"OMP_NUM_THREADS": "8", "OMP_THREAD_LIMIT": "3"}, [0, 1, 2, 3, 5, 8, 16, 64]),
            ({"OMP_NUM_THREADS": "16", "OMP_DYNAMIC": "true"}, [0, 2, 3, 7, 16, 64]),
            ({"OMP_THREAD_LIMIT": "2"}, "all"),
            ({"OMP_NUM_THREADS": "6", "OMP_THREAD_LIMIT": "1"}, [0, 2, 6, 64]),
            ({"OMP_NUM_THREADS": "4,2", "OMP_THREAD_LIMIT": "5", "OMP_DYNAMIC": "true"}, [0, 3, 4, 5, 9, 64]),
            ({"OMP_NUM_THREADS": "1"}, [0, 4])]
HOOK_ENVS = [({"OMP_NUM_THREADS": "8", "OMP_THREAD_LIMIT": "3"}, [0, 2, 3, 7, 64]),
             ({"OMP_THREAD_LIMIT": "2"}, [0, 2, 3, 7, 64]),
             ({"OMP_NUM_THREADS": "16", "OMP_DYNAMIC": "true"}, [0, 3, 64])]
OMP_VARS = ("OMP_NUM_THREADS", "OMP_THREAD_LIMIT", "OMP_DYNAMIC", "OMP_SCHEDULE", "OMP_NESTED", "OMP_MAX_ACTIVE_LEVELS",
            "OMP_PROC_BIND", "OMP_PLACES", "GOMP_CPU_AFFINITY")


def env_tag(envx):
    return " ".join("%s=%s" % kv for kv in sorted(envx.items())) if envx else "ordinary"


def omp_env(shadow, envx):
    env = dict(os.environ, PYTHONPATH=shadow, NUMBA_CACHE_DIR=os.path.join(common.scratch(), "numba"), OMP_WAIT_POLICY="passive")
    for v in OMP_VARS + ("IMAGED11_VERIF_TRACE",):
        env.pop(v, None)
    env.update(envx or {})
    return env


def openmp_environments(chk, tier, small_cases):
    """OpenMP configurations: the result may not depend on how many threads the runtime really delivers.  The thread sweep
    (stress images, strips; dirty buffers) and a share of the TLC-emitted small cases run in child processes started under
    OMP_ENVS (normal build); judged here against the steepest-ascent definition / the specification's labels"""
    shadow = common.build_shadow("normal")
    rng = np.random.default_rng(common.seed() + 1399)
    imgs = [(n, im) for n, im in stress_images("quick", rng)]
    for (a, b) in [(3, 17), (17, 3), (3, 200), (345, 3), (4, 64)] + ([] if tier == "quick" else [(211, 5), (5, 300), (3, 3)]):
        imgs += strip_images(a, b, rng)[:4]
    if tier != "quick":
        imgs += [(n, im) for n, im in stress_images("thorough", rng) if im.size <= 20000]
    keep = []
    for n, im in imgs:
        dd = definition(im)
        if dd is not None:
            keep.append((n, im, dd[0], dd[1]))
    d = os.path.join(common.scratch(), "ompenv")
    os.makedirs(d, exist_ok=True)
    here = os.path.dirname(os.path.dirname(os.path.abspath(__file__)))
    done = {}
    nviol = 0
    plans = {}

    def launch(ke):
        envx, reqs = OMP_ENVS[ke]
        arrs = {"names": np.array([n for n, _, _, _ in keep])}
        plan = []
        for k, (n, im, exp, nexp) in enumerate(keep):
            if reqs == "all":       # the full sweep 1..64 on a third of the images (rotating with the seed), a short one elsewhere
                r = list(range(0, 65)) if (((k + common.seed()) % 3 == 0 and im.size <= 5000) or im.size < 700) else [0, 3, 64]
            else:
                r = list(reqs)
            arrs["img_%d" % k] = im
            arrs["requests_%d" % k] = np.array(r)
            plan.append(r)
        plans[ke] = plan
        ppath = os.path.join(d, "plan_%d.npz" % ke)
        opath = os.path.join(d, "out_%d.npz" % ke)
        np.savez(ppath, **arrs)
        return subprocess.run([common.PY, os.path.join(here, "c13_env_child.py"), ppath, opath], env=omp_env(shadow, envx),
                              stdout=subprocess.PIPE, stderr=subprocess.PIPE, text=True, timeout=1800), opath
    from concurrent.futures import ThreadPoolExecutor
    with ThreadPoolExecutor(3) as ex:          # the children side by side (most of them are limited to 1-3 threads)
        ran = list(ex.map(launch, range(len(OMP_ENVS))))
    for ke, (envx, reqs) in enumerate(OMP_ENVS):
        tag = env_tag(envx)
        plan = plans[ke]
        p, opath = ran[ke]
        if p.returncode == 3:
            raise common.MachineryError("vacuity: child under %s: %s" % (tag, p.stderr[-600:]))
        if p.returncode != 0 or not os.path.exists(opath):
            raise common.MachineryError("C13 child under %s failed rc=%s: %s" % (tag, p.returncode, p.stderr[-1500:]))
        out = np.load(opath)
        ncalls = 0
        for k, (n, im, exp, nexp) in enumerate(keep):
            labs, npks, maxt = out["lab_%d" % k], out["npk_%d" % k], out["maxthr_%d" % k]
            for j, r in enumerate(plan[k]):
                chk.case(("ompenv", ke, n, im.shape, r))
                for b in (0, 1):
                    ncalls += 1
                    lab = labs[j, b]
                    if int(npks[j, b]) == nexp and np.array_equal(lab, exp):
                        continue
                    nviol += 1
                    if nviol <= 8:
                        chk.violation("[OpenMP environment %s] localmaxlabel(%s %dx%d), %s (cimaged11_omp_get_max_threads() = %d), "
                                      "%s: %d pixels differ from the sequential steepest-ascent result (count %d, definition %d)"
                                      % (tag, n, im.shape[0], im.shape[1],
                                         "%d threads requested" % r if r else "team size left to the environment", int(maxt[j]),
                                         "constant buffer fills" if b == 0 else "buffers as another call left them",
                                         int((lab != exp).sum()), int(npks[j, b]), nexp),
                                      {"omp_env": envx, "stress": n, "shape": list(im.shape), "threads": r, "seed": common.seed(),
                                       "first_diffs": np.argwhere(lab != exp)[:10].tolist()})
        chk.traces += 1
        done[tag] = {"images": len(keep), "calls": ncalls, "max_threads_at_start": int(out["start_max_threads"][0])}
    chk.notes["openmp_environments"] = done
    chk.notes["openmp_environment_mismatches"] = nviol
    # the TLC-emitted small cases (exact labels of the specification) under the two limiting environments
    if small_cases:
        for ke, envx in enumerate([OMP_ENVS[2][0], OMP_ENVS[0][0]]):
            sel = small_cases[ke::2]
            replay_child(chk, sel, "env%d" % ke, "normal", envx)


def hook_images(tier, rng):
    imgs = []
    shapes = [(5, 6), (8, 9), (12, 12), (9, 14)] if tier == "quick" else [(5, 6), (8, 9), (12, 12), (9, 14), (16, 21), (25, 13), (30, 30)]
    for (a, b) in shapes:
        r, c = np.mgrid[0:a, 0:b]
        imgs.append(("ramp_diag", (r * b + c).astype(np.float32)))
        imgs.append(("ramp_up", ((a - r) * 1000 + (c * 5) % 11 + 0.001 * c).astype(np.float32)))
        imgs.append(("noise", rng.permutation(a * b).reshape(a, b).astype(np.float32)))
        imgs.append(("serpentine", serpentine(a, b, rng)))
    keep = [(n, im) for (n, im) in imgs if definition(im) is not None]
    # strips (single interior row / column) and more threads than pixels (64 > 30 = 5x6, > 51 = 3x17): empty ranges
    nstrip = 0
    for (a, b) in [(3, 17), (17, 3)]:
        for n, im in strip_images(a, b, rng)[:4]:
            if definition(im) is not None:
                keep.append((n, im))
                nstrip += 1
    return keep, nstrip


def hook_launch(shadow, keep, threads_of, envx, idx):
    """one child of the hooks build under the OpenMP environment envx (None = the ordinary one) -> (process, directory)"""
    d = os.path.join(common.scratch(), "hooktraces_%d" % idx)
    os.makedirs(d, exist_ok=True)
    arrs = {"names": np.array([n for n, _ in keep])}
    for k, (n, im) in enumerate(keep):
        arrs["img_%d" % k] = im
        arrs["threads_%d" % k] = np.array(threads_of(im))
    np.savez(os.path.join(d, "cases.npz"), **arrs)
    here = os.path.dirname(os.path.dirname(os.path.abspath(__file__)))
    p = subprocess.run([common.PY, os.path.join(here, "c13_hooks_child.py"), os.path.join(d, "cases.npz"), d],
                       env=omp_env(shadow, envx), stdout=subprocess.PIPE, stderr=subprocess.PIPE, text=True, timeout=1800)
    return p, d


def hook_collect(chk, ran, keep, threads_of, envx, recs, meta, st):
    """the thread logs of one child are appended to recs / meta.  Ordinary environment: one log per requested thread
    (vacuity guard).  Other environments: the number of logs IS the delivered team."""
    tag = env_tag(envx)
    p, d = ran
    st["children"] += 1
    if p.returncode == 3:
        raise common.MachineryError("vacuity: hooks child (%s): %s" % (tag, p.stderr[-600:]))
    if p.returncode != 0:
        raise common.MachineryError("hooks child (%s) failed: %s" % (tag, p.stderr[-1500:]))
    for k, (name, im) in enumerate(keep):
        exp, nexp = definition(im)
        ns, nf = im.shape
        off = {0: 0, 1: -1 - nf, 2: -1, 3: -1 + nf, 4: -nf, 5: 0, 6: nf, 7: 1 - nf, 8: 1, 9: 1 + nf}
        for nt in threads_of(im):
            path = os.path.join(d, "trace_%d_%d.txt" % (k, nt))
            if not os.path.exists(path):
                raise common.MachineryError("hooks build wrote no trace (%s): hooks missing from src/localmaxlabel.c?" % path)
            lvals = {}
            evs = {}
            ranges = {}
            divs = {}
            for line in open(path):
                w = line.split()
                if w[0] == "P":
                    lvals[int(w[1])] = int(w[2])
                elif w[0] == "T":
                    ranges[int(w[1])] = (int(w[3]), int(w[4]))
                    divs[int(w[1])] = int(w[2])
                    evs.setdefault(int(w[1]), [])
                elif w[0] == "E":
                    evs[int(w[1])].append([int(w[2]), int(w[3]) + 1, int(w[4])])
            N = ns * nf
            team = len(ranges)
            case = {"hooks": True, "image": name, "shape": [ns, nf], "threads": nt, "img": im.tolist(), "omp_env": envx or {}}
            if envx is None:
                # vacuity guard: the parallel region really ran with the requested number of threads (one log per thread)
                if sorted(ranges) != list(range(nt)):
                    raise common.MachineryError("vacuity: %d threads requested for %s %dx%d, the walk region logged threads %s"
                                                % (nt, name, ns, nf, sorted(ranges)))
                st["more"] += int(nt > N)
                st["runs"] += 1
            else:
                if team == 0 or sorted(ranges) != list(range(team)):
                    raise common.MachineryError("hooks child (%s): %s %dx%d request %d: the walk region logged threads %s"
                                                % (tag, name, ns, nf, nt, sorted(ranges)))
                e = st["env"].setdefault(tag, {"runs": 0, "delivered_team_smaller_than_requested": 0, "teams": {}})
                asked = nt if nt else int(str((envx or {}).get("OMP_NUM_THREADS", "0")).split(",")[0])
                e["runs"] += 1
                e["delivered_team_smaller_than_requested"] += int(asked > 0 and team < asked)
                e["teams"]["%d->%d" % (asked, team)] = e["teams"].get("%d->%d" % (asked, team), 0) + 1
            # (noted, not judged: the ranges are those of LocalMaxPar's Lo / Hi cut with the DELIVERED team size)
            st["model"] += int(all(ranges[t] == ((N * t) // team, (N * (t + 1)) // team) and divs[t] == team for t in range(team)))
            tgt = [0 if lvals[x] == 0 else x + off[lvals[x]] + 1 for x in range(N)]
            # RangesTile on what the property needs: every pending pixel lies in the range of exactly one thread that RAN
            owners = np.zeros(N, np.int64)
            for (lo, hi) in ranges.values():
                owners[max(lo, 0):max(hi, 0)] += 1
            pending = np.array([t != 0 for t in tgt])
            if (owners[pending] != 1).any() and st["nviol"] < 8:
                st["nviol"] += 1
                x = int(np.flatnonzero(pending & (owners != 1))[0])
                chk.violation("[OpenMP environment %s] localmaxlabel (hooks build) %s %dx%d, %s: the ranges %s of the %d threads "
                              "that ran (divisor logged: %s) do not tile the image: pending pixel %d is in the range of %d threads "
                              "(LocalMaxPar RangesTile over the delivered team)"
                              % (tag, name, ns, nf, "%d threads requested" % nt if nt else "team size left to the environment",
                                 [list(ranges[t]) for t in sorted(ranges)][:8], team, sorted(set(divs.values())), x, int(owners[x])),
                              case)
            final = [int(v) for v in exp.ravel()]
            lab = np.load(os.path.join(d, "labels_%d_%d.npy" % (k, nt)))
            if not np.array_equal(lab, exp) and st["nviol"] < 8:
                st["nviol"] += 1
                chk.violation("[OpenMP environment %s] localmaxlabel (hooks build) %s %dx%d, %s (%d ran), differs from the sequential "
                              "result at %d pixels" % (tag, name, ns, nf, "%d threads requested" % nt if nt else
                                                       "team size left to the environment", team, int((lab != exp).sum())), case)
            for tid, (lo, hi) in ranges.items():
                rid = "%s_%dx%d_nt%d_t%d%s" % (name, ns, nf, nt, tid, "" if envx is None else "_env%d" % st["children"])
                recs.append({"id": rid, "N": N, "lo": lo + 1, "hi": hi + 1, "tgt": tgt, "final": final, "ev": evs[tid]})
                meta[rid] = dict(case, thread=tid)


def hook_traces(chk, tier):
    """deterministic binding of LocalMaxPar's thread program to the code: the hooks build logs every thread's
    writes in program order; TLC validates each thread's log against TraceWalk.tla.  Ordinary environment and the
    limiting OpenMP environments HOOK_ENVS (delivered team = number of logs)."""
    shadow = common.build_shadow("hooks")
    rng = np.random.default_rng(common.seed() + 131)
    keep, nstrip = hook_images(tier, rng)
    recs = []
    meta = {}
    st = {"children": 0, "more": 0, "runs": 0, "model": 0, "env": {}, "nviol": 0}

    def threads_of(im):
        return [2, 3, 4, 7, 64] if im.size <= 60 else [2, 3, 4, 7]
    jobs = [(None, threads_of)] + [(envx, (lambda im, reqs=reqs: [r for r in reqs if r != 64 or im.size <= 60])) for envx, reqs in HOOK_ENVS]
    from concurrent.futures import ThreadPoolExecutor
    with ThreadPoolExecutor(2) as ex:
        ran = list(ex.map(lambda kj: hook_launch(shadow, keep, kj[1][1], kj[1][0], kj[0]), enumerate(jobs)))
    for (envx, thr), r in zip(jobs, ran):
        hook_collect(chk, r, keep, thr, envx, recs, meta, st)
    nmore, nruns = st["more"], st["runs"]
    path = os.path.join(common.scratch(), "trace_walk.ndjson")
    with open(path, "w") as f:
        for r in recs:
            f.write(json.dumps(r) + "\n")
    cfg = common.write_cfg(os.path.join(common.scratch(), "tracewalk.cfg"))
    res = common.run_tlc("TraceWalk", cfg, workers=1, timeout=1800, env_extra={"TRACE_FILE": path}, heap="8g")
    chk.add_tlc("TraceWalk %d thread logs" % len(recs), res)
    verdicts = {}
    for line in res.printed:
        v = json.loads(line)
        verdicts[v["id"]] = v
    if len(verdicts) != len(recs):
        raise common.MachineryError("TraceWalk: %d verdicts for %d thread logs\n%s" % (len(verdicts), len(recs), res.stdout[-1500:]))
    nev = 0
    nrej = 0
    for r in recs:
        v = verdicts[r["id"]]
        nev += len(r["ev"])
        chk.case(("walk", r["id"]), nontrivial=len(r["ev"]) > 0)
        chk.traces += 1
        if not v["ok"]:
            nrej += 1
            if nrej <= 12:
                nxt = r["ev"][v["consumed"]] if v["consumed"] < len(r["ev"]) else None
                chk.violation("thread write log rejected by TraceWalk: %s (thread log %s, after %d events, next %s)" % (
                    v["why"], r["id"], v["consumed"], nxt), meta[r["id"]])
    chk.notes["hook_thread_logs"] = len(recs)
    chk.notes["hook_write_events"] = nev
    chk.notes["hook_runs_more_threads_than_pixels"] = nmore
    chk.notes["hook_strip_images"] = nstrip
    chk.notes["hook_runs_thread_count_confirmed_by_logs"] = nruns
    chk.notes["hook_runs_ranges_equal_LocalMaxPar_LoHi"] = st["model"]
    chk.notes["hook_openmp_environments"] = st["env"]
    if nmore < 4 and not chk.violations:
        raise common.MachineryError("vacuity: no hooks run with more threads than pixels")
    if not chk.violations:
        lim = [t for t in st["env"] if "OMP_THREAD_LIMIT" in t]
        if len(lim) < 2 or any(st["env"][t]["delivered_team_smaller_than_requested"] < 10 for t in lim):
            raise common.MachineryError("vacuity: the limiting OpenMP environments did not deliver smaller teams than requested: %s"
                                        % st["env"])
    return [r for r in recs if verdicts[r["id"]]["ok"]]


def strip_images(a, b, rng):
    """images for boundary shapes (one or two interior rows / columns): the border is low (distinct negative noise) so
    that the interior ascent stays inside; `inner_up` / `inner_down` give ONE ascent path along the whole strip
    (towards later / earlier pixels: it crosses every thread's range), `inner_saw` a maximum every 7 pixels"""
    r, c = np.mgrid[0:a, 0:b]
    k = (r * b + c).astype(np.float64)
    inner = np.zeros((a, b), bool)
    inner[1:-1, 1:-1] = True
    base = -(1.0 + rng.permutation(a * b).reshape(a, b))
    out = [("strip_inner_up", np.where(inner, k + 1, base)),
           ("strip_inner_down", np.where(inner, a * b - k, base)),
           ("strip_inner_saw", np.where(inner, (k % 7) * 4096 + k + 1, base)),
           ("strip_inner_noise", np.where(inner, 1.0 + rng.permutation(a * b).reshape(a, b), base)),
           ("strip_noise", rng.permutation(a * b).reshape(a, b).astype(np.float64)),
           ("strip_ramp_diag", k)]
    return [(n, np.ascontiguousarray(im, np.float32)) for n, im in out]


def boundary_shapes(tier, rng):
    """3xN / Nx3 / 4xN / Nx4 / Nx5: fixed ones (3x3, 345x3 and 211x5 are > 1024 pixels with remainders npx % nt that
    exceed the strip width for nt = 7, 16, 31, 64) and seeded lengths"""
    shapes = [(3, 3), (3, 4), (4, 3), (3, 200), (200, 3), (4, 64), (64, 4), (345, 3), (3, 345), (211, 5)]
    n = 2 if tier == "quick" else 8
    for _ in range(n):
        N = int(rng.integers(5, 700))
        shapes += [(3, N), (N, 3)]
    if tier != "quick":
        shapes += [(1001, 20), (20, 1001), (5, 211), (3, 5), (5, 3), (4, 4)]
    return shapes


WRK_FILLS = [77, 0, 5, 1, 2, 3, 4, 6, 7, 8, 9, 255]     # previous content of the work buffer: all direction codes
LAB_FILLS = [c13_replay.POISON, 999999, 0, 12345]
BOUNDARY_THREADS = [1, 2, 3, 5, 7, 16, 31, 64]


def stress(chk, tier, cImageD11):
    rng = np.random.default_rng(common.seed() + 13)
    threads = [1, 2, 3, 4, 8, 16, 32, 64]
    reps = 3 if tier == "quick" else 25
    old = cImageD11.cimaged11_omp_get_max_threads()
    st = {"nrun": 0, "boundary_runs": 0, "boundary_runs_more_threads_than_pixels": 0, "reused_buffer_runs": 0,
          "boundary_runs_with_interior_maxima": 0, "stop": False}
    wrk_fills = set()
    prev = {}               # shape -> {image name: (labels, work) as the last call on that image left them}

    def one(name, img, exp, nexp, nt, rep, boundary):
        k = st["nrun"]
        poison = LAB_FILLS[k % len(LAB_FILLS)]
        wfill = WRK_FILLS[k % len(WRK_FILLS)]
        others = [v for nm, v in prev.get(img.shape, {}).items() if nm != name]
        reuse = (k % 5 == 4) and len(others) > 0
        if reuse:               # history: buffers as a call on ANOTHER image of this shape left them (frame-to-frame re-use)
            lab, wrk = [x.copy() for x in others[k % len(others)]]
            st["reused_buffer_runs"] += 1
        else:
            lab = np.full(img.shape, poison, np.int32)
            wrk = np.full(img.shape, wfill, np.uint8)
            wrk_fills.add(wfill)
        before = lab.copy()
        n = cImageD11.localmaxlabel(img, lab, wrk)
        prev.setdefault(img.shape, {})[name] = (lab, wrk)
        st["nrun"] += 1
        if boundary:
            st["boundary_runs"] += 1
            st["boundary_runs_more_threads_than_pixels"] += int(nt > img.size)
            st["boundary_runs_with_interior_maxima"] += int(nexp > 0)
        chk.case((name, img.shape, nt, rep))
        if n == nexp and np.array_equal(lab, exp):
            return
        diff = np.argwhere(lab != exp)
        stale = all(lab[tuple(p)] == before[tuple(p)] for p in diff) and n == nexp
        what = ("localmaxlabel(%s %dx%d) with %d threads differs from the sequential steepest-ascent result "
                "at %d pixels (count %d vs %d)%s" % (name, img.shape[0], img.shape[1], nt, len(diff), n, nexp,
                                                    ": those pixels keep the previous buffer content" if stale else ""))
        case = {"stress": name, "shape": list(img.shape), "threads": nt, "rep": rep, "seed": common.seed(),
                "first_diffs": diff[:10].tolist(), "stale_buffer_content": bool(stale), "buffers_reused": bool(reuse)}
        if nt > 1 and stale and not boundary and chk.finding(RACE_ID):
            # structural match: only previous buffer content on pixels, valid labels elsewhere
            chk.known_finding(RACE_ID, "stale buffer content on pixels whose ascent path leaves the thread's range (threads >= 2)")
        else:
            chk.violation(what, case)
        if len(chk.violations) > 10:
            st["stop"] = True

    try:
        for name, img in stress_images(tier, rng):
            d = definition(img)
            if d is None:
                continue
            exp, nexp = d
            for nt in threads:
                c13_replay.set_threads(cImageD11, nt)
                for rep in range(reps if nt > 1 else 1):
                    one(name, img, exp, nexp, nt, rep, False)
                    if st["stop"]:
                        return st["nrun"]
        # boundary shapes with explicit threads (harness-only family: the model is covariant in the shape)
        shapes = boundary_shapes(tier, rng)
        for (a, b) in shapes:
            for name, img in strip_images(a, b, rng):
                d = definition(img)
                if d is None:
                    continue
                exp, nexp = d
                for nt in BOUNDARY_THREADS:
                    c13_replay.set_threads(cImageD11, nt)
                    one(name, img, exp, nexp, nt, 0, True)
                    if st["stop"]:
                        return st["nrun"]
    except c13_replay.ThreadsNotSet as e:
        raise common.MachineryError("vacuity: %s" % e)
    finally:
        cImageD11.cimaged11_omp_set_num_threads(old)
    chk.notes["stress_runs"] = st["nrun"]
    chk.notes["stress_thread_counts"] = threads
    chk.notes["stress_thread_counts_read_back"] = True
    chk.notes["stress_boundary_shapes"] = {"shapes": [list(x) for x in shapes], "threads": BOUNDARY_THREADS,
                                           "runs": st["boundary_runs"],
                                           "runs_more_threads_than_pixels": st["boundary_runs_more_threads_than_pixels"],
                                           "runs_with_interior_maxima": st["boundary_runs_with_interior_maxima"]}
    chk.notes["stress_work_buffer_prefills"] = sorted(wrk_fills)
    chk.notes["stress_runs_on_buffers_left_by_previous_call"] = st["reused_buffer_runs"]
    if st["boundary_runs_more_threads_than_pixels"] < 5 or st["reused_buffer_runs"] < 20 or len(wrk_fills) < len(WRK_FILLS):
        raise common.MachineryError("vacuity: boundary / buffer families of the stress runs were not exercised: %s" % st)
    return st["nrun"]


def call_sparse(cImageD11, v, ii, jj, fill):
    sl = np.full(len(v), c13_replay.POISON, np.int32)
    mv = np.full(len(v), fill, np.float32)
    imv = np.full(len(v), c13_replay.POISON, np.int32)
    n = cImageD11.sparse_localmaxlabel(np.ascontiguousarray(v, np.float32), ii, jj, mv, imv, sl)
    return n, sl


def sparse_stress(chk, tier, mods):
    """the stress images (long ascent paths, ridges, noise) and one larger frame through the sparse kernel and the
    sparse_frame route; expectation `sparse_definition`; plus the sparse / dense partition clause on the real outputs"""
    cImageD11, sparseframe = mods
    rng = np.random.default_rng(common.seed() + 1357)
    st = {"images": 0, "kernel_calls": 0, "frame_calls": 0, "tie_skipped": 0, "longest_ascent_path": 0,
          "largest_listing": 0, "masks": {}, "value_classes": {}, "offset_calls": 0, "partition_clause_judged": 0,
          "partition_clause_judged_pixels": 0, "calls_with_values_le_mvlow": 0}
    imgs = stress_images(tier, rng)
    big = (257, 300) if tier == "quick" else (1000, 1100)
    imgs.append(("serpentine_big", serpentine(big[0], big[1], rng)))
    imgs.append(("noise_big", rng.permutation(big[0] * big[1]).reshape(big).astype(np.float32)))
    old = cImageD11.cimaged11_omp_get_max_threads()
    try:
        c13_replay.set_threads(cImageD11, 3)
        for name, img in imgs:
            ns, nf = img.shape
            d = definition(img, pointers=True)
            inner = np.zeros(img.shape, bool)
            inner[1:-1, 1:-1] = True
            med = float(np.median(img))
            masks = [("full", np.ones(img.shape, bool)), ("interior", inner), ("threshold", img >= med),
                     ("random", rng.random(img.shape) < 0.6)]
            dense = None
            if d is not None:
                # listed set closed under the dense ascent: interior pixels above the cut whose basin is not background
                exp, nexp, ptr0 = d
                closed = inner & (exp > 0) & (img >= np.quantile(img, 0.3))
                lf = closed.ravel()
                if closed.any() and lf[ptr0[lf]].all():
                    masks.append(("ascent_closed", closed))
                    dense = np.full(img.shape, c13_replay.POISON, np.int32)
                    cImageD11.localmaxlabel(img, dense, np.full(img.shape, 77, np.uint8))
            st["images"] += 1
            for mname, m in masks:
                if m.sum() == 0:
                    continue
                ii, jj = np.nonzero(m)
                ii16, jj16 = ii.astype(np.uint16), jj.astype(np.uint16)
                # value classes: as given, all negative, mixed sign by rank, and the two classes around -1e10
                order = np.argsort(np.argsort(img[m], kind="stable"), kind="stable").astype(np.float64)   # ranks 0..n-1
                nn = float(len(order))
                classes = [("as_given", img[m]), ("negative_by_rank", order - nn), ("mixed_by_rank", order - nn // 2 - 0.5)]
                if len(order) < 4000:
                    classes += [("below_mvlow_by_rank", (order - nn - 1.0) * 1.0e7 - 1.0e10),
                                ("straddle_mvlow_by_rank", (order - nn // 2) * 1.0e7 - 1.0e10)]
                pos_ok = True
                for kc, (cname, vals) in enumerate(classes):
                    v = np.ascontiguousarray(vals, np.float32)
                    vimg = np.zeros(img.shape, np.float32)
                    vimg[m] = v
                    es = sparse_definition(vimg, m)
                    if es is None:
                        st["tie_skipped"] += 1
                        continue
                    elab, en = es
                    low = bool((v <= c13_replay.MV_LOW).any())
                    st["calls_with_values_le_mvlow"] += int(low)
                    for fill in ((-123.0, 3.0e38) if kc == 0 else ((-3.0e38, 0.0)[kc % 2],)):
                        n2, sl = call_sparse(cImageD11, v, ii16, jj16, fill)
                        st["kernel_calls"] += 1
                        chk.case(("sparse_stress", name, img.shape, mname, cname, fill))
                        if n2 != en or not np.array_equal(sl, elab):
                            if cname == "as_given":
                                pos_ok = False
                            bad = np.nonzero(sl != elab)[0]
                            tag = c13_replay.MVLOW_TAG if (low and pos_ok) else ""
                            report(chk, "%ssparse_localmaxlabel(%s %dx%d, listing '%s' of %d pixels, values '%s', work buffers "
                                   "pre-filled with %g): %d labels (n=%d) differ from the steepest-ascent definition (n=%d), "
                                   "first at listed pixel %s" % (tag, name, ns, nf, mname, len(v), cname, fill, len(bad), n2, en,
                                                                 bad[:1].tolist()),
                                   {"sparse_stress": name, "shape": [ns, nf], "mask": mname, "values": cname, "seed": common.seed()})
                    st["value_classes"][cname] = st["value_classes"].get(cname, 0) + 1
                    if kc == 0:
                        st["largest_listing"] = max(st["largest_listing"], len(v))
                        # the same listing at the top of the uint16 coordinate range
                        n4, sl4 = call_sparse(cImageD11, v, (ii + (65536 - ns)).astype(np.uint16),
                                               (jj + (65536 - nf)).astype(np.uint16), -123.0)
                        st["offset_calls"] += 1
                        if n4 != en or not np.array_equal(sl4, elab):
                            chk.violation("sparse_localmaxlabel(%s %dx%d, listing '%s') with the coordinates shifted to the top of "
                                          "the uint16 range (last row / column 65535) differs from the steepest-ascent definition"
                                          % (name, ns, nf, mname),
                                          {"sparse_stress": name, "shape": [ns, nf], "mask": mname, "offset": True, "seed": common.seed()})
                        fr = sparseframe.sparse_frame(ii16, jj16, (ns, nf), pixels={"intensity": v})
                        n3 = sparseframe.sparse_localmax(fr)
                        st["frame_calls"] += 1
                        if n3 != en or not np.array_equal(fr.pixels["localmax"], elab):
                            chk.violation("sparseframe.sparse_localmax(%s %dx%d, listing '%s') differs from the steepest-ascent "
                                          "definition" % (name, ns, nf, mname),
                                          {"sparse_stress": name, "shape": [ns, nf], "mask": mname, "frame": True, "seed": common.seed()})
                        if mname == "ascent_closed" and dense is not None:
                            st["partition_clause_judged"] += 1
                            st["partition_clause_judged_pixels"] += len(v)
                            dl = dense[m]
                            # same partition <=> the pairs (dense label, sparse label) form a bijection
                            pairs = np.unique(np.stack([dl.astype(np.int64), sl.astype(np.int64)]), axis=1)
                            if len(np.unique(pairs[0])) != pairs.shape[1] or len(np.unique(pairs[1])) != pairs.shape[1] or (dl == 0).any():
                                chk.violation("sparse and dense variants give different partitions of the listed pixels (%s %dx%d, "
                                              "%d listed pixels closed under the ascent): %d distinct label pairs for %d dense and "
                                              "%d sparse labels" % (name, ns, nf, len(v), pairs.shape[1], len(np.unique(pairs[0])),
                                                                    len(np.unique(pairs[1]))),
                                              {"sparse_stress": name, "shape": [ns, nf], "mask": mname, "partition": True,
                                               "seed": common.seed()})
                st["masks"][mname] = st["masks"].get(mname, 0) + 1
                if len(chk.violations) > 10:
                    break
            if d is not None and name.startswith("serpentine"):
                # length of the longest ascent chain (vacuity of "long paths"): pointer doubling with accumulated distances
                q = d[2].copy()
                dist = (q != np.arange(img.size)).astype(np.int64)
                for _ in range(64):
                    nd = dist + dist[q]
                    nq = q[q]
                    if np.array_equal(nq, q):
                        break
                    dist, q = nd, nq
                st["longest_ascent_path"] = max(st["longest_ascent_path"], int(dist.max()))
            if len(chk.violations) > 10:
                break
    except c13_replay.ThreadsNotSet as e:
        raise common.MachineryError("vacuity: %s" % e)
    finally:
        cImageD11.cimaged11_omp_set_num_threads(old)
    chk.notes["sparse_stress"] = st
    if not chk.violations and (st["partition_clause_judged"] < 5 or st["longest_ascent_path"] < 1000
                               or st["masks"].get("full", 0) < 10):
        raise common.MachineryError("vacuity: sparse stress families not exercised: %s" % st)


def smooth_routes(chk, tier, mods):
    """cImageD11.sparse_smooth and sparseframe.sparse_smooth directly, and sparse_localmaxlabel on the smoothed signal
    (the composition SparseScan.lmlabel(smooth=True) performs per frame).  Values are integers of magnitude < 2^20: every
    product with k/16 and every partial sum is then exact in binary32, so 16 x result must EQUAL the integer definition"""
    cImageD11, sparseframe = mods
    rng = np.random.default_rng(common.seed() + 1616)
    st = {"cases": 0, "kernel_calls": 0, "frame_calls": 0, "labelled_smoothed": 0, "labelled_smoothed_tie_skipped": 0,
          "cases_16x16": 0, "cases_negative_values": 0, "cases_top_of_uint16_range": 0}
    shapes = [(16, 16)] * (6 if tier == "quick" else 40) + [(3, 50), (40, 33), (50, 3), (1, 20), (20, 1), (2, 2)]
    cases = []
    for kk, (ns, nf) in enumerate(shapes):
        kind = kk % 6
        if kind == 0:
            m = np.ones((ns, nf), bool)
        elif kind == 1:
            m = rng.random((ns, nf)) < 0.5
        elif kind == 2:
            m = rng.random((ns, nf)) < 0.2
        elif kind == 3:
            m = np.zeros((ns, nf), bool)
            m[::2, :] = True                         # every other row: no vertical neighbours
        elif kind == 4:
            m = (np.add.outer(np.arange(ns), np.arange(nf)) % 2) == 0      # checkerboard: corner neighbours only
        else:
            m = rng.random((ns, nf)) < 0.8
        if m.sum() == 0:
            m[0, 0] = True
        vk = kk % 4
        if vk == 0:
            vals = rng.integers(1, 2 ** 20, size=(ns, nf))
        elif vk == 1:
            vals = rng.integers(-2 ** 20 + 1, 2 ** 20, size=(ns, nf))        # mixed sign
        elif vk == 2:
            vals = rng.integers(1, 3, size=(ns, nf))                          # the SparseScan models' alphabet {1, 2}
        else:
            vals = rng.permutation(ns * nf).reshape(ns, nf) + 1               # tie-free input
        off = (0, 0) if kk % 3 else (65536 - ns, 65536 - nf)
        cases.append((ns, nf, m, vals, off))
    # far apart columns on the same rows (column difference beyond 46340: its square does not fit an int)
    m = np.zeros((3, 50003), bool)
    m[0:3, 0:2] = True
    m[0:3, 50000:50003] = True
    cases.append((3, 50003, m, rng.integers(1, 2 ** 20, size=m.shape), (0, 0)))
    for (ns, nf, m, vals, off) in cases:
        ii, jj = np.nonzero(m)
        rows, cols = (ii + off[0]).astype(np.uint16), (jj + off[1]).astype(np.uint16)
        v = vals[m].astype(np.float32)
        e16 = smooth16_definition(rows, cols, vals[m])
        st["cases"] += 1
        st["cases_16x16"] += int((ns, nf) == (16, 16))
        st["cases_negative_values"] += int((vals[m] < 0).any())
        st["cases_top_of_uint16_range"] += int(off != (0, 0))
        chk.case(("smooth", ns, nf, m.tobytes()[:4000], vals[m].tobytes()[:4000], off))
        chk.traces += 1
        case = {"smooth_case": {"shape": [ns, nf], "rows": rows.tolist()[:600], "cols": cols.tolist()[:600],
                                "values": vals[m].tolist()[:600], "seed": common.seed()}}
        sm = None
        for fill in (3.0e38, -123.0):
            out = np.full(len(v), fill, np.float32)
            cImageD11.sparse_smooth(v, rows, cols, out)
            st["kernel_calls"] += 1
            if not np.array_equal(out.astype(np.float64) * 16, e16.astype(np.float64)):
                bad = np.nonzero(out.astype(np.float64) * 16 != e16)[0]
                chk.violation("cImageD11.sparse_smooth (%dx%d, %d pixels, output pre-filled with %g): 16 x result differs from the "
                              "weights 4/2/1 definition at %d pixels, first: pixel %d (row %d, col %d) gives %r, definition %d"
                              % (ns, nf, len(v), fill, len(bad), bad[0], rows[bad[0]], cols[bad[0]],
                                 float(out[bad[0]]) * 16, e16[bad[0]]), case)
                break
            sm = out
        if off == (0, 0):
            fr = sparseframe.sparse_frame(rows, cols, (ns, nf), pixels={"intensity": v})
        else:       # (sparse_frame accepts shapes and indices below 65535 only)
            fr = sparseframe.sparse_frame((ii + (65534 - ns)).astype(np.uint16), (jj + (65534 - nf)).astype(np.uint16),
                                          (65534, 65534), pixels={"intensity": v})
        out = sparseframe.sparse_smooth(fr)
        st["frame_calls"] += 1
        if not np.array_equal(np.asarray(out, np.float64) * 16, e16.astype(np.float64)):
            chk.violation("sparseframe.sparse_smooth (%dx%d, %d pixels): 16 x result differs from the weights 4/2/1 definition"
                          % (ns, nf, len(v)), case)
        if sm is not None and nf < 1000:
            # labelling of the smoothed signal: meaning = steepest ascent over the exact smoothed integers
            simg = np.zeros((ns, nf), np.float64)
            simg[m] = e16
            es = sparse_definition(simg, m)
            if es is None:
                st["labelled_smoothed_tie_skipped"] += 1
            else:
                n2, sl = call_sparse(cImageD11, sm, rows, cols, 3.0e38)
                st["labelled_smoothed"] += 1
                if n2 != es[1] or not np.array_equal(sl, es[0]):
                    chk.violation("sparse_localmaxlabel on the signal smoothed by sparse_smooth (%dx%d, %d pixels) differs from "
                                  "steepest ascent over the exactly smoothed values: n=%d, definition n=%d" % (ns, nf, len(v), n2, es[1]),
                                  case)
        if len(chk.violations) > 10:
            break
    chk.notes["sparse_smooth_direct"] = st
    if not chk.violations and (st["cases_16x16"] < 6 or st["labelled_smoothed"] < 3 or st["cases_negative_values"] < 2):
        raise common.MachineryError("vacuity: direct sparse_smooth family not exercised: %s" % st)


def replay_child(chk, cases, tag, flavour="asan", envx=None):
    """the small cases in a child process: the sanitizer build, or the normal build under an OpenMP environment envx"""
    shadow = common.build_shadow(flavour)
    if flavour == "asan":
        env = common.asan_env(shadow)
        label = "[sanitizer build] "
    else:
        env = omp_env(shadow, envx)
        label = "[OpenMP environment %s] " % env_tag(envx)
    d = common.scratch()
    cpath = os.path.join(d, "lmcases_%s.jsonl" % tag)
    opath = os.path.join(d, "lmout_%s.json" % tag)
    with open(cpath, "w") as f:
        for c in cases:
            f.write(json.dumps(c) + "\n")
    here = os.path.dirname(os.path.dirname(os.path.abspath(__file__)))
    p = subprocess.run([common.PY, os.path.join(here, "c13_replay.py"), cpath, opath] + ([] if flavour == "asan" else ["dense"]),
                       env=env, stdout=subprocess.PIPE, stderr=subprocess.PIPE, text=True, timeout=3000)
    out = json.load(open(opath)) if os.path.exists(opath) else {"n": 0, "problems": []}
    san = ("AddressSanitizer" in p.stderr) or ("runtime error:" in p.stderr) or p.returncode in (66, 67)
    if san:
        try:
            last = int(open(opath + ".cur").read())
        except Exception:
            last = 0
        rep = p.stderr[-3000:]
        chk.violation("sanitizer report while replaying localmax cases (case %d): %s" % (
            last, rep.strip().splitlines()[0] if rep.strip() else "abort"),
            {"sanitizer_stderr": rep, "near_cases": cases[max(0, last - 1):last + 2], "asan": True})
    elif p.returncode != 0:
        raise common.MachineryError("%sreplay subprocess failed rc=%s: %s" % (label, p.returncode, p.stderr[-1500:]))
    nrep = 0
    for pr in out.get("problems", []):
        for msg in pr["problems"]:
            if msg.startswith(c13_replay.MVLOW_TAG):
                report(chk, msg, pr["case"])
            elif nrep < (10 if flavour == "asan" else 4):
                nrep += 1
                chk.violation(label + msg, pr["case"] if envx is None else dict(pr["case"], omp_env=envx))
    if out.get("machinery"):
        raise common.MachineryError("vacuity (%s): %s" % (label.strip(), out["machinery"]))
    if flavour == "asan":
        chk.notes["asan_cases"] = chk.notes.get("asan_cases", 0) + out.get("n", 0)
        chk.notes["asan_small_dense_threads"] = out.get("stats", {}).get("small_dense_threads", {})
    else:
        chk.notes.setdefault("openmp_environment_small_cases", {})[env_tag(envx)] = {
            "cases": out.get("n", 0), "threads": out.get("stats", {}).get("small_dense_threads", {})}
        chk.traces += out.get("n", 0)


def replay_asan(chk, cases, tag):
    replay_child(chk, cases, tag, "asan")


def call_histories(chk, tier, mods):
    """LocalMaxCalls.tla: Stand / NoAlias for every history of wrapper calls (TLC), the variant with a class-level workspace
    must violate Stand (vacuity), and every emitted history is executed on the real wrappers (c13_calls.run_history)"""
    r = common.run_tlc("LocalMaxCalls", os.path.join(common.SPECS, "LocalMaxCalls_ws.cfg"), workers=4, timeout=600)
    chk.add_tlc("LocalMaxCalls class-level workspace (expected: Stand violated)", r)
    if "Stand" not in r.violated:
        raise common.MachineryError("LocalMaxCalls: the class-level workspace variant no longer violates Stand (vacuity)")
    cfg = "LocalMaxCalls_q.cfg" if tier == "quick" else "LocalMaxCalls_t.cfg"
    res = common.run_tlc("LocalMaxCalls", os.path.join(common.SPECS, cfg), workers=16, timeout=1800, coverage=(tier != "quick"))
    chk.add_tlc("LocalMaxCalls histories (%s)" % cfg, res)
    if res.violated:
        raise common.MachineryError("LocalMaxCalls model violates %s\n%s" % (res.violated, res.stdout[-1500:]))
    hists = []
    for line in sorted(res.printed):
        try:
            hists.append([(str(o), int(x)) for o, x in json.loads(line)["hist"]])
        except ValueError:
            raise common.MachineryError("unparsable LocalMaxCalls line: %s" % line[:200])
    want = 16 ** (3 if tier == "quick" else 4)
    if len(hists) != want:
        raise common.MachineryError("LocalMaxCalls emitted %d histories, expected %d" % (len(hists), want))
    rng = np.random.default_rng(common.seed() + 1717)
    d = os.path.join(common.scratch(), "callhist")
    os.makedirs(d, exist_ok=True)
    pools = c13_calls.make_pools(rng, tier, d)
    defs = {"sparse_definition": sparse_definition, "smooth16_definition": smooth16_definition}
    stats = {}
    per_pool = {}
    nviol = 0
    old = mods[0].cimaged11_omp_get_max_threads()
    try:
        c13_replay.set_threads(mods[0], 2)
        for kp, pool in enumerate(pools):
            # every history on the first pool; a seeded share on the others (the larger frames are the slower ones)
            share = 1.0 if kp == 0 else ((0.15 if tier == "quick" else 0.1) if pool.frames[1][0][0] < 20 else
                                         (0.06 if tier == "quick" else 0.02))
            n = 0
            for h in hists:
                if share < 1.0 and rng.random() >= share:
                    continue
                n += 1
                probs = c13_calls.run_history(h, pool, mods, defs, stats)
                chk.case(("calls", pool.name, tuple(h)))
                chk.traces += 1
                if probs:
                    nviol += 1
                    if nviol <= 6:
                        chk.violation("wrapper call history %s on pool '%s' (frames 1, 2 of equal nnz %d, frame 3 nnz %d; scans 11, 12 "
                                      "of equal frame sizes): %s" % (
                                          " ; ".join("%s(%d)" % c for c in h), pool.name, len(pool.frames[1][1]),
                                          len(pool.frames[3][1]), " | ".join(probs[:3])),
                                      {"call_history": [list(c) for c in h], "pool": pool.name, "seed": common.seed()})
                if nviol > 200:
                    break
            per_pool[pool.name] = n
    except c13_replay.ThreadsNotSet as e:
        raise common.MachineryError("vacuity: %s" % e)
    finally:
        mods[0].cimaged11_omp_set_num_threads(old)
    chk.notes["call_histories"] = dict(stats, histories_per_pool=per_pool, histories_failing=nviol)
    if not chk.violations and (stats.get("consecutive_lm_calls_on_equal_nnz", 0) < 200 or stats.get("alias_pairs", 0) < 10000
                               or stats.get("histories", 0) < want):
        raise common.MachineryError("vacuity: call histories not exercised: %s" % stats)


def run(tier, replay=None):
    chk = common.Check(PROP, tier)
    shadow = common.build_shadow("normal")
    common.use_shadow(shadow)
    mods = c13_replay.load_mods()
    cImageD11 = mods[0]
    chk.rule = ("TLC enumerates images (all images over a small alphabet on 3x3/3x4; the quadratic family mod P on "
                "4x4..5x5), runs the phase-by-phase model of localmaxlabel and emits the exact labels; each case is "
                "replayed on the real kernels with poisoned buffers; LocalMaxPar explores every interleaving of 2-3 "
                "threads on a chain crossing the block boundaries (and 5 / 7 threads on 3 / 5 pixels); stress runs at "
                "1..64 threads (thread count read back) on square images and on 3xN / Nx3 / 4xN / Nx5 strips must equal "
                "the sequential result; the stress images and a larger frame also go through the sparse kernel (listings: "
                "full, interior, threshold, random, ascent-closed; every sign class of values; coordinates at the top of the "
                "uint16 range) against the sparse definition, and sparse / dense partitions are compared on the real outputs "
                "where the listing is closed under the ascent; sparse_smooth directly with exactly representable sums; "
                "LocalMaxPar also with every delivered team 1..NT for the request NT, the dense sweep repeated in child "
                "processes under OpenMP environments that deliver other teams than requested (normal and hooks build); "
                "LocalMaxScan enumerates every scan <<frame, empty, mirrored frame>> of <= 3 stored pixels on 2x3 under 6 order "
                "preserving value maps (negative / zero / positive stored values), replayed on SparseScan.lmlabel with the default "
                "call, all smooth x countall and threshold arguments and 6 intensity dtypes (quick: a seeded 30% of the cases); "
                "LocalMaxCalls enumerates every history of 3 (thorough 4) wrapper calls over 3 frames (two of equal nnz) and 2 "
                "scans, each executed on seeded concrete pools with all results re-judged after every call. "
                "non-trivial = image has an interior maximum; distinct = distinct image / (image, threads, repetition) / "
                "(image, listing, value class, buffer fill)")
    chk.assumptions = ["property judged only on images whose every 3x3 block has a unique maximum (no equal-valued neighbours)",
                       "parallel model assumes sequentially consistent memory; real interleavings are not observable, "
                       "the parallel specification is bound by outcome sets",
                       "sparse variant bound through its abstract definition on tie-free listings; the clause 'same partition "
                       "as the dense variant' applies when no listed pixel's dense ascent leaves the listed set (otherwise the "
                       "dense basin contains unlisted pixels and the comparison is skipped and counted)",
                       "sparse_smooth judged with integer values below 2^20 (sums exact in binary32): rounding of the "
                       "accumulation for general values is not part of the claim"]
    if replay:
        return run_replay(chk, mods, replay)

    fams = [(3, 3, "all", 3, 0), (4, 4, "quad", 0, 17), (4, 5, "quad", 0, 23)]
    if tier == "thorough":
        fams += [(3, 3, "all", 4, 0), (3, 4, "all", 3, 0), (5, 5, "quad", 0, 29), (5, 4, "quad", 0, 23), (4, 6, "quad", 0, 29)]
    cases = []
    for (ns, nf, fam, V, P) in fams:
        res = common.run_tlc("LocalMax", lm_cfg(ns, nf, fam, V, P), workers=16, timeout=3000)
        chk.add_tlc("LocalMax %dx%d %s" % (ns, nf, fam), res)
        if res.violated:
            raise common.MachineryError("LocalMax model violates %s\n%s" % (res.violated, res.stdout[-1500:]))
        bad = 0
        for line in res.printed:
            try:
                cases.append(json.loads(line))
            except ValueError:
                bad += 1
        if bad:
            raise common.MachineryError("%d unparsable TLC lines" % bad)
    ntf = sum(1 for case in cases if case["tiefree"])      # (counted on the emitted cases, not on those replayed)
    stats = {}
    for idx, case in enumerate(cases):
        try:
            probs = c13_replay.run_case(case, mods, idx, threads=c13_replay.block_threads(idx), stats=stats)
        except c13_replay.ThreadsNotSet as e:
            raise common.MachineryError("vacuity: %s" % e)
        except Exception as e:
            probs = ["exception %r" % (e,)]
        chk.case((case["ns"], case["nf"], tuple(case["img"])), nontrivial=case["npk"] > 0)
        chk.traces += 1
        if idx in (3, 4000):
            chk.sample({k: case[k] for k in ("ns", "nf", "img", "lout", "npk", "tiefree")})
        for p in probs:
            report(chk, p, {k: case[k] for k in ("ns", "nf", "img", "lout", "npk", "tiefree")})
        if len(chk.violations) > 20:
            break
    chk.notes["tiefree_cases"] = ntf
    chk.notes["small_case_families"] = stats
    if ntf < 50:
        raise common.MachineryError("vacuity: only %d tie-free images enumerated" % ntf)
    if not chk.violations:
        sc = stats.get("sparse_sign_classes", {})
        if (stats.get("partition_clause_judged_two_or_more_basins", 0) < 20 or stats.get("small_dense_more_threads_than_pixels", 0) < 500
                or len(stats.get("small_dense_threads", {})) < len(set(c13_replay.SMALL_THREADS)) or min(sc.values() or [0]) < 1000
                or len(sc) < 5 or stats.get("sparse_cases_with_values_le_mvlow", 0) < 1000):
            raise common.MachineryError("vacuity: families of the small-case replay not exercised: %s" % stats)
    rng = np.random.default_rng(common.seed())
    clean = [{k: c[k] for k in ("ns", "nf", "img", "lout", "npk", "tiefree")} for c in cases]
    sel = clean if tier == "thorough" else [c for c in clean if rng.random() < 0.25]
    replay_asan(chk, sel, "small")

    # schedules: the parallel specification
    r = common.run_tlc("LocalMaxPar", par_cfg(6, 2, True, True), workers=16, timeout=900)
    chk.add_tlc("LocalMaxPar repaired ordering N=6 NT=2", r)
    if r.violated:
        raise common.MachineryError("repaired ordering violates %s" % r.violated)
    r = common.run_tlc("LocalMaxPar", par_cfg(7, 3, True, True), workers=16, timeout=1800)
    chk.add_tlc("LocalMaxPar repaired ordering N=7 NT=3", r)
    if r.violated:
        raise common.MachineryError("repaired ordering violates %s" % r.violated)
    # more threads than pixels: threads with empty ranges
    for (n_, nt_) in ([(3, 5), (4, 6)] if tier == "quick" else [(3, 5), (4, 6), (5, 7)]):
        r = common.run_tlc("LocalMaxPar", par_cfg(n_, nt_, True, True), workers=4 if n_ < 5 else 16, timeout=900)
        chk.add_tlc("LocalMaxPar repaired ordering N=%d NT=%d (more threads than pixels)" % (n_, nt_), r)
        if r.violated:
            raise common.MachineryError("repaired ordering violates %s" % r.violated)
    r = common.run_tlc("LocalMaxPar", par_cfg(6, 2, False, True, invs=("Correct",)), workers=16, timeout=900)
    chk.add_tlc("LocalMaxPar pinned ordering (expected: Correct violated)", r)
    if "Correct" not in r.violated:
        raise common.MachineryError("racy configuration no longer violates Correct (vacuity)")
    # OpenMP configurations: the runtime delivers any team 1..NT for the request NT (also more requested than pixels)
    for (n_, nt_) in ([(6, 3), (3, 5)] if tier == "quick" else [(6, 3), (3, 5), (7, 4), (4, 6)]):
        r = common.run_tlc("LocalMaxPar", par_cfg(n_, nt_, True, True, teams=range(1, nt_ + 1)), workers=8, timeout=1800)
        chk.add_tlc("LocalMaxPar repaired ordering N=%d NT=%d, delivered team 1..%d" % (n_, nt_, nt_), r)
        if r.violated:
            raise common.MachineryError("repaired ordering with a delivered team <= requested violates %s" % r.violated)
    for inv in ("RangesTile", "Correct"):
        r = common.run_tlc("LocalMaxPar", par_cfg(6, 3, True, True, invs=(inv,), teams=[2], blocks="max"), workers=4, timeout=900)
        chk.add_tlc("LocalMaxPar blocks cut with the requested size, team 2 of 3 (expected: %s violated)" % inv, r)
        if inv not in r.violated:
            raise common.MachineryError("blocks cut with omp_get_max_threads() no longer violate %s (vacuity)" % inv)
    if tier == "thorough":
        r = common.run_tlc("LocalMaxPar", par_cfg(8, 3, True, True), workers=16, timeout=3000)
        chk.add_tlc("LocalMaxPar repaired ordering N=8 NT=3", r)
        if r.violated:
            raise common.MachineryError("repaired ordering violates %s" % r.violated)
    sect = chk.notes.setdefault("section_wall_s", {})

    def timed(name, fn, *a):
        t0 = time.time()
        try:
            return fn(*a)
        finally:
            sect[name] = round(time.time() - t0, 1)
    timed("gap_patterns", run_gap_patterns, chk, tier, mods)
    timed("stress", stress, chk, tier, cImageD11)
    timed("sparse_stress", sparse_stress, chk, tier, mods)
    timed("smooth_routes", smooth_routes, chk, tier, mods)
    timed("sparsescan_routes", sparsescan_routes, chk, tier)
    timed("scan_arguments", scan_arguments, chk, tier, mods)
    timed("call_histories", call_histories, chk, tier, mods)
    timed("openmp_environments", openmp_environments, chk, tier, sel if tier == "quick" else [c for c in clean if rng.random() < 0.3])
    # (after the outcome-based families: a tree whose walk region does not run with the requested number of threads
    #  makes the hooks binding inapplicable - a machinery error - and must have been judged on its outcomes before)
    hook_recs = timed("hook_traces", hook_traces, chk, tier)
    chk.exhaustive = False
    if tier == "thorough":
        selftest(mods)
    else:
        selftest_calls(mods)
    if tier == "thorough" and not chk.violations:
        scan_arguments(chk, tier, mods, selftest_only=True)
    selftest_walk(chk, hook_recs)
    return chk.finish()


def sparsescan_routes(chk, tier):
    """SparseScan.lmlabel (sparse_localmaxlabel frame by frame over a scan file, optional sparse_smooth, countall
    offsets): every behaviour of SparseScan.tla's lmlabel stages (statement-level transcription of the sparse kernel)
    is replayed on the real class; failures of the lmlabel routes and of the direct kernel calls of the same replay
    (cImageD11.sparse_localmaxlabel, cImageD11.sparse_smooth, sparseframe.sparse_smooth) are C13 violations"""
    from props import x03
    runs = [("SparseScan qb (1x3 over {0,1,2}: all sequences of <= 3 frames with <= 3 pixels; lmlabel stages)", "SparseScan_qb.cfg", 600),
            ("SparseScan qa (2x3 over {0,1,2}: every single frame, pairs with <= 2 pixels; smoothed lmlabel stage)", "SparseScan_qa.cfg", 600)]
    if tier == "thorough":
        runs.append(("SparseScan t2 (2x3 over {0,1,2}: sequences of <= 3 frames with <= 3 pixels; all stages)", "SparseScan_t2.cfg", 3000))
    # (a tuple of prefixes: str.startswith accepts it; the kernels called directly on every frame of the same replay -
    #  sparse_localmaxlabel with both work-buffer fills, sparse_smooth through both entry points - are C13's too)
    x03.bind_routes(chk, ("SparseScan.lmlabel", "cImageD11.sparse_localmaxlabel", "cImageD11.sparse_smooth",
                          "sparseframe.sparse_smooth"), runs, "c13ss")


def scan_arguments(chk, tier, mods, selftest_only=False):
    """LocalMaxScan.tla: SparseScan.lmlabel over its arguments (default call, threshold values, countall, smooth) and the
    sign / zero classes of the stored values (order preserving maps of the grey levels), several intensity dtypes; the
    variant that honours the threshold "like cplabel" must violate AllLabelled (vacuity); harness/c13_scan.py"""
    r = common.run_tlc("LocalMaxScan", os.path.join(common.SPECS, "LocalMaxScan_cut.cfg"), workers=4, timeout=600)
    chk.add_tlc("LocalMaxScan threshold honoured like cplabel (expected: AllLabelled violated)", r)
    if "AllLabelled" not in r.violated:
        raise common.MachineryError("LocalMaxScan: the variant that cuts at the threshold no longer violates AllLabelled (vacuity)")
    cfgs = ["LocalMaxScan_q.cfg"] if tier == "quick" else ["LocalMaxScan_q.cfg", "LocalMaxScan_t.cfg", "LocalMaxScan_t2.cfg"]
    defs = {"sparse_definition": sparse_definition, "smooth16_definition": smooth16_definition}
    tot = {}
    for kc, cfg in enumerate(cfgs):
        res = common.run_tlc("LocalMaxScan", os.path.join(common.SPECS, cfg), workers=4, timeout=3000)
        chk.add_tlc("LocalMaxScan arguments x value classes (%s)" % cfg, res)
        if res.violated:
            raise common.MachineryError("LocalMaxScan model violates %s\n%s" % (res.violated, res.stdout[-1500:]))
        try:
            cases = c13_scan.parse(res.printed)
        except ValueError as e:
            raise common.MachineryError("unparsable LocalMaxScan line: %s" % e)
        if len(cases) != res.init_states or len(cases) < 1000:
            raise common.MachineryError("LocalMaxScan emitted %d cases for %d initial states" % (len(cases), res.init_states))
        d = os.path.join(common.scratch(), "scanargs_%d" % kc)
        os.makedirs(d, exist_ok=True)
        share = 0.3 if tier == "quick" else (1.0 if kc == 0 else 0.25)      # (seeded share of the emitted cases)
        try:
            if selftest_only:
                # a perturbed expectation (one label of the specification changed) must be rejected on every judged case
                def perturb(case):
                    c = dict(case)
                    for key in c13_scan.KEYS.values():
                        if c[key]:
                            g = [list(x) for x in c[key]]
                            k = next((i for i, v in enumerate(g[0] + g[2]) if v > 0), None)
                            if k is None:       # (the scan without any pixel)
                                continue
                            (g[0] if k < len(g[0]) else g[2])[k % len(g[0])] += 1
                            c[key] = g
                    return c

                class Quiet(object):
                    traces = 0

                    def __init__(self):
                        self.n = 0

                    def case(self, *a, **k):
                        pass

                    def violation(self, *a):
                        self.n += 1
                q = Quiet()
                st = c13_scan.replay(q, cases[::40], mods[1], defs, d, common.seed(), 1.0, perturb=perturb)
                if st["failing_calls"] < 0.9 * st["calls_value_judged"] or st["calls_value_judged"] < 200:
                    raise common.MachineryError("selftest: the scan-argument binding accepts perturbed labels: %s" % st)
                return
            st = c13_scan.replay(chk, cases, mods[1], defs, d, common.seed(), share)
        except RuntimeError as e:
            raise common.MachineryError(str(e))
        merge_stats(tot, st)
    chk.notes["scan_arguments"] = tot
    if not chk.violations and (tot["default_calls_with_stored_values_le_0"] < 500 or tot["calls_with_an_exact_zero"] < 2000
                               or tot["calls_with_negative_values"] < 5000 or tot["calls_smoothed_signal_le_0"] < 2000
                               or len(tot["dtypes"]) < 6 or tot["calls_value_judged"] < 10000):
        raise common.MachineryError("vacuity: scan-argument families not exercised: %s" % tot)


def selftest_walk(chk, recs):
    """a thread log with the flag cleared before the label (the pinned ordering) must be rejected"""
    base = next((r for r in recs if any(e[0] == 2 for e in r["ev"])), None)
    if base is None:
        if chk.violations:
            return          # the tree under test already fails the trace validation: nothing accepted to perturb
        raise common.MachineryError("selftest: no thread log contains a path relabel")
    bad = json.loads(json.dumps(base))
    bad["id"] = "bad_order"
    k = next(i for i, e in enumerate(bad["ev"]) if e[0] == 2)
    bad["ev"][k], bad["ev"][k + 1] = bad["ev"][k + 1], bad["ev"][k]
    bad2 = json.loads(json.dumps(base))
    bad2["id"] = "bad_label"
    k = next(i for i, e in enumerate(bad2["ev"]) if e[0] == 1)
    bad2["ev"][k][2] += 1
    path = os.path.join(common.scratch(), "trace_walk_self.ndjson")
    with open(path, "w") as f:
        for r in (base, bad, bad2):
            f.write(json.dumps(r) + "\n")
    cfg = common.write_cfg(os.path.join(common.scratch(), "tracewalk_self.cfg"))
    res = common.run_tlc("TraceWalk", cfg, workers=1, timeout=600, env_extra={"TRACE_FILE": path})
    chk.add_tlc("TraceWalk selftest", res)
    v = {json.loads(l)["id"]: json.loads(l) for l in res.printed}
    if not v.get(base["id"], {}).get("ok") or v.get("bad_order", {}).get("ok", True) or v.get("bad_label", {}).get("ok", True):
        raise common.MachineryError("selftest: TraceWalk verdicts wrong: %s" % v)


def run_replay(chk, mods, path):
    obj = json.load(open(path))
    case = obj["case"]
    chk.exhaustive = False
    if "omp_env" in case and not case.get("hooks"):
        openmp_environments(chk, chk.tier, [case] if "img" in case else [])
        chk.sample({"replayed": "OpenMP environments"})
    elif "img" in case:
        for idx in range(60):
            for p in c13_replay.run_case(case, mods, idx, threads=c13_replay.SMALL_THREADS[idx % len(c13_replay.SMALL_THREADS)]):
                report(chk, p, case)
            chk.case((tuple(case["img"]), idx))
            chk.traces += 1
        chk.sample(case)
    elif case.get("asan"):
        replay_asan(chk, case.get("near_cases", []), "replay")
    elif "call_history" in case:
        call_histories(chk, chk.tier, mods)
        chk.sample({"replayed": "wrapper call histories"})
    elif case.get("hooks"):
        hook_traces(chk, chk.tier)
        chk.sample({"replayed": "hook traces"})
    elif "scan_case" in case:
        scan_arguments(chk, chk.tier, mods)
        chk.sample({"replayed": "SparseScan.lmlabel arguments x value classes"})
    elif "sparsescan_case" in case:
        sparsescan_routes(chk, chk.tier)
        chk.sample({"replayed": "SparseScan routes"})
    elif "gap_pattern" in case:
        run_gap_patterns(chk, chk.tier, mods)
        chk.sample({"replayed": "gap patterns"})
    elif "sparse_stress" in case:
        sparse_stress(chk, chk.tier, mods)
        chk.sample({"replayed": "sparse stress"})
    elif "smooth_case" in case:
        smooth_routes(chk, chk.tier, mods)
        chk.sample({"replayed": "direct sparse_smooth"})
    else:
        stress(chk, chk.tier, mods[0])
        chk.sample({"replayed": "stress"})
    return chk.finish()


def selftest_calls(mods):
    """the call-history binding must reject (1) a perturbed expectation, (2) a wrapper layer whose sparse_localmax hands out a
    cached array (two consecutive frames of equal nnz), and accept the same histories on the real wrappers"""
    cImageD11, sparseframe = mods
    rng = np.random.default_rng(5)
    d = os.path.join(common.scratch(), "callhist_self")
    os.makedirs(d, exist_ok=True)
    pool = c13_calls.make_pools(rng, "quick", d)[0]
    defs = {"sparse_definition": sparse_definition, "smooth16_definition": smooth16_definition}
    hist = [("lm", 1), ("lm", 2), ("sm", 3)]
    if c13_calls.run_history(hist, pool, mods, defs, {}):
        return              # the tree under test already fails this history: nothing accepted to perturb
    bad = dict(defs, sparse_definition=lambda img, m: (lambda r: (r[0] + (np.arange(len(r[0])) == 0), r[1]))(sparse_definition(img, m)))
    pool.exp.clear()
    if not c13_calls.run_history(hist, pool, mods, bad, {}):
        raise common.MachineryError("selftest: call histories accept a perturbed expectation")
    pool.exp.clear()

    class Cached(object):
        """sparseframe with a sparse_localmax that keeps its labels array between frames of equal nnz"""
        ws = {}

        def __getattr__(self, name):
            return getattr(sparseframe, name)

        def sparse_localmax(self, frame, label_name="localmax", data_name="intensity"):
            if Cached.ws.get("nnz") != frame.nnz:
                Cached.ws = {"nnz": frame.nnz, "labels": np.zeros(frame.nnz, "i")}
            labels = Cached.ws["labels"]
            n = cImageD11.sparse_localmaxlabel(frame.pixels[data_name], frame.row, frame.col, np.zeros(frame.nnz, np.float32),
                                               np.zeros(frame.nnz, "i"), labels)
            frame.set_pixels(label_name, labels, {"nlabel": n})
            return n
    probs = c13_calls.run_history(hist, pool, (cImageD11, Cached()), defs, {})
    if not any("shares memory" in q for q in probs) or not any("no longer is" in q for q in probs):
        raise common.MachineryError("selftest: a cached labels array between frames of equal nnz is not reported: %s" % probs)


def selftest(mods=None):
    mods = mods or c13_replay.load_mods()
    selftest_calls(mods)
    img = [0, 0, 0, 0, 0, 5, 1, 0, 0, 2, 9, 0, 0, 0, 0, 0]
    case = {"ns": 4, "nf": 4, "img": img, "lout": [0, 0, 0, 0, 0, 1, 1, 0, 0, 1, 1, 0, 0, 0, 0, 0], "npk": 1, "tiefree": 0}
    if c13_replay.run_case(dict(case), mods, 0):
        raise common.MachineryError("selftest: correct expectation rejected")
    bad = dict(case, lout=[0, 0, 0, 0, 0, 1, 2, 0, 0, 1, 1, 0, 0, 0, 0, 0])
    if not c13_replay.run_case(bad, mods, 0):
        raise common.MachineryError("selftest: wrong expectation accepted")

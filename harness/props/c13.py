"""C13 - local-maximum labelling follows steepest ascent for every thread count.

specs: LocalMax.tla (sequential meaning, phase by phase, + independent steepest-ascent definition),
       LocalMaxPar.tla (PlusCal, the parallel walk-to-max region, one step per shared access).
Mode A: every image TLC enumerates -> exact label array replayed into cImageD11.localmaxlabel (poisoned
        buffers), sparse_localmaxlabel, sparseframe.sparse_localmax; normal + ASan build.
Schedules: TLC proves (bounded) that the repaired ordering yields the sequential result for every
        interleaving; the real code is bound by outcomes: every run at every thread count must equal
        the unique sequential result.
"""
import os, sys, json, subprocess, time
import numpy as np
import common
import c13_replay

PROP = "C13"
RACE_ID = "C13-walk-race"


def lm_cfg(ns, nf, family, V, P):
    return common.write_cfg(os.path.join(common.scratch(), "localmax_%dx%d_%s.cfg" % (ns, nf, family)),
                            constants={"NS": ns, "NF": nf, "FAMILY": '"%s"' % family, "V": V, "P": P, "EmitOn": True},
                            invariants=["NoPoisonRead", "Defined", "BorderZero", "SteepestAscent", "Count",
                                        "SparseAgrees", "Emit"])


def par_cfg(n, nt, fixed, reread, invs=("Correct", "FlagImpliesLabel")):
    return common.write_cfg(os.path.join(common.scratch(), "lmpar_%d_%d_%s_%s.cfg" % (n, nt, fixed, reread)),
                            constants={"N": n, "NT": nt, "FIXED": fixed, "REREAD": reread, "POISON": 99},
                            invariants=list(invs))


def definition(img):
    """steepest-ascent labels by the independent definition (numpy); None if some 3x3 block has a tie"""
    ns, nf = img.shape
    best = np.full(img.shape, -1, np.int64)
    bestv = np.full(img.shape, -np.inf)
    tie = np.zeros(img.shape, bool)
    idx = np.arange(ns * nf).reshape(ns, nf)
    for dr in (-1, 0, 1):
        for dc in (-1, 0, 1):
            sh = np.full(img.shape, -np.inf)
            si = np.full(img.shape, -1, np.int64)
            rs = slice(max(0, -dr), ns - max(0, dr))
            cs = slice(max(0, -dc), nf - max(0, dc))
            rd = slice(max(0, dr), ns - max(0, -dr))
            cd = slice(max(0, dc), nf - max(0, -dc))
            sh[rs, cs] = img[rd, cd]
            si[rs, cs] = idx[rd, cd]
            gt = sh > bestv
            eq = (sh == bestv) & (si >= 0)
            tie = (tie & ~gt) | eq
            best = np.where(gt, si, best)
            bestv = np.where(gt, sh, bestv)
    interior = np.zeros(img.shape, bool)
    interior[1:-1, 1:-1] = True
    if (tie & interior).any():
        return None
    ptr = np.where(interior, best, idx).ravel()
    # pointer jumping to the terminal
    for _ in range(64):
        nxt = ptr[ptr]
        if np.array_equal(nxt, ptr):
            break
        ptr = nxt
    ismax = (ptr == np.arange(ns * nf)) & interior.ravel()
    rank = np.cumsum(ismax) * ismax
    lab = rank[ptr]
    lab[~interior.ravel()] = 0
    return lab.reshape(ns, nf).astype(np.int32), int(ismax.sum())


def stress_images(tier, rng):
    out = []
    shapes = [(40, 40), (64, 48), (31, 97)] if tier == "quick" else [(64, 64), (100, 130), (200, 200), (33, 301), (257, 19)]
    for (a, b) in shapes:
        r, c = np.mgrid[0:a, 0:b]
        out.append(("ramp_diag", (r * b + c).astype(np.float32)))
        out.append(("ramp_vert", (r * 1000 + (c * 7) % 13).astype(np.float32)))
        out.append(("ramp_up", ((a - r) * 1000 + (c * 5) % 11).astype(np.float32)))
        out.append(("ridges", (np.minimum(r, a - r) * 500 + ((c * 37) % 101) + 0.001 * (r * b + c)).astype(np.float32)))
        noise = rng.permutation(a * b).reshape(a, b).astype(np.float32)
        out.append(("noise", noise))
        out.append(("serpentine", serpentine(a, b, rng)))
        out.append(("serpentine_T", np.ascontiguousarray(serpentine(b, a, rng).T)))
        sm = (np.sin(r / 7.0) + np.cos(c / 5.0)) * 1000
        out.append(("smooth", (sm + 0.0001 * noise).astype(np.float32)))
    return out


def serpentine(a, b, rng):
    """one ridge winding through the whole image (ridge rows 1,3,5,... joined alternately at the right and left end):
    the ascent path is ~ a*b/2 steps long, far longer than a + b, and crosses every thread's block"""
    im = rng.permutation(a * b).reshape(a, b).astype(np.float64)          # distinct background values < a*b
    k = a * b + 10
    rows = list(range(1, a - 1, 2))
    for n, r in enumerate(rows):
        cols = range(1, b - 1) if n % 2 == 0 else range(b - 2, 0, -1)
        for c in cols:
            im[r, c] = k
            k += 1
        if n + 1 < len(rows):
            cend = b - 2 if n % 2 == 0 else 1
            im[r + 1, cend] = k
            k += 1
    return im.astype(np.float32) if k < 2 ** 24 else im.astype(np.float32)


def gap_patterns(tier, rng):
    """sparse patterns with gaps (empty rows, row starts right of the previous row's end, isolated pixels): tie-free
    random values; expectation from the abstract definition (c13_replay.expected_sparse)"""
    out = []
    n = 300 if tier == "quick" else 3000
    for t in range(n):
        ns, nf = int(rng.integers(3, 9)), int(rng.integers(3, 9))
        vals = rng.permutation(ns * nf).reshape(ns, nf).astype(np.float32) + 1
        kind = t % 4
        m = np.zeros((ns, nf), bool)
        if kind == 0:                       # random fill
            m = rng.random((ns, nf)) < rng.choice([0.2, 0.5, 0.8])
        elif kind == 1:                     # bands: occupied rows separated by empty rows, staircase column runs
            c = 0
            for r in range(0, ns, int(rng.integers(2, 4))):
                w = int(rng.integers(1, 4))
                m[r, c:min(nf, c + w)] = True
                c = min(nf - 1, c + w)
        elif kind == 2:                     # every other row full
            m[::2, :] = True
        else:                               # staircase touching only at corners, with an empty row in between
            for r in range(ns):
                if r % 3 != 1:
                    c0 = min(nf - 1, (r * 2) % nf)
                    m[r, c0:min(nf, c0 + 2)] = True
        if m.sum() >= 1:
            out.append((vals, m))
    return out


def run_gap_patterns(chk, tier, mods):
    cImageD11, sparseframe = mods
    rng = np.random.default_rng(common.seed() + 1313)
    n = 0
    for vals, m in gap_patterns(tier, rng):
        ns, nf = vals.shape
        es = c13_replay.expected_sparse(vals.ravel().tolist(), ns, nf, m)
        if es is None:
            continue
        elab, en = es
        ii, jj = np.nonzero(m)
        v = vals[m]
        n += 1
        chk.case(("gap", vals.tobytes(), m.tobytes()))
        chk.traces += 1
        for fill in (-123.0, 3.0e38):           # previous content of the work buffers
            sl = np.full(len(v), c13_replay.POISON, np.int32)
            mv = np.full(len(v), fill, np.float32)
            imv = np.full(len(v), c13_replay.POISON, np.int32)
            n2 = cImageD11.sparse_localmaxlabel(v, ii.astype(np.uint16), jj.astype(np.uint16), mv, imv, sl)
            if n2 != en or sl.tolist() != elab:
                chk.violation("sparse_localmaxlabel on a pattern with gaps (work buffers pre-filled with %g): labels %s (n=%d), "
                              "steepest-ascent definition %s (n=%d)" % (fill, sl.tolist(), n2, elab, en),
                              {"gap_pattern": {"img": vals.tolist(), "mask": m.astype(int).tolist()}})
                break
        if len(chk.violations) > 10:
            break
    chk.notes["sparse_gap_patterns"] = n


def hook_traces(chk, tier):
    """deterministic binding of LocalMaxPar's thread program to the code: the hooks build logs every thread's
    writes in program order; TLC validates each thread's log against TraceWalk.tla"""
    shadow = common.build_shadow("hooks")
    rng = np.random.default_rng(common.seed() + 131)
    imgs = []
    shapes = [(5, 6), (8, 9), (12, 12), (9, 14)] if tier == "quick" else [(5, 6), (8, 9), (12, 12), (9, 14), (16, 21), (25, 13), (30, 30)]
    for (a, b) in shapes:
        r, c = np.mgrid[0:a, 0:b]
        imgs.append(("ramp_diag", (r * b + c).astype(np.float32)))
        imgs.append(("ramp_up", ((a - r) * 1000 + (c * 5) % 11 + 0.001 * c).astype(np.float32)))
        imgs.append(("noise", rng.permutation(a * b).reshape(a, b).astype(np.float32)))
        imgs.append(("serpentine", serpentine(a, b, rng)))
    keep = [(n, im) for (n, im) in imgs if definition(im) is not None]
    d = os.path.join(common.scratch(), "hooktraces")
    os.makedirs(d, exist_ok=True)
    threads = [2, 3, 4, 7]
    arrs = {"names": np.array([n for n, _ in keep]), "threads": np.array(threads)}
    for k, (n, im) in enumerate(keep):
        arrs["img_%d" % k] = im
    np.savez(os.path.join(d, "cases.npz"), **arrs)
    env = dict(os.environ, PYTHONPATH=shadow, NUMBA_CACHE_DIR=os.path.join(common.scratch(), "numba"), OMP_WAIT_POLICY="passive")
    env.pop("IMAGED11_VERIF_TRACE", None)
    here = os.path.dirname(os.path.dirname(os.path.abspath(__file__)))
    p = subprocess.run([common.PY, os.path.join(here, "c13_hooks_child.py"), os.path.join(d, "cases.npz"), d], env=env,
                       stdout=subprocess.PIPE, stderr=subprocess.PIPE, text=True, timeout=1800)
    if p.returncode != 0:
        raise common.MachineryError("hooks child failed: %s" % p.stderr[-1500:])
    recs = []
    meta = {}
    for k, (name, im) in enumerate(keep):
        exp, nexp = definition(im)
        ns, nf = im.shape
        off = {0: 0, 1: -1 - nf, 2: -1, 3: -1 + nf, 4: -nf, 5: 0, 6: nf, 7: 1 - nf, 8: 1, 9: 1 + nf}
        for nt in threads:
            path = os.path.join(d, "trace_%d_%d.txt" % (k, nt))
            if not os.path.exists(path):
                raise common.MachineryError("hooks build wrote no trace (%s): hooks missing from src/localmaxlabel.c?" % path)
            lvals = {}
            evs = {}
            ranges = {}
            for line in open(path):
                w = line.split()
                if w[0] == "P":
                    lvals[int(w[1])] = int(w[2])
                elif w[0] == "T":
                    ranges[int(w[1])] = (int(w[3]), int(w[4]))
                    evs.setdefault(int(w[1]), [])
                elif w[0] == "E":
                    evs[int(w[1])].append([int(w[2]), int(w[3]) + 1, int(w[4])])
            N = ns * nf
            tgt = [0 if lvals[x] == 0 else x + off[lvals[x]] + 1 for x in range(N)]
            final = [int(v) for v in exp.ravel()]
            lab = np.load(os.path.join(d, "labels_%d_%d.npy" % (k, nt)))
            if not np.array_equal(lab, exp):
                chk.violation("localmaxlabel (hooks build) %s %dx%d with %d threads differs from the sequential result" % (name, ns, nf, nt),
                              {"hooks": True, "image": name, "shape": [ns, nf], "threads": nt, "img": im.tolist()})
            for tid, (lo, hi) in ranges.items():
                rid = "%s_%dx%d_nt%d_t%d" % (name, ns, nf, nt, tid)
                recs.append({"id": rid, "N": N, "lo": lo + 1, "hi": hi + 1, "tgt": tgt, "final": final, "ev": evs[tid]})
                meta[rid] = {"hooks": True, "image": name, "shape": [ns, nf], "threads": nt, "thread": tid, "img": im.tolist()}
    path = os.path.join(common.scratch(), "trace_walk.ndjson")
    with open(path, "w") as f:
        for r in recs:
            f.write(json.dumps(r) + "\n")
    cfg = common.write_cfg(os.path.join(common.scratch(), "tracewalk.cfg"))
    res = common.run_tlc("TraceWalk", cfg, workers=1, timeout=1800, env_extra={"TRACE_FILE": path}, heap="8g")
    chk.add_tlc("TraceWalk %d thread logs" % len(recs), res)
    verdicts = {}
    for line in res.printed:
        v = json.loads(line)
        verdicts[v["id"]] = v
    if len(verdicts) != len(recs):
        raise common.MachineryError("TraceWalk: %d verdicts for %d thread logs\n%s" % (len(verdicts), len(recs), res.stdout[-1500:]))
    nev = 0
    for r in recs:
        v = verdicts[r["id"]]
        nev += len(r["ev"])
        chk.case(("walk", r["id"]), nontrivial=len(r["ev"]) > 0)
        chk.traces += 1
        if not v["ok"]:
            nxt = r["ev"][v["consumed"]] if v["consumed"] < len(r["ev"]) else None
            chk.violation("thread write log rejected by TraceWalk: %s (thread log %s, after %d events, next %s)" % (
                v["why"], r["id"], v["consumed"], nxt), meta[r["id"]])
    chk.notes["hook_thread_logs"] = len(recs)
    chk.notes["hook_write_events"] = nev
    return [r for r in recs if verdicts[r["id"]]["ok"]]


def stress(chk, tier, cImageD11):
    rng = np.random.default_rng(common.seed() + 13)
    threads = [1, 2, 3, 4, 8, 16, 32, 64]
    reps = 3 if tier == "quick" else 25
    old = cImageD11.cimaged11_omp_get_max_threads()
    nrun = 0
    nrace = 0
    try:
        for name, img in stress_images(tier, rng):
            d = definition(img)
            if d is None:
                continue
            exp, nexp = d
            for nt in threads:
                cImageD11.cimaged11_omp_set_num_threads(nt)
                for rep in range(reps if nt > 1 else 1):
                    poison = [c13_replay.POISON, 999999, 0][rep % 3]
                    lab = np.full(img.shape, poison, np.int32)
                    wrk = np.full(img.shape, [77, 0, 5][rep % 3], np.uint8)
                    n = cImageD11.localmaxlabel(img, lab, wrk)
                    nrun += 1
                    chk.case((name, img.shape, nt, rep))
                    if n == nexp and np.array_equal(lab, exp):
                        continue
                    diff = np.argwhere(lab != exp)
                    stale = all(lab[tuple(p)] == poison for p in diff) and n == nexp
                    what = ("localmaxlabel(%s %dx%d) with %d threads differs from the sequential steepest-ascent result "
                            "at %d pixels (count %d vs %d)" % (name, img.shape[0], img.shape[1], nt, len(diff), n, nexp))
                    case = {"stress": name, "shape": list(img.shape), "threads": nt, "rep": rep, "seed": common.seed(),
                            "first_diffs": diff[:10].tolist(), "stale_buffer_content": bool(stale)}
                    if nt > 1 and stale and chk.finding(RACE_ID):
                        # structural match: only poison (previous buffer content) on pixels, valid labels elsewhere
                        chk.known_finding(RACE_ID, "stale buffer content on pixels whose ascent path leaves the thread's range (threads >= 2)")
                        nrace += 1
                    else:
                        chk.violation(what, case)
                    if len(chk.violations) > 10:
                        return nrun
    finally:
        cImageD11.cimaged11_omp_set_num_threads(old)
    chk.notes["stress_runs"] = nrun
    chk.notes["stress_thread_counts"] = threads
    return nrun


def replay_asan(chk, cases, tag):
    shadow = common.build_shadow("asan")
    env = common.asan_env(shadow)
    d = common.scratch()
    cpath = os.path.join(d, "lmcases_%s.jsonl" % tag)
    opath = os.path.join(d, "lmout_%s.json" % tag)
    with open(cpath, "w") as f:
        for c in cases:
            f.write(json.dumps(c) + "\n")
    here = os.path.dirname(os.path.dirname(os.path.abspath(__file__)))
    p = subprocess.run([common.PY, os.path.join(here, "c13_replay.py"), cpath, opath], env=env,
                       stdout=subprocess.PIPE, stderr=subprocess.PIPE, text=True, timeout=3000)
    out = json.load(open(opath)) if os.path.exists(opath) else {"n": 0, "problems": []}
    san = ("AddressSanitizer" in p.stderr) or ("runtime error:" in p.stderr) or p.returncode in (66, 67)
    if san:
        try:
            last = int(open(opath + ".cur").read())
        except Exception:
            last = 0
        rep = p.stderr[-3000:]
        chk.violation("sanitizer report while replaying localmax cases (case %d): %s" % (
            last, rep.strip().splitlines()[0] if rep.strip() else "abort"),
            {"sanitizer_stderr": rep, "near_cases": cases[max(0, last - 1):last + 2], "asan": True})
    elif p.returncode != 0:
        raise common.MachineryError("asan replay subprocess failed rc=%s: %s" % (p.returncode, p.stderr[-1500:]))
    for pr in out.get("problems", [])[:10]:
        for msg in pr["problems"]:
            chk.violation("[sanitizer build] " + msg, pr["case"])
    chk.notes["asan_cases"] = chk.notes.get("asan_cases", 0) + out.get("n", 0)


def run(tier, replay=None):
    chk = common.Check(PROP, tier)
    shadow = common.build_shadow("normal")
    common.use_shadow(shadow)
    mods = c13_replay.load_mods()
    cImageD11 = mods[0]
    chk.rule = ("TLC enumerates images (all images over a small alphabet on 3x3/3x4; the quadratic family mod P on "
                "4x4..5x5), runs the phase-by-phase model of localmaxlabel and emits the exact labels; each case is "
                "replayed on the real kernels with poisoned buffers; LocalMaxPar explores every interleaving of 2-3 "
                "threads on a chain crossing the block boundaries; stress runs at 1..64 threads must equal the "
                "sequential result. non-trivial = image has an interior maximum; distinct = distinct image / (image, threads, repetition)")
    chk.assumptions = ["property judged only on images whose every 3x3 block has a unique maximum (no equal-valued neighbours)",
                       "parallel model assumes sequentially consistent memory; real interleavings are not observable, "
                       "the parallel specification is bound by outcome sets",
                       "sparse variant bound through its abstract definition (tie-free threshold masks)"]
    if replay:
        return run_replay(chk, mods, replay)

    fams = [(3, 3, "all", 3, 0), (4, 4, "quad", 0, 17), (4, 5, "quad", 0, 23)]
    if tier == "thorough":
        fams += [(3, 3, "all", 4, 0), (3, 4, "all", 3, 0), (5, 5, "quad", 0, 29), (5, 4, "quad", 0, 23), (4, 6, "quad", 0, 29)]
    cases = []
    for (ns, nf, fam, V, P) in fams:
        res = common.run_tlc("LocalMax", lm_cfg(ns, nf, fam, V, P), workers=16, timeout=3000)
        chk.add_tlc("LocalMax %dx%d %s" % (ns, nf, fam), res)
        if res.violated:
            raise common.MachineryError("LocalMax model violates %s\n%s" % (res.violated, res.stdout[-1500:]))
        bad = 0
        for line in res.printed:
            try:
                cases.append(json.loads(line))
            except ValueError:
                bad += 1
        if bad:
            raise common.MachineryError("%d unparsable TLC lines" % bad)
    ntf = sum(1 for case in cases if case["tiefree"])      # (counted on the emitted cases, not on those replayed)
    for idx, case in enumerate(cases):
        try:
            probs = c13_replay.run_case(case, mods, idx)
        except Exception as e:
            probs = ["exception %r" % (e,)]
        chk.case((case["ns"], case["nf"], tuple(case["img"])), nontrivial=case["npk"] > 0)
        chk.traces += 1
        if idx in (3, 4000):
            chk.sample({k: case[k] for k in ("ns", "nf", "img", "lout", "npk", "tiefree")})
        for p in probs:
            chk.violation(p, {k: case[k] for k in ("ns", "nf", "img", "lout", "npk", "tiefree")})
        if len(chk.violations) > 20:
            break
    chk.notes["tiefree_cases"] = ntf
    if ntf < 50:
        raise common.MachineryError("vacuity: only %d tie-free images enumerated" % ntf)
    rng = np.random.default_rng(common.seed())
    clean = [{k: c[k] for k in ("ns", "nf", "img", "lout", "npk", "tiefree")} for c in cases]
    sel = clean if tier == "thorough" else [c for c in clean if rng.random() < 0.25]
    replay_asan(chk, sel, "small")

    # schedules: the parallel specification
    r = common.run_tlc("LocalMaxPar", par_cfg(6, 2, True, True), workers=16, timeout=900)
    chk.add_tlc("LocalMaxPar repaired ordering N=6 NT=2", r)
    if r.violated:
        raise common.MachineryError("repaired ordering violates %s" % r.violated)
    r = common.run_tlc("LocalMaxPar", par_cfg(7, 3, True, True), workers=16, timeout=1800)
    chk.add_tlc("LocalMaxPar repaired ordering N=7 NT=3", r)
    if r.violated:
        raise common.MachineryError("repaired ordering violates %s" % r.violated)
    r = common.run_tlc("LocalMaxPar", par_cfg(6, 2, False, True, invs=("Correct",)), workers=16, timeout=900)
    chk.add_tlc("LocalMaxPar pinned ordering (expected: Correct violated)", r)
    if "Correct" not in r.violated:
        raise common.MachineryError("racy configuration no longer violates Correct (vacuity)")
    if tier == "thorough":
        r = common.run_tlc("LocalMaxPar", par_cfg(8, 3, True, True), workers=16, timeout=3000)
        chk.add_tlc("LocalMaxPar repaired ordering N=8 NT=3", r)
        if r.violated:
            raise common.MachineryError("repaired ordering violates %s" % r.violated)
    run_gap_patterns(chk, tier, mods)
    sparsescan_routes(chk, tier)
    hook_recs = hook_traces(chk, tier)
    stress(chk, tier, cImageD11)
    chk.exhaustive = False
    if tier == "thorough":
        selftest(mods)
    selftest_walk(chk, hook_recs)
    return chk.finish()


def sparsescan_routes(chk, tier):
    """SparseScan.lmlabel (sparse_localmaxlabel frame by frame over a scan file, optional sparse_smooth, countall
    offsets): every behaviour of SparseScan.tla's lmlabel stages (statement-level transcription of the sparse kernel)
    is replayed on the real class; failures of the lmlabel routes are C13 violations"""
    from props import x03
    runs = [("SparseScan qb (1x3 over {0,1,2}: all sequences of <= 3 frames with <= 3 pixels; lmlabel stages)", "SparseScan_qb.cfg", 600),
            ("SparseScan qa (2x3 over {0,1,2}: every single frame, pairs with <= 2 pixels; smoothed lmlabel stage)", "SparseScan_qa.cfg", 600)]
    if tier == "thorough":
        runs.append(("SparseScan t2 (2x3 over {0,1,2}: sequences of <= 3 frames with <= 3 pixels; all stages)", "SparseScan_t2.cfg", 3000))
    x03.bind_routes(chk, "SparseScan.lmlabel", runs, "c13ss")


def selftest_walk(chk, recs):
    """a thread log with the flag cleared before the label (the pinned ordering) must be rejected"""
    base = next((r for r in recs if any(e[0] == 2 for e in r["ev"])), None)
    if base is None:
        if chk.violations:
            return          # the tree under test already fails the trace validation: nothing accepted to perturb
        raise common.MachineryError("selftest: no thread log contains a path relabel")
    bad = json.loads(json.dumps(base))
    bad["id"] = "bad_order"
    k = next(i for i, e in enumerate(bad["ev"]) if e[0] == 2)
    bad["ev"][k], bad["ev"][k + 1] = bad["ev"][k + 1], bad["ev"][k]
    bad2 = json.loads(json.dumps(base))
    bad2["id"] = "bad_label"
    k = next(i for i, e in enumerate(bad2["ev"]) if e[0] == 1)
    bad2["ev"][k][2] += 1
    path = os.path.join(common.scratch(), "trace_walk_self.ndjson")
    with open(path, "w") as f:
        for r in (base, bad, bad2):
            f.write(json.dumps(r) + "\n")
    cfg = common.write_cfg(os.path.join(common.scratch(), "tracewalk_self.cfg"))
    res = common.run_tlc("TraceWalk", cfg, workers=1, timeout=600, env_extra={"TRACE_FILE": path})
    chk.add_tlc("TraceWalk selftest", res)
    v = {json.loads(l)["id"]: json.loads(l) for l in res.printed}
    if not v.get(base["id"], {}).get("ok") or v.get("bad_order", {}).get("ok", True) or v.get("bad_label", {}).get("ok", True):
        raise common.MachineryError("selftest: TraceWalk verdicts wrong: %s" % v)


def run_replay(chk, mods, path):
    obj = json.load(open(path))
    case = obj["case"]
    chk.exhaustive = False
    if "img" in case:
        for idx in range(6):
            for p in c13_replay.run_case(case, mods, idx):
                chk.violation(p, case)
            chk.case((tuple(case["img"]), idx))
            chk.traces += 1
        chk.sample(case)
    elif case.get("asan"):
        replay_asan(chk, case.get("near_cases", []), "replay")
    elif case.get("hooks"):
        hook_traces(chk, chk.tier)
        chk.sample({"replayed": "hook traces"})
    elif "sparsescan_case" in case:
        sparsescan_routes(chk, chk.tier)
        chk.sample({"replayed": "SparseScan routes"})
    elif "gap_pattern" in case:
        run_gap_patterns(chk, chk.tier, mods)
        chk.sample({"replayed": "gap patterns"})
    else:
        stress(chk, chk.tier, mods[0])
        chk.sample({"replayed": "stress"})
    return chk.finish()


def selftest(mods=None):
    mods = mods or c13_replay.load_mods()
    img = [0, 0, 0, 0, 0, 5, 1, 0, 0, 2, 9, 0, 0, 0, 0, 0]
    case = {"ns": 4, "nf": 4, "img": img, "lout": [0, 0, 0, 0, 0, 1, 1, 0, 0, 1, 1, 0, 0, 0, 0, 0], "npk": 1, "tiefree": 0}
    if c13_replay.run_case(dict(case), mods, 0):
        raise common.MachineryError("selftest: correct expectation rejected")
    bad = dict(case, lout=[0, 0, 0, 0, 0, 1, 2, 0, 0, 1, 1, 0, 0, 0, 0, 0])
    if not c13_replay.run_case(bad, mods, 0):
        raise common.MachineryError("selftest: wrong expectation accepted")

"""C18 - saved peaks, parameters and grains read back as written.

Specification: specs/Storage.tla (families table / pars / grains / sparse), model-checked by TLC;
binding mode B: every state TLC emits carries one representative history; every maximal history is
executed with real temporary files (harness/c18_replay.py) and the real state is compared with the
specification's state after every step (both worlds: "as is" and "intended", see Storage.tla).

    real == intended world at every step            -> held
    real == as-is world, differs from intended only
      by the stale names the model predicts (F11)   -> known finding C18-hdf-stale-titles
                                                       (VIOLATION if not listed in known_findings.json)
    anything else                                   -> VIOLATION

A second pass ("widened") re-executes the same histories with arbitrary finite doubles substituted
for the model's value alphabet and judges every step with the numeric bound oracle
|x' - x| <= 0.5 * 10^-p (relative for %e / %g), in exact rational arithmetic (c18_widen.py).

Instance families in which the model is covariant (Storage.tla header), all with expectations that do
not come from the module under test:
  title enumeration   Storage_title.cfg (table 7: one column per format class) replayed once per batch
                      of titles taken from the PINNED copies of FLOATS / INTS / LONGFLOATS / EXPONENTIALS
                      (c18_widen.py, 179 titles) and a list of unknown names: every title goes through
                      writefile/readfile and both hdf writers / the three hdf readers and is compared
                      with the model's decimals, dtype class and exact values
  sparse dtypes       one of four (pixel int, pixel float, index) dtype triples per history; dtype.str and
                      the itype attribute must survive
  float32 columns     in the widened pass
  value kinds         the python TYPE that carries a parameter-like value (header parameters, parameter
                      dictionaries, sparse meta attributes, grain names / peak counts): one of python objects,
                      numpy float64/int64/str_ scalars, 0-d arrays, float32/int32 scalars per history
                      (c18_replay.PAR_KINDS, variant // 4; every kind must reach a writer in every family);
                      c18_extra.value_kinds has the full kind x route matrix incl. arbitrary float32 values
  near twins          every second history of the widened pass gives o2 the values of o1 changed in the last
                      bit / 6th digit / +-1 (integer typed) / sign of zero: every overwrite (hdf tables, grains,
                      sparse frames, text files in place) also runs with nearly equal data and must store
                      exactly the new values; at the level of the model: action Nudge, Storage_near.cfg
  c18_extra.py        integers beyond 2^53, long grain lists, hand-edited text files (ragged last row,
                      blank lines), default group names and compression of the hdf writers
Step laws of the hdf routes compare the sign of zero (text routes: "-0.0000" is within the precision).
"""
from __future__ import print_function
import os, sys, json, time, random, traceback, shutil
import multiprocessing

import common
import c18_replay as R

PROP = "C18"
FINDING = "C18-hdf-stale-titles"
TITLE_CFG = "Storage_title.cfg"

# family -> (cfgs quick, cfgs thorough, operations that must occur in the emitted histories)
CONFIGS = {
    "table": (["Storage_tab_q.cfg"], ["Storage_tab_t.cfg", "Storage_tab_t4.cfg"],
              ["WriteText", "ReadText", "WriteHdf", "WriteHdfObj", "ReadHdf", "ReadAuto", "ReadMmap", "DropRow",
               "ConvHdf"]),
    "pars": (["Storage_par_q.cfg"], ["Storage_par_t.cfg"], ["SavePars", "LoadFresh", "LoadInto"]),
    "grains": (["Storage_gr_q.cfg"], ["Storage_gr_t.cfg"],
               ["WriteGrains", "ReadGrains", "WriteUbis", "ReadUbis", "WriteGrainsH5", "ReadGrainsH5",
                "PutGrainH5", "Reverse"]),
    "sparse": (["Storage_sp_q.cfg"], ["Storage_sp_t.cfg"], ["WriteSparse", "ReadSparse"]),
}
WRITES = {"WriteText", "WriteHdf", "WriteHdfObj", "ConvHdf", "SavePars", "WriteGrains", "WriteUbis", "WriteGrainsH5",
          "PutGrainH5", "WriteSparse"}
READS = {"ReadText", "ReadHdf", "ReadAuto", "ReadMmap", "LoadFresh", "LoadInto", "ReadGrains", "ReadUbis",
         "ReadGrainsH5", "ReadSparse"}
WRITER_OF = {"WriteHdf": "colfile_to_hdf", "ConvHdf": "colfile_to_hdf", "WriteSparse": "sparse_frame.to_hdf_group"}
# writers that can overwrite what is in a file: a near twin (c18_widen.Widener) must reach each of them
# (text writers and ConvHdf are counted as well; quantisation to the print precision can hide a near change)
NEAR_OPS = {"table": ["WriteHdf"], "pars": [], "grains": ["PutGrainH5"], "sparse": ["WriteSparse"]}
NEAR_CFG = "Storage_near.cfg"
NPROC = 8
WORKERS = int(os.environ.get("C18_WORKERS", "16"))


def hkey(hist):
    return tuple((a["op"], a["o"], a["p"], a["g"], tuple(a["sd"])) for a in hist)


def parse_records(printed):
    """TLC Emit lines -> {key: (hist, worldA, worldF)}; returns (records, skipped)"""
    recs, skipped = {}, 0
    for line in printed:
        try:
            r = json.loads(line)
            h = r["h"]
            a = r["a"]
            f = r["f"]
            if isinstance(f, dict) and f.get("same") is True:
                f = a
            recs[hkey(h)] = (h, a, f)
        except Exception:
            skipped += 1
    return recs, skipped


def leaves(recs):
    keys = set(recs)
    pref = set()
    for k in keys:
        if len(k) > 1:
            pref.add(k[:-1])
    return sorted(k for k in keys if k not in pref)


def expectations(recs, key):
    """model worlds after every prefix of the history (prefix closed by construction)"""
    ea, ef = [], []
    for i in range(1, len(key) + 1):
        try:
            h, a, f = recs[key[:i]]
        except KeyError:
            raise common.MachineryError("emitted histories are not prefix closed: %r" % (key[:i],))
        ea.append(a)
        ef.append(f)
    return recs[key][0], ea, ef


def seeds_of(worldA0):
    return worldA0["mem"]


# ------------------------------------------------------------------------------------------
# F11: does the model explain the divergence between the two worlds by stale names only?
def stale_explained(hist, ea, ef):
    """returns (True, description) when the first step at which the as-is and intended worlds differ
    is a successful WriteHdf / WriteSparse into an existing group whose only effect of difference is
    the set of datasets of names the written object lacks."""
    k = None
    for i in range(len(hist)):
        if ea[i] != ef[i]:
            k = i
            break
    if k is None or k == 0:
        return False, "worlds do not differ"
    a = hist[k]
    if a["op"] not in ("WriteHdf", "ConvHdf", "WriteSparse"):
        return False, "first difference at %s" % a["op"]
    if ea[k]["res"] != "ok" or ef[k]["res"] != "ok":
        return False, "first difference is not a successful write"
    p, g, o = a["p"], a["g"], a["o"]
    pre = ea[k - 1]
    if pre != ef[k - 1]:
        return False, "pre states differ"
    if a["op"] == "ConvHdf":            # the written object is the text file at the other path
        other = [q for q in pre["fs"] if q != p]
        if len(other) != 1 or pre["fs"][other[0]]["k"] != "text":
            return False, "ConvHdf without a text source"
        x = pre["fs"][other[0]]
    else:
        x = pre["mem"][o]
    names_key = "px" if a["op"] == "WriteSparse" else "ds"
    new = set(x["pxo"]) if a["op"] == "WriteSparse" else set(x["titles"])
    f0 = pre["fs"][p]
    if f0["k"] != "hdf" or g not in R.D(f0["groups"]):
        return False, "group did not exist"
    old = R.D(R.D(f0["groups"])[g][names_key])
    stale = set(old) - new
    if not stale or not (new < (set(old) | new)):
        return False, "no stale names"
    ga = R.D(R.D(ea[k]["fs"][p]["groups"])[g][names_key])
    gf = R.D(R.D(ef[k]["fs"][p]["groups"])[g][names_key])
    if set(ga) != set(old) | new or set(gf) != new:
        return False, "dataset names are not (old + new) / new"
    for t in new:
        if ga[t] != gf[t]:
            return False, "written dataset %s differs between worlds" % t
    for t in stale:
        if ga[t] != old[t]:
            return False, "stale dataset %s changed" % t
    earlier = [b for b in hist[1:k] if b["op"] in ("WriteHdf", "WriteHdfObj", "ConvHdf", "WriteSparse")
               and b["p"] == p and b["g"] == g]
    if not earlier:
        return False, "no earlier write to the group"
    # nothing else differs at step k
    for q in ea[k]["fs"]:
        if q != p and ea[k]["fs"][q] != ef[k]["fs"][q]:
            return False, "other file differs"
    if ea[k]["mem"] != ef[k]["mem"]:
        return False, "memory differs"
    return True, "%s{%s} into group %s:%s holding {%s} leaves stale {%s}" % (
        a["op"], ",".join(sorted(new)), p, g, ",".join(sorted(old)), ",".join(sorted(stale)))


# ------------------------------------------------------------------------------------------
# parallel replay.  ImageD11's extension uses OpenMP threads, so fork() is unsafe (cImageD11 warns and
# the pool dead-locks): workers are *spawned*, each loads the emitted records from a file.
_G = {}


def _init(shadow, scratch, recfile, widen_all=True):
    _G["widen_all"] = widen_all
    import gc
    common._scratch = scratch               # share the parent's scratch directory (removed by the parent)
    common.use_shadow(shadow)
    with open(recfile) as f:
        printed = f.read().splitlines()
    recs, _ = parse_records(printed)
    _G["recs"], _G["keys"] = recs, leaves(recs)
    gc.collect()
    gc.freeze()          # the emitted records are long lived: keep them out of later collections


def _work(args):
    family, lo, hi, root, widen = args[:5]
    batch = args[5] if len(args) > 5 else None          # title enumeration: number of the title batch
    sel = args[6] if len(args) > 6 else None            # ... and the indices of the histories it replays
    recs, keys = _G["recs"], _G["keys"]
    out = []
    for n in (range(lo, hi) if sel is None else sel):
        key = keys[n]
        try:
            hist, ea, ef = expectations(recs, key)
            import c18_widen as W
            if batch is not None:
                variant = (n + batch) % 16
                ren = W.title_batches()[batch]
                r = replay_titles(hist, ea, ef, os.path.join(root, "t%d_%d" % (batch, n)), variant, ren)
                r["n"], r["variant"], r["batch"], r["rename"] = n, variant, batch, ren
                out.append(r)
                continue
            variant = n % 16         # API route / sparse dtypes (mod 4) x value kind of the parameters (div 4)
            r = R.replay(family, hist, seeds_of(ea[0]), ea, ef, os.path.join(root, "b%d" % n), variant,
                         relations=W.relations)
            r["n"] = n
            r["variant"] = variant
            if widen and (_G.get("widen_all", True) or n % 3 == 0):
                r["widen"] = W.replay_widened(family, hist, seeds_of(ea[0]), ea, ef,
                                              os.path.join(root, "w%d" % n), seed=widen * 1000003 + n)
            out.append(r)
        except common.MachineryError:
            raise
        except Exception:
            out.append({"n": n, "crash": traceback.format_exc()})
    return out


def renamed_seeds(seeds_raw, ren):
    raw = {}
    for o, x in seeds_raw.items():
        x = dict(x)
        x["titles"] = [ren[t] for t in x["titles"]]
        x["cols"] = {ren[t]: c for t, c in R.D(x["cols"]).items()}
        x["dt"] = {ren[t]: c for t, c in R.D(x["dt"]).items()}
        raw[o] = x
    return raw


def replay_titles(hist, ea, ef, root, variant, ren):
    """one history of Storage_title.cfg with the model's titles replaced by `ren` (real objects and
    expected worlds alike): compared with the model's decimals / dtype classes / exact values"""
    import c18_widen as W
    return R.replay("table", hist, renamed_seeds(seeds_of(ea[0]), ren), ea, ef, root, variant,
                    relations=W.relations, prep=lambda cw: W.rename_world(cw, ren))


def replay_all(family, recs, keys, printed, shadow, widen=0, nproc=NPROC, widen_all=True, batches=None, sel=None):
    _G["widen_all"] = widen_all
    root = os.path.join(common.scratch(), "fs_%s_%d" % (family, int(time.time() * 1000) % 100000))
    os.makedirs(root)
    n = len(keys)
    chunk = max(1, min(200, n // (nproc * 4) + 1))
    jobs = [(family, lo, min(n, lo + chunk), root, widen) for lo in range(0, n, chunk)]
    if batches is not None:
        jobs = [(family, 0, n, root, 0, b, tuple(sel if sel is not None else range(n))) for b in batches]
    if nproc <= 1 or (n if batches is None else len(jobs) * len(jobs[0][6])) < 200:
        import gc
        _G["recs"], _G["keys"] = recs, keys
        gc.collect()
        gc.freeze()
        res = [_work(j) for j in jobs]
    else:
        recfile = os.path.join(root, "records.jsonl")
        with open(recfile, "w") as f:
            f.write("\n".join(printed))
        import concurrent.futures as cf
        ctx = multiprocessing.get_context("spawn")
        try:
            with cf.ProcessPoolExecutor(nproc, mp_context=ctx, initializer=_init,
                                        initargs=(shadow, common.scratch(), recfile, widen_all)) as pool:
                res = list(pool.map(_work, jobs))
        except cf.process.BrokenProcessPool as e:
            raise common.MachineryError("a replay worker died (%s)" % e)
    out = [r for part in res for r in part]
    out.sort(key=lambda r: (r.get("batch", 0), r["n"]))
    shutil.rmtree(root, True)
    return out


# ------------------------------------------------------------------------------------------
class Judge(object):
    def __init__(self, chk, replay_path=None):
        self.chk = chk
        self.replay_path = replay_path      # --replay: re-judge, do not write new replay files
        self.viol = {}       # signature -> (len, what, replay object)
        self.stale = {}      # description -> (len, replay object)
        self.stale_n = {}    # description -> number of histories
        self.nstale = 0

    def case(self, family, cfg, hist, ea, ef, r, mode="model", extra=None):
        chk = self.chk
        chk.traces += 1
        ops = [a["op"] for a in hist[1:]]
        nontriv = any(o in WRITES for o in ops) and any(
            ops[j] in READS for i in range(len(ops)) if ops[i] in WRITES for j in range(i + 1, len(ops)))
        chk.case((family, hkey(hist), mode), nontrivial=nontriv)
        if "crash" in r:
            raise common.MachineryError("replay crashed:\n" + r["crash"])
        chk.evaluations += r.get("checks", 0)
        if r.get("order_dev") and not mode.startswith("titles"):     # (substituted names: the order is not the model's)
            chk.notes["hdf_title_order_deviations"] = chk.notes.get("hdf_title_order_deviations", 0) + 1
        if r.get("nkinded") and any(o in WRITES for o in ops):
            vk = chk.notes.setdefault("value_kinds", {}).setdefault(family, {})
            vk[r["pk"]] = vk.get(r["pk"], 0) + 1
        if r["okF"]:
            return "held"
        # the reproducer is the history up to the step at which the real code leaves the intended world
        k = r.get("stepF", len(hist) - 1)
        if not r["okA"]:
            k = max(k, r.get("stepA", k))
        hist, ea, ef = hist[:k + 1], ea[:k + 1], ef[:k + 1]
        obj = {"family": family, "cfg": cfg, "mode": mode, "hist": hist, "expA": ea, "expF": ef,
               "variant": r.get("variant", 0)}
        obj.update(extra or {})
        if r["okA"]:
            ok, why = stale_explained(hist, ea, ef)
            if ok:
                self.nstale += 1
                self.stale_n[why] = self.stale_n.get(why, 0) + 1
                old = self.stale.get(why)
                if old is None or len(hist) < old[0]:
                    obj["what"] = why
                    self.stale[why] = (len(hist), obj)
                return "stale"
            what = "real code follows the as-is model but the model does not explain it as F11 (%s): %s" % (
                why, r["firstF"])
        else:
            what = "%s%s: %s" % (" ; ".join(R._opstr(a) for a in hist),
                                 (" with titles %s" % (extra["rename"],)) if extra and extra.get("rename") else "",
                                 r["firstF"])
            if r["firstA"] != r["firstF"]:
                what += "  [as-is world: %s]" % r["firstA"]
        sig = (family, r.get("sigF"))
        old = self.viol.get(sig)
        if old is None or len(hist) < old[0]:
            self.viol[sig] = (len(hist), what, obj)
        return "violation"

    def widened(self, family, cfg, hist, ea, ef, r):
        w = r.get("widen")
        if w is None:
            return
        self.chk.evaluations += w.get("checks", 0)
        nt = self.chk.notes
        nt["widened_float32_columns"] = nt.get("widened_float32_columns", 0) + w.get("f32_columns", 0)
        if w.get("near"):
            nr = nt.setdefault("near_twins", {}).setdefault(family, {"histories": 0, "near_overwrites": {}})
            nr["histories"] += 1
            for op, k in (w.get("near_overwrites") or {}).items():
                nr["near_overwrites"][op] = nr["near_overwrites"].get(op, 0) + k
        if w.get("crash"):
            raise common.MachineryError("widened replay crashed:\n" + w["crash"])
        if w["fail"]:
            k = w.get("step")
            if k is not None:        # values are drawn when the seed objects are built: a prefix reproduces
                hist, ea, ef = hist[:k + 1], ea[:k + 1], ef[:k + 1]
            sig = (family, w.get("sig"))
            old = self.viol.get(sig)
            if old is None or (len(hist) < old[0] and old[2].get("mode") == "widened"):
                self.viol[sig] = (len(hist), "widened values: %s: %s" % (
                    " ; ".join(R._opstr(a) for a in hist), w["fail"]),
                    {"family": family, "cfg": cfg, "mode": "widened", "hist": hist, "expA": ea, "expF": ef,
                     "seed": w["seed"]})

    def report(self):
        chk = self.chk
        entry = chk.finding(FINDING)
        # the class the entry names: which writers it covers (default: the one DESIGN F11 names)
        covered = []
        if entry is not None:
            covered = list((entry.get("match") or {}).get("writers", ["colfile_to_hdf"]))
        counts = {}
        for why, (n, obj) in sorted(self.stale.items(), key=lambda kv: kv[1][0]):
            writer = WRITER_OF[[a for a in obj["hist"] if a["op"] in WRITER_OF][-1]["op"]]
            if writer in covered:
                counts[writer] = counts.get(writer, 0) + self.stale_n.get(why, 1)
            else:
                # one violation (shortest history) per writer when the finding does not cover it
                sig = ("stale", writer)
                old = self.viol.get(sig)
                if old is None or n < old[0]:
                    self.viol[sig] = (n, "F11 (%s not covered by a known_findings.json entry %s): %s" % (
                        writer, FINDING, why), obj)
        if counts:
            chk.known_finding(FINDING, "writing an object with fewer titles into an existing HDF5 group leaves the "
                                       "datasets of the dropped titles, the set of titles is not preserved (%s)" %
                              ", ".join(sorted(counts)))
            chk.known[FINDING][0] = sum(counts.values())
        chk.notes["stale_histories"] = self.nstale
        chk.notes["stale_classes"] = sorted(self.stale)[:12]
        for sig, (n, what, obj) in sorted(self.viol.items(), key=lambda kv: (kv[1][0], str(kv[0]))):
            if self.replay_path:
                chk.violations.append((what, self.replay_path))
                print("  violation: %s" % what)
            else:
                chk.violation(what, obj)


# ------------------------------------------------------------------------------------------
def run_family(chk, judge, family, tier, widen, shadow):
    cfgq, cfgt, cover = CONFIGS[family]
    for cfg in (cfgq if tier == "quick" else cfgt):
        run_cfg(chk, judge, family, cfg, cover, tier, widen, shadow)


def run_cfg(chk, judge, family, cfg, cover, tier, widen, shadow, keep=None):
    res = common.run_tlc("Storage", os.path.join(common.SPECS, cfg), workers=WORKERS, coverage=(tier != "quick"),
                         timeout=1500, heap="6g")
    chk.add_tlc("Storage %s (%s)" % (family, cfg), res, require_cover=cover)
    if res.violated:
        raise common.MachineryError("TLC: invariant %s violated in %s (the laws must hold on the model)\n%s" % (
            res.violated, cfg, res.stdout[-3000:]))
    recs, skipped = parse_records(res.printed)
    if skipped or len(recs) != res.states:
        res = common.run_tlc("Storage", os.path.join(common.SPECS, cfg), workers=1, timeout=3000, heap="6g")
        recs, skipped = parse_records(res.printed)
        if skipped or len(recs) != res.states:
            raise common.MachineryError("%s: %d emitted records for %d states (%d unparsable)" % (
                cfg, len(recs), res.states, skipped))
    keys = leaves(recs)
    if keep is not None:
        keys = [k for k in keys if keep(k)]
    opcount = {}
    for k in recs:
        for a in k[1:]:
            opcount[a[0]] = opcount.get(a[0], 0) + 1
    for op in cover:
        if not opcount.get(op):
            raise common.MachineryError("vacuity: operation %s in no emitted history of %s" % (op, cfg))
    t0 = time.time()
    results = replay_all(family, recs, keys, res.printed, shadow, widen=widen, widen_all=(tier != "quick"))
    verdicts = {}
    for r in results:
        hist, ea, ef = expectations(recs, keys[r["n"]])
        v = judge.case(family, cfg, hist, ea, ef, r)
        verdicts[v] = verdicts.get(v, 0) + 1
        judge.widened(family, cfg, hist, ea, ef, r)
        ops = [a["op"] for a in hist[1:]]
        if len(chk.samples) < 4 and len(hist) >= 4 and ops[-1] in READS and any(o in WRITES for o in ops) \
                and r["n"] % 89 == 0 and family not in [x.get("family") for x in chk.samples]:
            chk.sample({"family": family, "history": [R._opstr(a) for a in hist], "verdict": v})
    if family == "sparse":
        vc = chk.notes.setdefault("sparse_dtype_variants", {})
        for r in results:
            d = R.SPARSE_DTYPES[r.get("variant", 0) % len(R.SPARSE_DTYPES)]
            k = "%s/%s/%s" % (d["i"], d["f"], d["itype"])
            vc[k] = vc.get(k, 0) + 1
    vk = chk.notes.get("value_kinds", {}).get(family, {})
    for pk in R.PAR_KINDS:
        if not vk.get(pk):
            raise common.MachineryError("vacuity: no history of %s hands parameter values of kind %s to a writer" % (cfg, pk))
    nr = chk.notes.get("near_twins", {}).get(family, {}).get("near_overwrites", {})
    for op in NEAR_OPS[family]:
        if widen and not nr.get(op) and not judge.viol:      # (a broken writer changes what is counted)
            raise common.MachineryError("vacuity: no near twin of %s overwrites nearly equal data with %s" % (cfg, op))
    chk.notes.setdefault("families", {})[cfg] = {
        "family": family, "states": res.states, "histories_replayed": len(keys), "verdicts": verdicts,
        "ops_in_histories": opcount, "replay_wall_s": round(time.time() - t0, 1)}
    return recs, keys


def run_titles(chk, judge, shadow):
    """title enumeration (see the module docstring): Storage_title.cfg x every batch of pinned titles"""
    import c18_widen as W
    cover = ["WriteText", "ReadText", "WriteHdf", "WriteHdfObj", "ReadHdf", "ReadAuto", "ReadMmap"]
    res = common.run_tlc("Storage", os.path.join(common.SPECS, TITLE_CFG), workers=WORKERS, timeout=900, heap="2g")
    chk.add_tlc("Storage titles (%s)" % TITLE_CFG, res, require_cover=cover)
    if res.violated:
        raise common.MachineryError("TLC: invariant %s violated in %s\n%s" % (res.violated, TITLE_CFG, res.stdout[-3000:]))
    recs, skipped = parse_records(res.printed)
    if skipped or len(recs) != res.states:
        res = common.run_tlc("Storage", os.path.join(common.SPECS, TITLE_CFG), workers=1, timeout=900, heap="2g")
        recs, skipped = parse_records(res.printed)
        if skipped or len(recs) != res.states:
            raise common.MachineryError("%s: %d emitted records for %d states" % (TITLE_CFG, len(recs), res.states))
    keys = leaves(recs)
    # the two seed objects are the same table: the leaves "one writer of o1 ; one reader into o1" are replayed
    # per batch (writer ; writer leaves do not depend on the names and are covered by the table family)
    sel = [i for i, k in enumerate(keys) if len(k) == 3 and k[1][0] in WRITES and k[1][1] == "o1"
           and k[2][0] in READS and k[2][1] == "o1"]
    routes = sorted(set((keys[i][1][0], keys[i][2][0]) for i in sel))
    for wr in ("WriteText", "WriteHdf", "WriteHdfObj"):
        for rd in (("ReadText",) if wr == "WriteText" else ("ReadText", "ReadHdf", "ReadAuto", "ReadMmap")):
            if (wr, rd) not in routes:
                raise common.MachineryError("vacuity: route %s ; %s not among the leaves of %s" % (wr, rd, TITLE_CFG))
    batches = W.title_batches()
    t0 = time.time()
    # (in this process: a few hundred two-step histories cost less than starting the worker pool)
    results = replay_all("table", recs, keys, res.printed, shadow, batches=list(range(len(batches))), sel=sel, nproc=1)
    if len(results) != len(batches) * len(sel):
        raise common.MachineryError("title enumeration: %d results for %d cases" % (len(results), len(batches) * len(sel)))
    done = {}
    verdicts = {}
    for r in results:
        hist, ea, ef = expectations(recs, keys[r["n"]])
        v = judge.case("table", TITLE_CFG, hist, ea, ef, r, mode="titles/%d" % r.get("batch", -1),
                       extra={"rename": r.get("rename")})
        verdicts[v] = verdicts.get(v, 0) + 1
        route = "text" if hist[1]["op"] == "WriteText" else hist[1]["op"]
        for t in (r.get("rename") or {}).values():
            done.setdefault(t, set()).add(route)
    want = [t for t in W.CLASS_OF]
    missing = [t for t in want if done.get(t) != {"text", "WriteHdf", "WriteHdfObj"}]
    if missing:
        raise common.MachineryError("vacuity: titles not exercised by every writer: %s" % missing[:10])
    chk.notes["title_enumeration"] = {
        "pinned_titles": {c: len(ts) for c, ts in W.CLASS_TITLES.items()}, "titles_exercised": len(done),
        "batches": len(batches), "routes": ["%s;%s" % wr for wr in routes], "cases": len(results),
        "verdicts": verdicts, "replay_wall_s": round(time.time() - t0, 1),
        "module_table_vs_pinned": W.formats_note()}


def run_near(chk, judge, tier, shadow):
    """overwriting with nearly equal data at the level of the specification: Storage_near.cfg (action Nudge)"""
    cover = ["WriteText", "ReadText", "WriteHdf", "WriteHdfObj", "ReadHdf", "Nudge"]
    # replayed: the histories with a write after a Nudge (the others are histories of the table family)
    def keep(k):
        ops = [a[0] for a in k]
        return "Nudge" in ops and any(o in WRITES for o in ops[ops.index("Nudge") + 1:])
    recs, keys = run_cfg(chk, judge, "table", NEAR_CFG, cover, tier, 0, shadow, keep=keep)
    pats = {"WriteHdf": 0, "WriteText": 0}
    for k in keys:
        if len(k) == 4 and k[2][0] == "Nudge" and k[1][0] == k[3][0] and k[1][0] in pats and k[1][1:4] == k[3][1:4] \
                and k[2][1] == k[3][1]:
            pats[k[1][0]] += 1
    if not all(pats.values()):
        raise common.MachineryError("vacuity: no history writer ; Nudge(o) ; writer(o) in %s: %s" % (NEAR_CFG, pats))
    chk.notes["near_model_histories"] = pats


def run_stale(chk, judge):
    """the design-level counterexample: TLC violates InvStale; it is confirmed against the real code"""
    cfg = "Storage_stale.cfg"
    res = common.run_tlc("Storage", os.path.join(common.SPECS, cfg), workers=1, timeout=600)
    chk.add_tlc("Storage stale (expected violation of InvStale)", res)
    if "InvStale" not in res.violated:
        raise common.MachineryError("Storage_stale.cfg: InvStale was expected to be violated (F11 model)\n" +
                                    res.stdout[-2000:])
    recs, skipped = parse_records(res.printed)
    if skipped:
        raise common.MachineryError("stale cfg: unparsable records")
    # the violating state is the last one printed
    last = json.loads(res.printed[-1])
    key = hkey(last["h"])
    hist, ea, ef = expectations(recs, key)
    r = R.replay("table", hist, seeds_of(ea[0]), ea, ef, os.path.join(common.scratch(), "stale_cex"))
    chk.notes["tlc_counterexample"] = {"history": [R._opstr(a) for a in hist],
                                       "real_follows_as_is_model": bool(r["okA"]),
                                       "real_follows_intended_model": bool(r["okF"])}
    judge.case("table", cfg, hist, ea, ef, r, mode="tlc-counterexample")


def run(tier, replay=None):
    chk = common.Check(PROP, tier)
    shadow = common.build_shadow("normal")
    common.use_shadow(shadow)
    if replay:
        return run_replay(chk, replay)
    judge = Judge(chk)
    widen = common.seed() + 1         # seed of the widened pass
    chk.notes["hdf_title_order_deviations"] = 0
    for family in ("table", "pars", "grains", "sparse"):
        run_family(chk, judge, family, tier, widen, shadow)
    run_titles(chk, judge, shadow)
    run_near(chk, judge, tier, shadow)
    run_stale(chk, judge)
    # widened instances beyond the TLC alphabet (ints that are not binary64 values, grain lists longer than ten)
    import c18_extra
    xd = os.path.join(common.scratch(), "c18_extra")
    os.makedirs(xd, exist_ok=True)
    extra = c18_extra.run_extra(chk, xd, common.seed())
    if tier == "thorough":
        res = common.run_tlc("Storage", os.path.join(common.SPECS, "Storage_tab_d5.cfg"), workers=WORKERS,
                             coverage=True, timeout=1500, heap="6g")
        chk.add_tlc("Storage table depth 5 (invariants only)", res,
                    require_cover=["WriteText", "ReadText", "WriteHdf", "ReadHdf", "DropRow"])
        if res.violated:
            raise common.MachineryError("TLC: %s violated in Storage_tab_d5.cfg" % res.violated)
        selftest()
    judge.report()
    for what, case in extra:
        chk.violation(what, case)
    chk.rule = ("one representative history per distinct (state, depth) of Storage.tla; every maximal history "
                "is executed with real files and compared with the model after every step; Storage_title.cfg "
                "once per batch of pinned titles (all 179 + unknown names); Storage_near.cfg: every history with a "
                "write after a Nudge; value kind of the parameters rotates with the history; non-trivial = a write "
                "followed later by a read")
    chk.exhaustive = True
    chk.assumptions = [
        "python float()/int()/Fraction parse decimal text exactly (used to observe file contents)",
        "h5py reports dataset names, dtypes, shapes, values and attributes faithfully",
        "sparse_frame meta is merged into dataset attributes (attrs.update), the proposed repair of F10"]
    return chk.finish()


def run_replay(chk, path):
    with open(path) as f:
        obj = json.load(f)["case"]
    if "extra" in obj:          # an instance family of c18_extra.py: the family is re-executed (same seed)
        import c18_extra
        xd = os.path.join(common.scratch(), "c18_extra")
        os.makedirs(xd, exist_ok=True)
        for what, case in c18_extra.run_extra(chk, xd, common.seed()):
            if case.get("extra") == obj["extra"]:
                chk.violations.append((what, path))
                print("  violation: %s" % what)
        chk.rule = "replay of one instance family of c18_extra.py"
        chk.exhaustive = False
        return chk.finish()
    family, hist, ea, ef = obj["family"], obj["hist"], obj["expA"], obj["expF"]
    judge = Judge(chk, replay_path=path)
    if obj.get("mode") == "widened":
        import c18_widen as W
        w = W.replay_widened(family, hist, seeds_of(ea[0]), ea, ef,
                             os.path.join(common.scratch(), "replay_w"), seed=obj["seed"])
        r = {"okA": True, "okF": True, "firstA": None, "firstF": None, "widen": w}
        judge.case(family, obj.get("cfg"), hist, ea, ef, r, mode="replay")
        judge.widened(family, obj.get("cfg"), hist, ea, ef, r)
    else:
        import c18_widen as W
        if obj.get("rename"):
            r = replay_titles(hist, ea, ef, os.path.join(common.scratch(), "replay_b"), obj.get("variant", 0),
                              obj["rename"])
        else:
            r = R.replay(family, hist, seeds_of(ea[0]), ea, ef, os.path.join(common.scratch(), "replay_b"),
                         obj.get("variant", 0), relations=W.relations)
        r["variant"] = obj.get("variant", 0)
        v = judge.case(family, obj.get("cfg"), hist, ea, ef, r, mode="replay",
                       extra={"rename": obj.get("rename")} if obj.get("rename") else None)
        print("replay: %s -> %s%s" % (" ; ".join(R._opstr(a) for a in hist), v,
                                      "" if v == "held" else "  (%s)" % (r["firstF"],)))
    judge.report()
    chk.rule = "replay of one saved history"
    chk.exhaustive = False
    return chk.finish()


# ------------------------------------------------------------------------------------------
def selftest():
    """the binding must reject a perturbed expectation"""
    import copy
    if "ImageD11" not in sys.modules:
        common.use_shadow(common.build_shadow("normal"))
    res = common.run_tlc("Storage", os.path.join(common.SPECS, "Storage_stale.cfg"), workers=1, timeout=600)
    recs, _ = parse_records(res.printed)
    key = [k for k in leaves(recs) if len(k) >= 2 and k[1][0] == "WriteHdf"][0]
    hist, ea, ef = expectations(recs, key)
    root = common.scratch()
    r = R.replay("table", hist, seeds_of(ea[0]), ea, ef, os.path.join(root, "st0"))
    if not r["okA"]:
        raise common.MachineryError("selftest: unperturbed history rejected: %s" % r["firstA"])
    # 1. one value of one dataset in the expected file
    bad = copy.deepcopy(ea)
    grp = R.D(bad[1]["fs"][hist[1]["p"]]["groups"])[hist[1]["g"]]
    t = sorted(R.D(grp["ds"]))[0]
    v = grp["ds"][t]["data"][0]
    grp["ds"][t]["data"][0] = [v[0], v[1] + 1, v[2]]
    r1 = R.replay("table", hist, seeds_of(ea[0]), bad, bad, os.path.join(root, "st1"))
    # 2. one title removed from the expected group
    bad2 = copy.deepcopy(ea)
    grp = R.D(bad2[1]["fs"][hist[1]["p"]]["groups"])[hist[1]["g"]]
    del grp["ds"][t]
    r2 = R.replay("table", hist, seeds_of(ea[0]), bad2, bad2, os.path.join(root, "st2"))
    # 3. the result flag
    bad3 = copy.deepcopy(ea)
    bad3[1]["res"] = "err"
    r3 = R.replay("table", hist, seeds_of(ea[0]), bad3, bad3, os.path.join(root, "st3"))
    for name, rr in (("value", r1), ("title", r2), ("result", r3)):
        if rr["okA"] or rr["okF"]:
            raise common.MachineryError("selftest: perturbed %s was not rejected" % name)
    import c18_widen as W
    W.selftest(os.path.join(root, "stw"))
    # 4. title enumeration: a title bound to the wrong class (a FLOATS name in the EXPONENTIALS column, an
    #    unknown name in the INTS column) must be rejected, the right binding accepted
    res = common.run_tlc("Storage", os.path.join(common.SPECS, TITLE_CFG), workers=1, timeout=600)
    recs, _ = parse_records(res.printed)
    keys = leaves(recs)
    ren = W.title_batches()[5]
    for first, second, wrong in (("WriteText", "ReadText", {"eps11": "detz"}), ("WriteHdfObj", "ReadHdf", {"Number_of_pixels": "ring"}),
                                 ("WriteHdf", "ReadAuto", {"foo": "onlast"})):
        key = [k for k in keys if len(k) == 3 and k[1][:2] == (first, "o1") and k[2][:2] == (second, "o1")][0]
        hist, ea, ef = expectations(recs, key)
        good = replay_titles(hist, ea, ef, os.path.join(root, "stt0" + first), 0, ren)
        if not good["okF"]:
            raise common.MachineryError("selftest: title batch rejected on %s: %s" % (first, good["firstF"]))
        bad = dict(ren)
        bad.update(wrong)
        rr = replay_titles(hist, ea, ef, os.path.join(root, "stt1" + first), 0, bad)
        if rr["okF"] or rr["okA"]:
            raise common.MachineryError("selftest: title of another class %r accepted by %s ; %s" % (wrong, first, second))
    return True

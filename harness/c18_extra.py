"""C18 widened instances beyond the TLC alphabet of Storage.tla, judged by the same laws (ParRT, GrainRT, GrainH5RT):
   * parameter dictionaries with integers that are not binary64 values (|v| > 2^53), large/small floats, strings
   * grain lists longer than ten (HDF5 group names "0".."N" must come back in list order), every third
     grain with an intensity_info line (its neighbours' names / peak counts must not move)
   * hand-edited / half-written text columnfiles (anchor "readfile: header parsing, ragged last row"): a file
     written by writefile, then a trailing blank line, no final newline, a last row cut after k tokens,
     blank lines in the header.  Expectation = this harness's own parser on the complete rows.
   * default arguments and options of the hdf writers: colfile_to_hdf(name=None) (group = base name of
     c.filename), first argument = file name, compression lzf / gzip incl. overwriting in place;
     colfileobj_to_hdf(name=None) for cf.filename None / relative / absolute, read back with
     colfile_from_hdf(file) (finding C18-colfileobj-default-name-nested, see hdf_default_names)
   * value kinds: the python TYPE that carries a parameter value (python float / int / str, numpy float64 /
     float32 / int64 / int32 / str_ scalars, 0-d arrays, results of numpy arithmetic; bool excluded) x every
     route that stores parameters (header of a text columnfile, .par file, sparse meta attributes, names and
     peak counts of grains in text and hdf).  Expectation: the documented type of the route (text: exactly
     python int / float / str) and the value handed in (a float32 comes back as the float whose float32 is
     the value written)
Every family counts its cases in chk.notes["extra_families"]."""
import os, math, random
from fractions import Fraction
import numpy as np

FINDING_NESTED = "C18-colfileobj-default-name-nested"


def _note(chk, family, n=1):
    d = chk.notes.setdefault("extra_families", {})
    d[family] = d.get(family, 0) + n


def _obs(chk, text):
    o = chk.notes.setdefault("observations", [])
    if text not in o:
        o.append(text)


def _rand_table(rng, W, nrows):
    """titles: one pinned title of every class and one unknown name, in random order; values: any double"""
    titles = [rng.choice(W.CLASS_TITLES[c]) for c in ("f4", "f0", "f12", "e4", "f6")]
    rng.shuffle(titles)
    titles = titles[:rng.randrange(2, 6)]
    cols = {}
    for t in titles:
        c = W.CLASS_OF[t]
        cols[t] = [W.any_int_valued(rng) if c == "f0" else W.any_double(rng, c) for _ in range(nrows)]
    return titles, cols


def _same_value(a, b):
    a, b = float(a), float(b)
    return a == b and math.copysign(1.0, a) == math.copysign(1.0, b)


def text_edits(chk, scratch, seed, probs):
    from ImageD11 import columnfile
    import c18_replay as R
    import c18_widen as W
    rng = random.Random(seed * 7919 + 18)
    for trial in range(6):
        nrows = (2, 3, 5, 2, 7, 4)[trial]
        titles, cols = _rand_table(rng, W, nrows)
        cf = columnfile.colfile_from_dict({t: np.array(cols[t], float) for t in titles})
        cf.parameters.set("a", "b = c")
        cf.parameters.set("wavelength", 0.25)
        path = os.path.join(scratch, "edit_%d.flt" % trial)
        cf.writefile(path)
        base = R.parse_colfile_text(path)               # independent reading of what was written
        if base.get("titles") != titles or "cols" not in base:
            probs.append(("writefile: titles %s written as %s" % (titles, base.get("titles")), {"extra": "text-edits"}))
            continue
        with open(path) as f:
            text = f.read()
        lines = text.splitlines(True)
        nhead = len([l for l in lines if l.startswith("#")])
        last = lines[-1].split()
        edits = [("a trailing blank line", text + "\n", nrows),
                 ("a trailing line of blanks", text + "   \n", nrows),
                 ("no final newline", text.rstrip("\n"), nrows),
                 ("blank lines in the header", "\n" + lines[0] + "  \n" + "".join(lines[1:nhead]) + "\n" + "".join(lines[nhead:]), nrows)]
        for k in sorted(set([1, len(titles) - 1])):
            cut = "".join(lines[:-1]) + "  " + "  ".join(last[:len(last) - k])
            edits.append(("last row cut after %d of %d tokens" % (len(last) - k, len(last)), cut + "\n", nrows - 1))
            edits.append(("last row cut after %d of %d tokens, no newline" % (len(last) - k, len(last)), cut, nrows - 1))
        for name, body, nexp in edits:
            q = os.path.join(scratch, "edit_%d_x.flt" % trial)
            with open(q, "w") as f:
                f.write(body)
            _note(chk, "text-edits")
            chk.case(("extra-text-edit", trial, name))
            chk.traces += 1
            case = {"extra": "text-edits", "edit": name, "file": body}
            try:
                c = columnfile.columnfile(q)
            except Exception as e:
                probs.append(("readfile of a written columnfile with %s raised %s: %s" % (name, type(e).__name__, e), case))
                continue
            if list(c.titles) != titles or c.nrows != nexp:
                probs.append(("readfile of a written columnfile with %s: titles %s, %d rows; expected %s, %d rows (the complete rows)" % (
                    name, list(c.titles), c.nrows, titles, nexp), case))
                continue
            bad = [(t, i) for t in titles for i in range(nexp) if float(c.getcolumn(t)[i]) != float(base["cols"][t][i])]
            if bad:
                t, i = bad[0]
                probs.append(("readfile of a written columnfile with %s: column %s row %d read as %r, the file says %s" % (
                    name, t, i, float(c.getcolumn(t)[i]), base["cols"][t][i]), case))
            for n, (cls, v) in base["pars"].items():
                got = c.parameters.parameters.get(n)
                if R.pytype(got) != ({"I": "int", "F": "float", "S": "str"}[cls], v):
                    probs.append(("readfile of a written columnfile with %s: header parameter %s = %r read as %r" % (name, n, v, got), case))
        # not writer output, not judged: two blank lines at the end
        q = os.path.join(scratch, "edit_%d_y.flt" % trial)
        with open(q, "w") as f:
            f.write(text + "\n\n")
        try:
            c = columnfile.columnfile(q)
            if c.nrows != nrows:
                _obs(chk, "readfile: a written file followed by TWO blank lines reads n+1 rows for n (the extra row is "
                          "uninitialised memory: columnfile.py:332-341 only drops one short last line); hand edited "
                          "input, outside the statement, not judged")
        except Exception as e:
            _obs(chk, "readfile: two trailing blank lines raise %s (not judged)" % type(e).__name__)


def _table_of(c):
    return {t: np.array(c.getcolumn(t)) for t in c.titles}


def _cmp_table(exp, got, ints, what, probs, case):
    """exp: {title: ndarray} of the written object; got: columnfile read back.  Set of titles, values exactly
    (sign of zero included), int64 for the pinned INTS holding integral values"""
    if sorted(exp) != sorted(got.titles):
        probs.append(("%s: titles %s read back as %s" % (what, sorted(exp), sorted(got.titles)), case))
        return False
    for t, a in exp.items():
        b = np.asarray(got.getcolumn(t))
        if len(a) != len(b):
            probs.append(("%s: column %s has %d rows, written %d" % (what, t, len(b), len(a)), case))
            return False
        isint = t in ints and all(float(v) == int(v) for v in a)
        if isint and b.dtype.kind not in "iu":
            probs.append(("%s: integer typed column %s read back with dtype %s" % (what, t, b.dtype), case))
            return False
        if t in ints and not isint:
            continue                      # non integral values in an integer typed column: no demand
        for i in range(len(a)):
            ok = (int(a[i]) == int(b[i])) if isint else _same_value(a[i], b[i])
            if not ok:
                probs.append(("%s: column %s row %d written %r read back %r" % (what, t, i, a[i], b[i]), case))
                return False
    return True


def hdf_default_names(chk, scratch, seed, probs):
    from ImageD11 import columnfile
    import h5py
    import c18_widen as W
    rng = random.Random(seed * 104729 + 18)
    ints = set(W.PINNED_INTS)
    nested = []
    for trial in range(4):
        titles, cols = _rand_table(rng, W, 3)
        src = columnfile.colfile_from_dict({t: np.array(cols[t], float) for t in titles})
        tpath = os.path.join(scratch, "names_%d.flt" % trial)
        src.writefile(tpath)
        c = columnfile.columnfile(tpath)                # c.filename = absolute path of the text file
        exp = _table_of(c)

        def fresh(tag):
            h = os.path.join(scratch, "names_%d_%s.h5" % (trial, tag))
            if os.path.exists(h):
                os.unlink(h)
            return h
        # --- colfile_to_hdf: default name = base name of c.filename; first argument a file name
        for tag, first in (("obj", c), ("fname", tpath)):
            h = fresh(tag)
            case = {"extra": "hdf-default-names", "call": "colfile_to_hdf(%s, h5) (name=None)" % ("cf" if tag == "obj" else "'file.flt'")}
            _note(chk, "hdf-default-name colfile_to_hdf")
            chk.case(("extra-hdf-name", trial, tag))
            chk.traces += 1
            try:
                columnfile.colfile_to_hdf(first, h)
                with h5py.File(h, "r") as hh:
                    groups = list(hh)
                if groups != [os.path.basename(tpath)]:
                    probs.append(("%s: groups %s, expected the base name %s" % (case["call"], groups, os.path.basename(tpath)), case))
                _cmp_table(exp, columnfile.colfile_from_hdf(h), ints, case["call"] + " ; colfile_from_hdf(h5)", probs, case)
                _cmp_table(exp, columnfile.columnfile(h), ints, case["call"] + " ; columnfile(h5)", probs, case)
            except Exception as e:
                probs.append(("%s raised %s: %s" % (case["call"], type(e).__name__, e), case))
        # --- compression options: write, read, overwrite in place (same length), read
        for comp, opts in (("lzf", None), ("gzip", 4)):
            h = fresh(comp)
            case = {"extra": "hdf-compression", "call": "colfile_to_hdf(cf, h5, name='peaks', compression=%r, compression_opts=%r)" % (comp, opts)}
            _note(chk, "hdf-compression")
            chk.case(("extra-hdf-compression", trial, comp))
            chk.traces += 1
            try:
                columnfile.colfile_to_hdf(c, h, name="peaks", compression=comp, compression_opts=opts)
                _cmp_table(exp, columnfile.colfile_from_hdf(h, name="peaks"), ints, case["call"], probs, case)
                c2 = c.copy()
                for t in c2.titles:
                    c2.getcolumn(t)[:] = -c2.getcolumn(t)[::-1]
                columnfile.colfile_to_hdf(c2, h, name="peaks", compression=comp, compression_opts=opts)
                _cmp_table(_table_of(c2), columnfile.colfile_from_hdf(h), ints, case["call"] + " twice (overwrite, same length)", probs, case)
            except Exception as e:
                probs.append(("%s raised %s: %s" % (case["call"], type(e).__name__, e), case))
        # --- colfileobj_to_hdf: default name = str(cf.filename)
        for tag, fname in (("none", None), ("rel", "names_%d.flt" % trial), ("abs", tpath)):
            h = fresh("o" + tag)
            c3 = c.copy()
            c3.filename = fname
            case = {"extra": "hdf-default-names", "call": "colfileobj_to_hdf(cf, h5) (name=None), cf.filename = %r" % (
                fname if tag != "abs" else "/abs/dir/" + os.path.basename(tpath))}
            _note(chk, "hdf-default-name colfileobj_to_hdf")
            chk.case(("extra-hdfobj-name", trial, tag))
            chk.traces += 1
            try:
                columnfile.colfileobj_to_hdf(c3, h)
            except Exception as e:
                probs.append(("%s raised %s: %s" % (case["call"], type(e).__name__, e), case))
                continue
            try:
                back = columnfile.colfile_from_hdf(h)
            except (Exception, AssertionError) as e:
                # the writer succeeded and the default reader does not find the table.  Explained (finding) only if
                # the group sits at the nested path that "/" in the name creates and holds exactly what was written
                why = None
                try:
                    with h5py.File(h, "r") as hh:
                        parts = [x for x in str(fname).split("/") if x]
                        if len(parts) > 1 and list(hh) == [parts[0]] and "/".join(parts) in hh:
                            g = hh["/".join(parts)]
                            tag_ok = g.attrs.get("ImageD11_type") in ("peaks", b"peaks")
                            exact = sorted(g) == sorted(exp) and all(
                                g[t].dtype == (np.int64 if t in ints else np.float64)
                                and len(g[t]) == len(exp[t])
                                and all((int(x) == int(y)) if t in ints else _same_value(x, y)
                                        for x, y in zip(exp[t], g[t][:]) if not (t in ints and float(x) != int(x)))
                                for t in exp)
                            if tag_ok and exact:
                                why = "group created as nested groups %s" % "/".join(["<dir>"] * (len(parts) - 1) + [parts[-1]])
                except Exception:
                    why = None
                what = "%s ; colfile_from_hdf(h5) raised %s: the written table cannot be read back" % (case["call"], type(e).__name__)
                if why is not None:
                    nested.append((what + " (%s)" % why, case))
                else:
                    probs.append((what, case))
                continue
            _cmp_table(exp, back, ints, case["call"] + " ; colfile_from_hdf(h5)", probs, case)
    if nested:
        if chk.finding(FINDING_NESTED) is not None:
            chk.known_finding(FINDING_NESTED, "colfileobj_to_hdf(cf, file) with the default name and a cf.filename containing '/' creates "
                                              "nested groups; colfile_from_hdf cannot find the table")
            chk.known[FINDING_NESTED][0] = len(nested)
        else:
            probs.append(nested[0])


def value_kinds(chk, scratch, seed, probs):
    from ImageD11 import columnfile, parameters, grain, sparseframe
    import h5py
    import c18_replay as R
    rng = random.Random(seed * 15485863 + 18)
    floats = [0.2845666913016934, 152736.55305695778, -0.0, 0.0, 1e-12, -1e12, 1.0 / 3.0, 0.5, 12345.67891, 3.0,
              float(np.radians(0.0625)), rng.uniform(-1, 1) * 10.0 ** rng.uniform(-12, 12)]
    ints = [0, 1, -7, 2048, 2 ** 31 - 1, -2 ** 31, 10 ** 12, rng.randrange(-10 ** 9, 10 ** 9)]
    strs = ["CeO2", "P21/c", "a=b", "x1y2"]
    i32 = lambda v: np.int32(v) if -2 ** 31 <= v < 2 ** 31 else np.int64(v)
    kinds = [("python", float, int, str),
             ("numpy float64 / int64 / str_", np.float64, np.int64, np.str_),
             ("numpy float32 / int32 / str_", np.float32, i32, np.str_),
             ("0-d arrays", lambda v: np.array(v, np.float64), lambda v: np.array(v, np.int64), np.str_),
             ("0-d float32 / int32 arrays", lambda v: np.array(v, np.float32), lambda v: np.array(i32(v)), np.str_),
             ("numpy arithmetic", lambda v: np.mean(np.array([v, v])), lambda v: np.array([v, 0]).sum(), lambda v: np.str_(v[:1]) + v[1:])]

    def same(w, got, exact_type):
        """w: the value handed to the writer; got: what came back"""
        if isinstance(w, np.ndarray):
            w = w[()]
        if isinstance(got, np.ndarray) and got.ndim == 0 and not exact_type:
            got = got[()]
        if isinstance(w, str):
            return (type(got) is str if exact_type else isinstance(got, str)) and str(got) == str(w)
        if isinstance(w, (int, np.integer)):
            if isinstance(got, (bool, np.bool_)) or not (type(got) is int if exact_type else isinstance(got, (int, np.integer))):
                return False
            return int(got) == int(w)
        if not (type(got) is float if exact_type else isinstance(got, (float, np.floating))):
            return False
        back = type(w)(got) if isinstance(w, np.floating) else float(got)       # float32: to the precision handed in
        return back == w and math.copysign(1.0, float(back)) == math.copysign(1.0, float(w))

    def report(route, kname, n, w, got):
        probs.append(("value kind %s, %s: %s handed in as %r (%s) came back as %r (%s)" % (
            kname, route, n, w, type(w).__name__, got, type(got).__name__),
            {"extra": "value-kinds", "route": route, "kind": kname}))

    for ki, (kname, F, I, S) in enumerate(kinds):
        d = {}
        for j, v in enumerate(floats):
            d["f%d" % j] = F(v)
        for j, v in enumerate(ints):
            d["i%d" % j] = I(v)
        for j, v in enumerate(strs):
            d["s%d" % j] = S(v)
        # ---- header of a text columnfile (parameters.set and a parameters object), two cycles
        cf = columnfile.colfile_from_dict({"sc": np.array([1.0, 2.0]), "fc": np.array([3.0, 4.0])})
        for n, v in d.items():
            cf.parameters.set(n, v)
        fp = os.path.join(scratch, "kinds_%d.flt" % ki)
        cf.writefile(fp)
        c2 = columnfile.columnfile(fp)
        c2.writefile(fp)
        c3 = columnfile.columnfile(fp)
        # ---- .par file
        pp = os.path.join(scratch, "kinds_%d.par" % ki)
        parameters.parameters(**d).saveparameters(pp)
        q = parameters.read_par_file(pp)
        q2 = parameters.parameters()
        q2.loadparameters(pp)
        for route, back in (("text columnfile header", c2.parameters.parameters), ("text columnfile header, second cycle", c3.parameters.parameters),
                            (".par file (read_par_file)", q.parameters), (".par file (loadparameters)", q2.parameters)):
            _note(chk, "value kinds")
            chk.case(("extra-value-kinds", ki, route))
            chk.traces += 1
            for n, w in d.items():
                chk.evaluations += 1
                if n not in back or not same(w, back[n], True):
                    report(route, kname, n, w, back.get(n, "<missing>"))
                    break
        # ---- sparse frame meta attributes (numbers; strings as python str: h5py stores no numpy.str_)
        meta = {n: (str(v) if isinstance(v, str) else v) for n, v in d.items()}
        spf = sparseframe.sparse_frame(np.array([0, 1]), np.array([2, 3]), (4, 5))
        spf.set_pixels("intensity", np.array([1.5, 2.5]), meta)
        hp = os.path.join(scratch, "kinds_%d.h5" % ki)
        if os.path.exists(hp):
            os.unlink(hp)
        _note(chk, "value kinds")
        chk.case(("extra-value-kinds", ki, "sparse meta"))
        chk.traces += 1
        try:
            with h5py.File(hp, "a") as h:
                spf.to_hdf_group(h.require_group("f"))
            with h5py.File(hp, "r") as h:
                back = dict(sparseframe.from_hdf_group(h["f"]).meta["intensity"])
            for n, w in meta.items():
                chk.evaluations += 1
                if n not in back or not same(w, R._dec(back[n]), False):
                    report("sparse_frame meta attributes", kname, n, w, back.get(n, "<missing>"))
                    break
        except Exception as e:
            probs.append(("value kind %s: sparse_frame.to_hdf_group / from_hdf_group raised %s: %s" % (kname, type(e).__name__, e),
                          {"extra": "value-kinds", "route": "sparse meta", "kind": kname}))
        # ---- grains: names and peak counts in text and hdf (hdf names as python str, see below)
        gl = []
        for j in range(3):
            g = grain.grain(np.eye(3) * (3.0 + j), translation=[1.0, 2.0, 3.0 + j])
            g.name = S("g%d:%s" % (j, strs[j]))
            g.npks = I(ints[(j + 3) % len(ints)] % 100000)
            g.nuniq = I(ints[(j + 1) % len(ints)] % 1000)
            gl.append(g)
        tp = os.path.join(scratch, "kinds_%d.map" % ki)
        grain.write_grain_file(tp, gl)
        rt = grain.read_grain_file(tp)
        for g in gl:
            g.hname = g.name
            g.name = str(g.name)
        grain.write_grain_file_h5(hp, gl, group_name="grains")
        rh = grain.read_grain_file_h5(hp, group_name="grains")
        for route, back in (("text grain file", rt), ("hdf grain file", rh)):
            _note(chk, "value kinds")
            chk.case(("extra-value-kinds", ki, route))
            chk.traces += 1
            for j, g in enumerate(gl):
                b = back[j] if j < len(back) else None
                for attr in ("name", "npks", "nuniq"):
                    w, got = getattr(g, attr), getattr(b, attr, None)
                    chk.evaluations += 1
                    ok = got is not None and ((str(got).strip() == str(w)) if attr == "name" else int(R._dec(got)) == int(w))
                    if not ok:
                        report(route, kname, "grain %d %s" % (j, attr), w, got)
        # not judged: numpy.str_ handed to h5py (no conversion path): the grain writer swallows the TypeError
        if S is not str:
            hq = os.path.join(scratch, "kinds_%d_s.h5" % ki)
            if os.path.exists(hq):
                os.unlink(hq)
            for g in gl:
                g.name = g.hname
            try:
                grain.write_grain_file_h5(hq, gl)
                if any(not hasattr(b, "name") for b in grain.read_grain_file_h5(hq)):
                    _obs(chk, "grain.to_h5py_group: a name / intensity_info that is a numpy.str_ is silently not stored (h5py has no "
                              "conversion for it, the TypeError is swallowed at grain.py:262); sparse meta attributes of that "
                              "type raise TypeError in h5py; python str is the domain of the hdf routes, not judged")
            except Exception as e:
                _obs(chk, "write_grain_file_h5 with numpy.str_ names raises %s (not judged)" % type(e).__name__)


def run_extra(chk, scratch, seed):
    probs = list(run_extra_pars_grains(chk, scratch, seed))
    value_kinds(chk, scratch, seed, probs)
    text_edits(chk, scratch, seed, probs)
    hdf_default_names(chk, scratch, seed, probs)        # (last: may end with the recorded / pending finding)
    # one VIOLATION per class (family, kind of edit / call): the first instance is the reproducer
    seen, out = set(), []
    for what, case in probs:
        key = (case.get("extra"), "".join(ch for ch in str(case.get("edit") or case.get("call") or case.get("route") or "") if not ch.isdigit()))
        if key not in seen:
            seen.add(key)
            out.append((what, case))
    return out


def run_extra_pars_grains(chk, scratch, seed):
    from ImageD11 import parameters, grain, columnfile
    rng = np.random.default_rng(seed + 1818)
    probs = []
    # ---- parameters: names, int / float / string values with their types (ParRT)
    big = [2 ** 53 + 1, -(2 ** 53 + 1), 10 ** 17 + 3, 12345678901234567891, 2 ** 60, 2 ** 63 - 1, -(10 ** 19 + 7), 0, -1, 7]
    for trial in range(6):
        d = {}
        for k in range(8):
            d["ipar_%d" % k] = int(big[(trial + k) % len(big)]) + int(rng.integers(0, 3)) * (1 if k % 2 else 0)
        d.update({"fpar_a": 0.1, "fpar_b": -2.5e-12, "fpar_c": 3.0e12 + 0.5, "fpar_d": 1.0 / 3.0,
                  "spar_a": "abc", "spar_b": "x1y2", "spar_c": "F", "spar_d": "", "spar_e": "0x1F", "spar_f": "1.5.2"})
        path = os.path.join(scratch, "extra_%d.par" % trial)
        p = parameters.parameters(**d)
        p.saveparameters(path)
        for cycle in range(2):
            q = parameters.parameters()
            q.loadparameters(path)
            for k, v in d.items():
                got = q.parameters.get(k)
                if type(got) is not type(v) or got != v:
                    probs.append(("parameter %s written as %r (%s) read back as %r (%s) [cycle %d]" % (
                        k, v, type(v).__name__, got, type(got).__name__, cycle + 1), {"extra": "pars", "pars": {kk: repr(vv) for kk, vv in d.items()}}))
            q.saveparameters(path)
        # header parameters of a text columnfile go through the same reader
        cf = columnfile.colfile_from_dict({"sc": np.array([1.0, 2.0]), "fc": np.array([3.0, 4.0])})
        cf.parameters = parameters.parameters(**d)
        fp = os.path.join(scratch, "extra_%d.flt" % trial)
        cf.writefile(fp)
        c2 = columnfile.columnfile(fp)
        for k, v in d.items():
            got = c2.parameters.parameters.get(k)
            if type(got) is not type(v) or got != v:
                probs.append(("columnfile header parameter %s written as %r read back as %r (%s)" % (k, v, got, type(got).__name__),
                              {"extra": "flt header"}))
        chk.case(("extra-pars", trial))
        chk.traces += 1
        _note(chk, "parameters beyond 2^53")
    # ---- grain lists: same order, UBI / translation / names / peak counts (GrainRT text, GrainH5RT hdf)
    for n in (1, 3, 10, 11, 12, 25, 120):
        gl = []
        for k in range(n):
            ubi = np.eye(3) * (3.0 + k * 0.01) + rng.normal(size=(3, 3)) * 0.01
            if np.linalg.det(ubi) < 0:
                ubi[0] *= -1
            g = grain.grain(ubi, translation=rng.normal(size=3) * 100)
            g.name = "g%d:sim.flt" % k
            g.npks = 100 + k
            g.nuniq = 50 + k
            if k % 3 == 1:
                g.intensity_info = "sum_of_all = %.3f , middle %d = %g" % (1000.0 + k, k, 0.5 * k)
            gl.append(g)
        tp = os.path.join(scratch, "extra_%d.map" % n)
        hp = os.path.join(scratch, "extra_%d.h5" % n)
        if os.path.exists(hp):
            os.unlink(hp)
        grain.write_grain_file(tp, gl)
        grain.write_grain_file_h5(hp, gl)
        rt = grain.read_grain_file(tp)
        rh = grain.read_grain_file_h5(hp)
        for route, back, exact in (("text", rt, False), ("hdf5", rh, True)):
            if len(back) != n:
                probs.append(("%s grain file: %d grains written, %d read" % (route, n, len(back)), {"extra": "grains", "n": n}))
                continue
            for k, (a, b) in enumerate(zip(gl, back)):
                okubi = np.array_equal(a.ubi, b.ubi) if exact else np.allclose(a.ubi, b.ubi, rtol=5e-9, atol=0)
                okt = np.array_equal(a.translation, b.translation) if exact else np.allclose(a.translation, b.translation, rtol=5e-6, atol=0)
                okn = str(b.name).strip() == a.name and int(b.npks) == a.npks and int(b.nuniq) == a.nuniq
                ia, ib = getattr(a, "intensity_info", None), getattr(b, "intensity_info", None)
                okn = okn and ((ia is None and ib is None) or (ib is not None and ia == str(ib).rstrip()))
                if not (okubi and okt and okn):
                    probs.append(("%s grain file with %d grains: position %d reads back a different grain (name %r, written %r)" % (
                        route, n, k, str(getattr(b, "name", None)).strip(), a.name), {"extra": "grains", "n": n, "route": route}))
                    break
        chk.case(("extra-grains", n))
        chk.traces += 1
        _note(chk, "grain lists (every third grain with intensity_info)")
    return probs

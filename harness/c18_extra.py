"""C18 widened instances beyond the TLC alphabet of Storage.tla, judged by the same laws (ParRT, GrainRT, GrainH5RT):
   * parameter dictionaries with integers that are not binary64 values (|v| > 2^53), large/small floats, strings
   * grain lists longer than ten (HDF5 group names "0".."N" must come back in list order)"""
import os
import numpy as np


def run_extra(chk, scratch, seed):
    from ImageD11 import parameters, grain, columnfile
    rng = np.random.default_rng(seed + 1818)
    probs = []
    # ---- parameters: names, int / float / string values with their types (ParRT)
    big = [2 ** 53 + 1, -(2 ** 53 + 1), 10 ** 17 + 3, 12345678901234567891, 2 ** 60, 2 ** 63 - 1, -(10 ** 19 + 7), 0, -1, 7]
    for trial in range(6):
        d = {}
        for k in range(8):
            d["ipar_%d" % k] = int(big[(trial + k) % len(big)]) + int(rng.integers(0, 3)) * (1 if k % 2 else 0)
        d.update({"fpar_a": 0.1, "fpar_b": -2.5e-12, "fpar_c": 3.0e12 + 0.5, "fpar_d": 1.0 / 3.0,
                  "spar_a": "abc", "spar_b": "x1y2", "spar_c": "F"})
        path = os.path.join(scratch, "extra_%d.par" % trial)
        p = parameters.parameters(**d)
        p.saveparameters(path)
        for cycle in range(2):
            q = parameters.parameters()
            q.loadparameters(path)
            for k, v in d.items():
                got = q.parameters.get(k)
                if type(got) is not type(v) or got != v:
                    probs.append(("parameter %s written as %r (%s) read back as %r (%s) [cycle %d]" % (
                        k, v, type(v).__name__, got, type(got).__name__, cycle + 1), {"extra": "pars", "pars": {kk: repr(vv) for kk, vv in d.items()}}))
            q.saveparameters(path)
        # header parameters of a text columnfile go through the same reader
        cf = columnfile.colfile_from_dict({"sc": np.array([1.0, 2.0]), "fc": np.array([3.0, 4.0])})
        cf.parameters = parameters.parameters(**d)
        fp = os.path.join(scratch, "extra_%d.flt" % trial)
        cf.writefile(fp)
        c2 = columnfile.columnfile(fp)
        for k, v in d.items():
            got = c2.parameters.parameters.get(k)
            if type(got) is not type(v) or got != v:
                probs.append(("columnfile header parameter %s written as %r read back as %r (%s)" % (k, v, got, type(got).__name__),
                              {"extra": "flt header"}))
        chk.case(("extra-pars", trial))
        chk.traces += 1
    # ---- grain lists: same order, UBI / translation / names / peak counts (GrainRT text, GrainH5RT hdf)
    for n in (1, 3, 10, 11, 12, 25, 120):
        gl = []
        for k in range(n):
            ubi = np.eye(3) * (3.0 + k * 0.01) + rng.normal(size=(3, 3)) * 0.01
            if np.linalg.det(ubi) < 0:
                ubi[0] *= -1
            g = grain.grain(ubi, translation=rng.normal(size=3) * 100)
            g.name = "g%d:sim.flt" % k
            g.npks = 100 + k
            g.nuniq = 50 + k
            gl.append(g)
        tp = os.path.join(scratch, "extra_%d.map" % n)
        hp = os.path.join(scratch, "extra_%d.h5" % n)
        if os.path.exists(hp):
            os.unlink(hp)
        grain.write_grain_file(tp, gl)
        grain.write_grain_file_h5(hp, gl)
        rt = grain.read_grain_file(tp)
        rh = grain.read_grain_file_h5(hp)
        for route, back, exact in (("text", rt, False), ("hdf5", rh, True)):
            if len(back) != n:
                probs.append(("%s grain file: %d grains written, %d read" % (route, n, len(back)), {"extra": "grains", "n": n}))
                continue
            for k, (a, b) in enumerate(zip(gl, back)):
                okubi = np.array_equal(a.ubi, b.ubi) if exact else np.allclose(a.ubi, b.ubi, rtol=5e-9, atol=0)
                okt = np.array_equal(a.translation, b.translation) if exact else np.allclose(a.translation, b.translation, rtol=5e-6, atol=0)
                okn = str(b.name).strip() == a.name and int(b.npks) == a.npks
                if not (okubi and okt and okn):
                    probs.append(("%s grain file with %d grains: position %d reads back a different grain (name %r, written %r)" % (
                        route, n, k, str(getattr(b, "name", None)).strip(), a.name), {"extra": "grains", "n": n, "route": route}))
                    break
        chk.case(("extra-grains", n))
        chk.traces += 1
    return probs

"""X03 - replay of the cases emitted by specs/SparseScan.tla into the real ImageD11.sparseframe.SparseScan.

judge(case, mods, fname, gname, light) -> list of (route, kind, message); empty = the implementation agrees with the model
on every array element, pointer, count and Python-level result of the case.

A case is one HDF5 scan group (datasets row, col, intensity, nnz, motor datasets, attributes nframes/shape0/shape1,
the layout ImageD11/sinograms/lima_segmenter.py writes), one SparseScan(...) call for frames a..b-1 and the stage
program of the model (cplabel / lmlabel in all countall / smooth variants on that ONE object, moments(), and
sparse_moments -> sparse_blob2Dproperties on every frame).

Seeded larger cases (prog = "big"): exec_big() runs the same operations on a generated scan and logs every output to
an .npz file; judge_big() (parent process, no ImageD11) evaluates the definitions of the specification's invariants
(PtrOK LoadOK GetOK CpLabelsOK SmoothOK LmLabelsOK CountsOK MomentsOK BlobOK) in Python on the logged arrays.

Run as a script (child process, normal or sanitizer build):  x03_replay.py cases.jsonl out.json light|full
"""
import sys, os, json, io, contextlib
import numpy as np

OMEGANAMES = ['measurement/rot_center', 'measurement/rot', 'measurement/diffrz_center', 'measurement/diffrz']
DTYNAMES = ['measurement/dty_center', 'measurement/dty', 'measurement/diffty_center', 'measurement/diffty']
P32I = -1
PF32 = -12345.0
NPROP = 11
BIG = 65534
IDTYPES = [np.uint16, np.uint32, np.float32]
NNZTYPES = [np.uint32, np.int64, np.uint32, np.int32]


class Mods(object):
    pass


def load_mods(consumer=True):
    m = Mods()
    from ImageD11 import cImageD11, sparseframe
    m.c = cImageD11
    m.sf = sparseframe
    m.props = None
    if consumer:
        try:
            import ImageD11.sinograms.properties as props
            m.props = props
        except Exception as e:      # noqa (reported once by the caller as a note, not as a verdict)
            m.props_error = repr(e)
    return m


def _short(a):
    a = np.asarray(a)
    s = np.array2string(a.ravel()[:24], separator=",", max_line_width=200)
    return "%s%s" % (s, "" if a.size <= 24 else "...(%d)" % a.size)


def _quiet(fn, *a, **k):
    with contextlib.redirect_stdout(io.StringIO()):
        return fn(*a, **k)


class Judge(object):
    def __init__(self):
        self.fails = []

    def bad(self, route, kind, msg):
        self.fails.append((route, kind, "%s: %s" % (route, msg)))

    def eq(self, route, name, got, exp):
        if isinstance(exp, np.ndarray) or isinstance(got, np.ndarray):
            got = np.asarray(got)
            exp = np.asarray(exp)
            if got.shape != exp.shape or not np.array_equal(got, exp):
                self.bad(route, "mismatch", "%s = %s, model says %s" % (name, _short(got), _short(exp)))
                return False
            return True
        if got != exp:
            self.bad(route, "mismatch", "%s = %r, model says %r" % (name, got, exp))
            return False
        return True

    def close(self, route, name, got, num, den):
        """floats against exact quotients num/den: |x - e| <= 1e-9 * scale + 1e-12"""
        got = np.asarray(got, float)
        num = np.asarray(num, float)
        den = np.asarray(den, float)
        if got.shape != num.shape:
            self.bad(route, "mismatch", "%s has shape %r, model says %r" % (name, got.shape, num.shape))
            return False
        if got.size == 0:
            return True
        with np.errstate(divide="ignore", invalid="ignore"):
            e = num / den
        scale = np.maximum(np.abs(e), 1.0)
        if not np.all(np.abs(got - e) <= 1e-9 * scale + 1e-12):
            self.bad(route, "mismatch", "%s = %s, model says %s" % (name, _short(got), _short(e)))
            return False
        return True

    def dtype(self, route, name, arr, want):
        if np.asarray(arr).dtype != np.dtype(want):
            self.bad(route, "dtype", "%s has dtype %s, expected %s" % (name, np.asarray(arr).dtype, np.dtype(want)))

    def call(self, route, fn, *a, **k):
        """call into the implementation; an exception is a failure of that route"""
        try:
            return True, fn(*a, **k)
        except Exception as e:      # noqa
            self.fails.append((route, type(e).__name__, "%s raised %s: %s" % (route, type(e).__name__, str(e)[:300])))
            return False, None


# ------------------------------------------------------------------------------------------------
# the HDF5 scan group of a case

def variant(case):
    """(intensity dtype, nnz dtype) of the file of this case: rotates with the content of the case"""
    k = (len(case["row"]) + sum(case["intensity"]) + case["nframes"] + case["a"]) % 12
    return IDTYPES[k % 3], NNZTYPES[k % 4]


def write_group(h, gname, case):
    idt, ndt = variant(case)
    g = h.create_group(gname)
    g.attrs["nframes"] = case["nframes"]
    g.attrs["shape0"] = case["ns"]
    g.attrs["shape1"] = case["nf"]
    g.create_dataset("row", data=np.array(case["row"], np.uint16))
    g.create_dataset("col", data=np.array(case["col"], np.uint16))
    g.create_dataset("intensity", data=np.array(case["intensity"], idt))
    g.create_dataset("nnz", data=np.array(case["nnz"], ndt))
    for names, key in ((OMEGANAMES, "omfile"), (DTYNAMES, "dtyfile")):
        for m, ent in enumerate(case[key]):
            if ent:
                g.create_dataset(names[m], data=np.array(ent[0], float))


def file_key(case):
    return json.dumps([case["ns"], case["nf"], case["nframes"], case["row"], case["col"], case["intensity"], case["nnz"],
                       case["omfile"], case["dtyfile"]])


class Store(object):
    """one HDF5 file per batch of cases, one group per distinct scan"""

    def __init__(self, directory, tag):
        self.dir = directory
        self.tag = tag
        self.nfile = 0

    def write(self, cases):
        import h5py
        self.nfile += 1
        fname = os.path.join(self.dir, "x03_%s_%d.h5" % (self.tag, self.nfile))
        names, seen = [], {}
        with h5py.File(fname, "w") as h:
            for c in cases:
                k = file_key(c)
                if k not in seen:
                    seen[k] = "%d.1" % (len(seen) + 1)
                    write_group(h, seen[k], c)
                names.append(seen[k])
        return fname, names


# ------------------------------------------------------------------------------------------------
def frame_eq(J, route, fr, exp):
    """fr = real sparse_frame or None ; exp = [] (None) or [frame record]"""
    if not exp:
        return J.eq(route, "is None", fr is None, True)
    if fr is None:
        return J.eq(route, "is None", True, False)
    e = exp[0]
    ok = J.eq(route, "shape", tuple(int(x) for x in fr.shape), tuple(e["shape"]))
    ok &= J.eq(route, "nnz", int(fr.nnz), e["nnz"])
    ok &= J.eq(route, "row", fr.row, np.array(e["row"], np.uint16))
    ok &= J.eq(route, "col", fr.col, np.array(e["col"], np.uint16))
    ok &= J.eq(route, "pixel names", sorted(fr.pixels.keys()), sorted(e["names"]))
    for nm in e["names"]:
        if nm in fr.pixels:
            ok &= J.eq(route, "pixels[%s]" % nm, np.asarray(fr.pixels[nm], np.float64), np.array(e["px"][nm], np.float64))
    return ok


def scan_eq(J, route, s, case):
    e = case["sc"]
    J.eq(route, "shape", tuple(int(x) for x in s.shape), tuple(e["shape"]))
    J.eq(route, "row", s.row, np.array(e["row"], np.uint16))
    J.eq(route, "col", s.col, np.array(e["col"], np.uint16))
    J.eq(route, "intensity", s.intensity, np.array(e["intensity"], np.float32))
    J.dtype(route, "intensity", s.intensity, np.float32)
    J.eq(route, "nnz", np.asarray(s.nnz, np.int64), np.array(e["nnz"], np.int64))
    J.eq(route, "ipt", np.asarray(s.ipt, np.int64), np.array(e["ipt"], np.int64))
    J.eq(route, "names", list(s.names), ["row", "col", "intensity"])
    keys = [k for k, v in (("omega", e["omega"]), ("dty", e["dty"])) if v]
    J.eq(route, "motors", sorted(s.motors.keys()), sorted(keys))
    for k in keys:
        if k in s.motors:
            J.eq(route, "motors[%s]" % k, np.asarray(s.motors[k], float), np.array(e[k][0], float))


def offsets(st):
    """label offset of every frame of a stage (from the model's counts)"""
    nl = np.array(st["nlabels"], np.int64)
    if st["stage"] in (1, 3, 5):
        return np.concatenate([[0], np.cumsum(nl)[:-1]]) if len(nl) else nl
    return np.zeros(len(nl), np.int64)


def run_stage(J, s, st, case, m, light, tag):
    stage = st["stage"]
    countall = stage in (1, 3, 5)
    ipt = case["sc"]["ipt"]
    nfr = len(case["sc"]["nnz"])
    if stage in (1, 2):
        route = "SparseScan.cplabel(countall=%s)%s" % (countall, tag)
        ok, _ = J.call(route, s.cplabel, case["thr"], countall)
    else:
        smooth = stage in (5, 6)
        route = "SparseScan.lmlabel(countall=%s,smooth=%s)%s" % (countall, smooth, tag)
        ok, _ = J.call(route, s.lmlabel, countall=countall, smooth=smooth)
    if not ok:
        return
    J.eq(route, "labels", s.labels, np.array(st["labels"], np.int32))
    J.dtype(route, "labels", s.labels, np.int32)
    J.eq(route, "nlabels", s.nlabels, np.array(st["nlabels"], np.int32))
    J.eq(route, "total_labels", int(s.total_labels), st["total"])
    J.eq(route, "names", list(s.names), st["names"])
    if stage >= 3:
        J.dtype(route, "signal", s.signal, np.float32)
        J.eq(route, "signal * %d" % st["sigden"], np.asarray(s.signal, np.float64) * st["sigden"],
             np.array(st["signal"], np.float64))
    off = offsets(st)
    # the kernels directly on every frame, output buffers poisoned
    for i in range(nfr):
        a, b = ipt[i], ipt[i + 1]
        if a == b:
            continue
        row = np.array(case["sc"]["row"][a:b], np.uint16)
        col = np.array(case["sc"]["col"][a:b], np.uint16)
        val = np.array(case["sc"]["intensity"][a:b], np.float32)
        elab = np.array(st["labels"][a:b], np.int64)
        if stage in (5, 6):
            r2 = "cImageD11.sparse_smooth"
            out = np.full(b - a, PF32, np.float32)
            ok, _ = J.call(r2, m.c.sparse_smooth, val, row, col, out)
            if ok:
                J.eq(r2, "s * 16 (frame %d)" % i, out.astype(np.float64) * 16, np.array(st["signal"][a:b], np.float64))
            if not light:
                r2 = "sparseframe.sparse_smooth"
                fr = m.sf.sparse_frame(row, col, (case["ns"], case["nf"]), pixels={"intensity": val})
                ok, sm = J.call(r2, m.sf.sparse_smooth, fr)
                if ok:
                    J.eq(r2, "s * 16 (frame %d)" % i, np.asarray(sm, np.float64) * 16, np.array(st["signal"][a:b], np.float64))
        if light and stage not in (1, 3):
            continue
        if stage in (1, 2):
            r2 = "cImageD11.sparse_connectedpixels"
            lab = np.full(b - a, P32I, np.int32)
            ok, n = J.call(r2, m.c.sparse_connectedpixels, val, row, col, float(case["thr"]), lab)
            if ok:
                J.eq(r2, "return (frame %d)" % i, int(n), st["nlabels"][i])
                J.eq(r2, "labels (frame %d)" % i, lab, np.where(elab > 0, elab - off[i], 0).astype(np.int32))
        else:
            r2 = "cImageD11.sparse_localmaxlabel"
            sig = (np.array(st["signal"][a:b], np.float64) / st["sigden"]).astype(np.float32)
            lab = np.full(b - a, P32I, np.int32)
            for fill in (PF32, 3.0e38):           # previous content of the work buffers (re-used from frame to frame)
                lab = np.full(b - a, P32I, np.int32)
                mv = np.full(b - a, fill, np.float32)
                imv = np.full(b - a, P32I, np.int32)
                ok, n = J.call(r2, m.c.sparse_localmaxlabel, sig, row, col, mv, imv, lab)
                if ok:
                    J.eq(r2, "return (frame %d, work buffers %g)" % (i, fill), int(n), st["nlabels"][i])
                    J.eq(r2, "labels (frame %d, work buffers %g)" % (i, fill), lab, (elab - off[i]).astype(np.int32))
    # moments()
    if st["mom"]:
        e = st["mom"][0]
        route = "SparseScan.moments%s" % tag
        ok, pk = J.call(route, s.moments)
        if ok:
            keys = ["Number_of_pixels", "sum_intensity", "s_raw", "f_raw"] + \
                (["omega"] if e["omega"] else []) + (["dty"] if e["dty"] else [])
            J.eq(route, "keys missing", sorted(k for k in keys if k not in pk), [])
            J.eq(route, "motor keys without a motor dataset",
                 sorted(k for k in ("omega", "dty") if k in pk and not e[k]), [])
            den = np.array(e["sumI"], float)
            if "Number_of_pixels" in pk:
                J.eq(route, "Number_of_pixels", np.asarray(pk["Number_of_pixels"], np.int64), np.array(e["npx"], np.int64))
            if "sum_intensity" in pk:
                J.eq(route, "sum_intensity", np.asarray(pk["sum_intensity"], float), den)
            for key, fld in (("s_raw", e["srow"]), ("f_raw", e["scol"])):
                if key in pk:
                    J.close(route, key, pk[key], fld, den)
            for key in ("omega", "dty"):
                if e[key] and key in pk:
                    J.close(route, key, pk[key], e[key][0], den)
    # sparse_moments -> sparse_blob2Dproperties on every frame of the labelled scan
    if st["blobs"] or stage in case.get("blobstages", []):
        have = dict((bl["i"], bl) for bl in st["blobs"])
        for i in range(nfr):
            route = "SparseScan.getframe (labelled)%s" % tag
            ok, fr = J.call(route, s.getframe, i)
            if not ok:
                continue
            if i not in have:
                J.eq(route, "frame %d is None" % i, fr is None, True)
                continue
            bl = have[i]
            if not frame_eq(J, route, fr, bl["frame"]) or fr is None:
                continue
            J.dtype(route, "pixels[labels]", fr.pixels["labels"], np.int32)
            exp = np.array(bl["res"], np.float64).reshape(bl["npk"], NPROP)
            fr.meta["labels"] = {"nlabel": bl["npk"]}
            route = "sparseframe.sparse_moments"
            ok, r = J.call(route, m.sf.sparse_moments, fr, "intensity", "labels")
            if ok:
                blob_eq(J, route, "results (frame %d, npk %d)" % (i, bl["npk"]), r, exp)
            route = "cImageD11.sparse_blob2Dproperties"
            ok, r = J.call(route, m.c.sparse_blob2Dproperties, fr.pixels["intensity"].astype(np.float32), fr.row, fr.col,
                           fr.pixels["labels"], bl["npk"])
            if ok:
                blob_eq(J, route, "results (frame %d, npk %d)" % (i, bl["npk"]), r, exp)
                J.dtype(route, "results", r, np.float64)


def blob_eq(J, route, name, got, exp):
    """results of sparse_blob2Dproperties against the model's: every column of the labels that have pixels; the seven
    sums (all zero) of the labels without pixel in this frame - their bounding box is not defined by anything"""
    got = np.asarray(got, np.float64)
    if got.shape != exp.shape:
        return J.eq(route, name + " shape", got.shape, exp.shape)
    empty = exp[:, 0] == 0
    ok = J.eq(route, name, got[~empty], exp[~empty])
    return J.eq(route, name + " (sums of labels without pixel)", got[empty][:, :7], exp[empty][:, :7]) and ok


def props_route(J, m, fname, gname, case):
    """consumer: sinograms.properties.props(scan, i) = lmlabel(countall=False) + per-peak sums (stage 6 of the model)"""
    st6 = [st for st in case["out"] if st["stage"] == 6]
    if m.props is None or not st6 or 6 not in case.get("blobstages", []) or not case["sc"]["omega"]:
        return
    st = st6[0]
    route = "sinograms.properties.props"
    ok, s = J.call(route, m.sf.SparseScan, fname, gname)
    if not ok:
        return
    rowid = 3
    ok, ans = J.call(route, _quiet, m.props.props, s, rowid)
    if not ok:
        return
    r = np.asarray(ans[0])
    cols = []
    for bl in st["blobs"]:
        res = np.array(bl["res"], np.int64).reshape(bl["npk"], NPROP)
        for k in range(bl["npk"]):
            cols.append([res[k, 0], res[k, 1], res[k, 3], res[k, 2], bl["i"] + rowid * len(case["sc"]["nnz"])])
    exp = np.array(cols, np.int64).reshape(-1, 5).T
    J.eq(route, "peak table (npx, sum I, sum row*I, sum col*I, frame)", r, exp)
    J.eq(route, "labels", s.labels, np.array(st["labels"], np.int32))


def judge(case, m, fname, gname, light=False):
    try:
        return _judge(case, m, fname, gname, light)
    except Exception as e:      # noqa - harness level surprise: reported as a failure of the case, with its type
        import traceback
        return [("harness", "exception", "unexpected %r\n%s" % (e, traceback.format_exc()[-1500:]))]


def _judge(case, m, fname, gname, light):
    J = Judge()
    a, b, nfr = case["a"], case["b"], case["nframes"]
    full = (a == 0 and b == nfr)
    opens = []
    if full:
        opens.append(("SparseScan(file, scan)", (fname, gname), {}))
        if not light and (len(case["row"]) + nfr) % 2 == 0:      # (every second scan: an open costs 3 ms)
            opens.append(("SparseScan(file, scan, start, n)", (fname, gname), {"start": 0, "n": nfr}))
    else:
        opens.append(("SparseScan(file, scan, start, n)", (fname, gname), {"start": a, "n": b - a}))
        opens.append(("SparseScan(file, 'scan::[a:b]')", (fname, "%s::[%d:%d]" % (gname, a, b)), {}))
    first = True
    for route, args, kw in opens:
        ok, s = J.call(route, m.sf.SparseScan, *args, **kw)
        if not ok:
            continue
        scan_eq(J, route, s, case)
        for i in range(b - a):
            r2 = "SparseScan.getframe" + ("" if first else " [%s]" % route)
            ok, fr = J.call(r2, s.getframe, i)
            if ok:
                frame_eq(J, r2, fr, case["got"][i])
            if not light:
                ok, fr = J.call(r2 + " SAFE=False", s.getframe, i, SAFE=False)
                if ok:
                    frame_eq(J, r2 + " SAFE=False", fr, case["got"][i])
        if first or not full:
            for st in case["out"]:
                run_stage(J, s, st, case, m, light, "" if first else " [%s]" % route)
        first = False
    if not light:
        # the documented default threshold (0) labels every listed pixel: same result when no pixel is at or below Thr
        cps = [st for st in case["out"] if st["stage"] in (1, 2)]
        if cps and full and (not case["intensity"] or min(case["intensity"]) > case["thr"]):
            st = cps[0]
            route = "SparseScan.cplabel() default threshold"
            ok, s = J.call(route, m.sf.SparseScan, fname, gname)
            if ok:
                ok, _ = J.call(route, s.cplabel, countall=(st["stage"] == 1))
                if ok:
                    J.eq(route, "labels", s.labels, np.array(st["labels"], np.int32))
                    J.eq(route, "nlabels", s.nlabels, np.array(st["nlabels"], np.int32))
        if full:
            props_route(J, m, fname, gname, case)
    return J.fails


def case_key(case):
    return json.dumps(case, sort_keys=True)


def npix_loaded(case):
    return len(case["sc"]["row"])


def nontrivial(case):
    """at least two frames of which one is empty and one not, or a frame with two labels, or a background pixel"""
    if case.get("prog") == "big":
        return True
    nnz = case["sc"]["nnz"]
    if len(nnz) >= 2 and min(nnz) == 0 and max(nnz) > 0:
        return True
    for st in case["out"]:
        if max(st["nlabels"] + [0]) >= 2 or (0 in st["labels"]):
            return True
    return False


# ------------------------------------------------------------------------------------------------
# seeded larger cases

def big_frames(rec):
    """the images of a recipe: list of (wns, wnf) integer arrays (the window at (r0, c0) of the ns x nf detector that
    holds all pixels), 0 = pixel not listed (deterministic in rec)"""
    rng = np.random.RandomState(rec["seed"])
    ns, nf, nfr = rec["wns"], rec["wnf"], rec["nframes"]       # the window holding the pixels, placed at (r0, c0)
    frames = []
    for t in range(nfr):
        kind = rec["kinds"][t % len(rec["kinds"])]
        im = np.zeros((ns, nf), np.int64)
        if kind == "empty":
            pass
        elif kind == "single":
            im[rng.randint(ns), rng.randint(nf)] = rng.randint(1, rec["vmax"] + 1)
        elif kind == "corner":          # pixels at the four corners and next to them
            for (r, c) in ((0, 0), (0, nf - 1), (ns - 1, 0), (ns - 1, nf - 1), (ns - 1, nf - 2), (ns - 2, nf - 1)):
                im[r, c] = rng.randint(1, rec["vmax"] + 1)
        else:
            dens = {"sparse": 0.03, "medium": 0.3, "dense": 0.85, "full": 1.0}[kind]
            msk = rng.random_sample((ns, nf)) < dens
            n = int(msk.sum())
            if rec["distinct"]:         # all values different: no ties before smoothing
                vals = rng.permutation(np.arange(1, max(n, 1) + 1))[:n] * max(1, rec["vmax"] // max(n, 1))
                vals = np.maximum(vals, 1)
            else:
                vals = rng.randint(1, rec["vmax"] + 1, n)
            im[msk] = vals
        frames.append(im)
    return frames


def big_motors(rec):
    nfr = rec["nframes"]
    return {"omega": [7 * t + 1 for t in range(nfr)], "dty": [3 + (t % 2) for t in range(nfr)]}


def exec_big(rec, m, directory):
    """run the operations on the real code and log every output; returns (npz path, problems)"""
    import h5py
    J = Judge()
    frames = big_frames(rec)
    ns, nf, nfr = rec["ns"], rec["nf"], rec["nframes"]
    rows, cols, vals, nnz = [], [], [], []
    for im in frames:
        r, c = np.nonzero(im)
        rows.append(r + rec["r0"])
        cols.append(c + rec["c0"])
        vals.append(im[r, c])
        nnz.append(len(r))
    fname = os.path.join(directory, "x03_big_%d.h5" % rec["id"])
    mot = big_motors(rec)
    with h5py.File(fname, "w") as h:
        g = h.create_group("1.1")
        g.attrs["nframes"], g.attrs["shape0"], g.attrs["shape1"] = nfr, ns, nf
        g.create_dataset("row", data=np.concatenate(rows).astype(np.uint16))
        g.create_dataset("col", data=np.concatenate(cols).astype(np.uint16))
        g.create_dataset("intensity", data=np.concatenate(vals).astype(IDTYPES[rec["id"] % 3]))
        g.create_dataset("nnz", data=np.array(nnz, np.uint32))
        g.create_dataset(OMEGANAMES[1 + rec["id"] % 3], data=np.array(mot["omega"], float))
        g.create_dataset(DTYNAMES[rec["id"] % 4], data=np.array(mot["dty"], float))
    a, b = rec["a"], rec["b"]
    log = {}
    if (a, b) == (0, nfr):
        ok, s = J.call("SparseScan(file, scan)", m.sf.SparseScan, fname, "1.1")
    elif rec["id"] % 2:
        ok, s = J.call("SparseScan(file, scan, start, n)", m.sf.SparseScan, fname, "1.1", start=a, n=b - a)
    else:
        ok, s = J.call("SparseScan(file, 'scan::[a:b]')", m.sf.SparseScan, fname, "1.1::[%d:%d]" % (a, b))
    os.unlink(fname)
    if not ok:
        return None, J.fails
    log["shape"] = np.array(s.shape)
    for k in ("row", "col", "intensity", "nnz", "ipt"):
        log[k] = np.asarray(getattr(s, k))
    for k in ("omega", "dty"):
        log["has_" + k] = np.array(k in s.motors)
        log[k] = np.asarray(s.motors.get(k, []), float)
    gn = []
    for i in range(b - a):
        ok, fr = J.call("SparseScan.getframe", s.getframe, i)
        if not ok:
            return None, J.fails
        gn.append(fr is None)
        if fr is not None:
            log["g%d_row" % i], log["g%d_col" % i] = fr.row, fr.col
            log["g%d_int" % i] = fr.pixels["intensity"]
            log["g%d_names" % i] = np.array(sorted(fr.pixels.keys()))
    log["got_none"] = np.array(gn)
    for stage in rec["stages"]:
        countall = stage in (1, 3, 5)
        if stage in (1, 2):
            ok, _ = J.call("SparseScan.cplabel(countall=%s)" % countall, s.cplabel, rec["thr"], countall)
        else:
            ok, _ = J.call("SparseScan.lmlabel(countall=%s,smooth=%s)" % (countall, stage in (5, 6)), s.lmlabel,
                           countall=countall, smooth=stage in (5, 6))
        if not ok:
            continue
        p = "s%d_" % stage
        log[p + "labels"], log[p + "nlabels"] = s.labels.copy(), s.nlabels.copy()
        log[p + "total"] = np.array(int(s.total_labels))
        log[p + "names"] = np.array(list(s.names))
        if stage >= 3:
            log[p + "signal"] = s.signal.copy()
        if countall:
            ok, pk = J.call("SparseScan.moments", s.moments)
            if ok:
                for k, v in pk.items():
                    log[p + "mom_" + k] = np.asarray(v)
        off = np.concatenate([[0], np.cumsum(s.nlabels)[:-1]]) if countall else np.zeros(len(s.nlabels), int)
        for i in range(b - a):
            ok, fr = J.call("SparseScan.getframe (labelled)", s.getframe, i)
            if not ok or fr is None:
                continue
            # (the kernel's contract is nlabel >= labels.max(): keep it even when the labels are not the expected ones)
            npk = int(max(off[i] + s.nlabels[i], fr.pixels["labels"].max()))
            fr.meta["labels"] = {"nlabel": npk}
            ok, r = J.call("sparseframe.sparse_moments", m.sf.sparse_moments, fr, "intensity", "labels")
            if ok:
                log[p + "blob%d" % i] = np.asarray(r)
                log[p + "blob%d_labels" % i] = fr.pixels["labels"].copy()
    path = os.path.join(directory, "x03_big_%d.npz" % rec["id"])
    np.savez(path, **log)
    return path, J.fails


# ---- the definitions of the specification's invariants, in Python ---------------------------------

def def_components(above):
    """8-connected components of a boolean image, numbered by their first pixel in raster order"""
    import scipy.ndimage
    lab, n = scipy.ndimage.label(above, structure=np.ones((3, 3), int))
    if n == 0:
        return lab.astype(np.int64), 0
    first = scipy.ndimage.minimum(np.arange(lab.size).reshape(lab.shape), lab, index=np.arange(1, n + 1))
    order = np.argsort(first)
    new = np.zeros(n + 1, np.int64)
    new[order + 1] = np.arange(1, n + 1)
    return new[lab], n


def def_smooth16(im):
    """16 * smoothed signal on the listed pixels: weights 4 (self), 2 (edge neighbours), 1 (corner neighbours)"""
    ns, nf = im.shape
    p = np.zeros((ns + 2, nf + 2), np.int64)
    p[1:-1, 1:-1] = im
    out = np.zeros((ns, nf), np.int64)
    for dr in (-1, 0, 1):
        for dc in (-1, 0, 1):
            w = 4 if (dr, dc) == (0, 0) else (2 if dr == 0 or dc == 0 else 1)
            out += w * p[1 + dr:1 + dr + ns, 1 + dc:1 + dc + nf]
    return out


def def_basins(sig, listed):
    """steepest ascent over the listed pixels: (tiefree, labels image, number of maxima)"""
    ns, nf = sig.shape
    LOW = -1
    p = np.full((ns + 2, nf + 2), LOW, np.int64)
    p[1:-1, 1:-1] = np.where(listed, sig, LOW)
    best = np.full((ns, nf), LOW, np.int64)
    nbest = np.zeros((ns, nf), np.int64)
    up = np.zeros((ns, nf), np.int64)
    flat = np.arange(ns * nf).reshape(ns, nf)
    for dr in (-1, 0, 1):
        for dc in (-1, 0, 1):
            v = p[1 + dr:1 + dr + ns, 1 + dc:1 + dc + nf]
            gt = v > best
            eq = (v == best) & (v > LOW)
            nbest = np.where(gt, 1, nbest + eq)
            up = np.where(gt, flat + dr * nf + dc, up)
            best = np.where(gt, v, best)
    tiefree = bool(np.all(nbest[listed] == 1))
    if not tiefree:
        return False, None, 0
    up = up.ravel()
    root = np.where(listed.ravel(), up, -1)
    idx = np.nonzero(listed.ravel())[0]
    cur = root[idx]
    for _ in range(ns * nf + 1):
        nxt = up[cur]
        if np.array_equal(nxt, cur):
            break
        cur = nxt
    maxima = np.nonzero(listed.ravel() & (up == np.arange(ns * nf)))[0]
    rank = np.zeros(ns * nf, np.int64)
    rank[maxima] = np.arange(1, len(maxima) + 1)
    lab = np.zeros(ns * nf, np.int64)
    lab[idx] = rank[cur]
    return True, lab.reshape(ns, nf), len(maxima)


def def_blob(im, labimg, npk, r0=0, c0=0):
    res = np.zeros((npk, NPROP))
    res[:, 9] = BIG
    res[:, 10] = BIG
    r, c = np.nonzero(labimg > 0)
    for l in np.unique(labimg[r, c]):
        k = labimg[r, c] == l
        rr, cc, v = r[k].astype(np.int64) + r0, c[k].astype(np.int64) + c0, im[r[k], c[k]].astype(np.int64)
        res[l - 1] = [len(v), v.sum(), (v * cc).sum(), (v * rr).sum(), (v * cc * cc).sum(), (v * rr * cc).sum(),
                      (v * rr * rr).sum(), cc.max(), rr.max(), cc.min(), rr.min()]
    return res


def judge_big(rec, path):
    """evaluate the invariants' definitions on the logged outputs; returns (problems, statistics)"""
    J = Judge()
    stats = {"tiefree_frames": 0, "lm_frames": 0, "labels": 0}
    frames = big_frames(rec)[rec["a"]:rec["b"]]
    mot = big_motors(rec)
    ns, nf, r0, c0 = rec["ns"], rec["nf"], rec["r0"], rec["c0"]
    wns, wnf = rec["wns"], rec["wnf"]
    n = len(frames)
    with np.load(path) as z:
        log = dict((k, z[k]) for k in z.files)
    cnt = np.array([int((im > 0).sum()) for im in frames], np.int64)
    rc = [np.nonzero(im) for im in frames]
    # PtrOK / LoadOK
    route = "SparseScan.__init__ (definitions PtrOK, LoadOK)"
    J.eq(route, "shape", tuple(int(x) for x in log["shape"]), (n, ns, nf))
    J.eq(route, "nnz", log["nnz"].astype(np.int64), cnt)
    ipt = log["ipt"].astype(np.int64)
    J.eq(route, "ipt[0]", int(ipt[0]), 0)
    J.eq(route, "ipt[i+1] - ipt[i]", np.diff(ipt), cnt)
    J.eq(route, "row", log["row"].astype(np.int64), np.concatenate([r for r, c in rc]).astype(np.int64) + r0)
    J.eq(route, "col", log["col"].astype(np.int64), np.concatenate([c for r, c in rc]).astype(np.int64) + c0)
    J.eq(route, "intensity", log["intensity"].astype(np.float64),
         np.concatenate([im[r, c] for im, (r, c) in zip(frames, rc)]).astype(np.float64))
    J.dtype(route, "intensity", log["intensity"], np.float32)
    for k in ("omega", "dty"):
        J.eq(route, "motors has %s" % k, bool(log["has_" + k]), True)
        J.eq(route, "motors[%s]" % k, log[k], np.array(mot[k][rec["a"]:rec["b"]], float))
    if J.fails:
        return J.fails, stats
    # GetOK
    route = "SparseScan.getframe (definition GetOK)"
    J.eq(route, "None for the empty frames", log["got_none"], cnt == 0)
    for i in range(n):
        if cnt[i] and ("g%d_row" % i) in log:
            J.eq(route, "row", log["g%d_row" % i].astype(np.int64), rc[i][0].astype(np.int64) + r0)
            J.eq(route, "col", log["g%d_col" % i].astype(np.int64), rc[i][1].astype(np.int64) + c0)
            J.eq(route, "intensity", log["g%d_int" % i].astype(np.float64), frames[i][rc[i]].astype(np.float64))
            J.eq(route, "pixel names", list(log["g%d_names" % i]), ["col", "intensity", "row"])
    flat_int = np.concatenate([im[r, c] for im, (r, c) in zip(frames, rc)]).astype(np.int64)
    flat_row = np.concatenate([r for r, c in rc]).astype(np.int64) + r0
    flat_col = np.concatenate([c for r, c in rc]).astype(np.int64) + c0
    flat_frame = np.concatenate([np.full(cnt[i], i) for i in range(n)]).astype(np.int64)
    for stage in rec["stages"]:
        p = "s%d_" % stage
        countall = stage in (1, 3, 5)
        if p + "labels" not in log:
            continue            # the call raised: already a problem of the child
        labels = log[p + "labels"].astype(np.int64)
        nlabels = log[p + "nlabels"].astype(np.int64)
        total = int(log[p + "total"])
        route = "SparseScan.%s(countall=%s%s)" % ("cplabel" if stage < 3 else "lmlabel", countall,
                                                   "" if stage < 3 else ",smooth=%s" % (stage > 4))
        # CountsOK
        J.eq(route + " (CountsOK)", "total_labels = sum(nlabels)", total, int(nlabels.sum()))
        J.eq(route + " (CountsOK)", "names", list(log[p + "names"]).count("labels"), 1)
        J.eq(route + " (CountsOK)", "len(labels)", len(labels), int(cnt.sum()))
        if len(labels) != int(cnt.sum()) or len(nlabels) != n:
            continue
        want = np.zeros(len(labels), np.int64)
        off = 0
        judged = np.ones(n, bool)
        for i in range(n):
            a, b = ipt[i], ipt[i + 1]
            im = frames[i]
            if stage < 3:
                lab, nc = def_components(im > rec["thr"])
                li = lab[rc[i]]
                want[a:b] = np.where(li > 0, li + off, 0)
                J.eq(route + " (CountsOK)", "nlabels[%d]" % i, int(nlabels[i]), nc)
            else:
                if cnt[i] == 0:
                    J.eq(route + " (CountsOK)", "nlabels[%d] of an empty frame" % i, int(nlabels[i]), 0)
                    continue
                stats["lm_frames"] += 1
                sig16 = def_smooth16(im) if stage > 4 else im
                if stage > 4:
                    J.eq(route + " (SmoothOK)", "16 * signal of frame %d" % i,
                         log[p + "signal"][a:b].astype(np.float64) * 16, sig16[rc[i]].astype(np.float64))
                else:
                    J.eq(route + " (SmoothOK)", "signal of frame %d" % i, log[p + "signal"][a:b].astype(np.float64),
                         im[rc[i]].astype(np.float64))
                got = labels[a:b]
                # LmLabelsOK, first clause: the frame uses exactly off+1 .. off+nlabels[i]
                J.eq(route + " (LmLabelsOK)", "set of labels of frame %d" % i, np.unique(got),
                     np.arange(off + 1, off + int(nlabels[i]) + 1))
                tf, lab, nmax = def_basins(sig16, im > 0)
                if tf:
                    stats["tiefree_frames"] += 1
                    want[a:b] = lab[rc[i]] + off
                    J.eq(route + " (LmLabelsOK)", "nlabels[%d] = number of maxima" % i, int(nlabels[i]), nmax)
                else:
                    judged[i] = False
                    want[a:b] = got
            if countall:
                off += int(nlabels[i])
        sel = np.repeat(judged, cnt)
        J.eq(route + (" (CpLabelsOK)" if stage < 3 else " (LmLabelsOK)"), "labels", labels[sel], want[sel])
        stats["labels"] += total
        # MomentsOK
        if countall and (p + "mom_sum_intensity") in log:
            route = "SparseScan.moments (definition MomentsOK)"
            npx = np.bincount(labels, minlength=total + 1)[1:]
            sI = np.bincount(labels, weights=flat_int, minlength=total + 1)[1:]
            J.eq(route, "Number_of_pixels", log[p + "mom_Number_of_pixels"].astype(np.int64), npx.astype(np.int64))
            J.eq(route, "sum_intensity", log[p + "mom_sum_intensity"].astype(float), sI.astype(float))
            for key, w in (("s_raw", flat_row), ("f_raw", flat_col),
                           ("omega", np.array(mot["omega"][rec["a"]:rec["b"]])[flat_frame] if len(flat_frame) else flat_frame),
                           ("dty", np.array(mot["dty"][rec["a"]:rec["b"]])[flat_frame] if len(flat_frame) else flat_frame)):
                if p + "mom_" + key not in log:
                    J.bad(route, "mismatch", "key %s missing" % key)
                    continue
                num = np.bincount(labels, weights=flat_int * w, minlength=total + 1)[1:]
                J.close(route, key, log[p + "mom_" + key], num, sI)
        # BlobOK
        route = "sparseframe.sparse_moments (definition BlobOK)"
        off = 0
        for i in range(n):
            a, b = ipt[i], ipt[i + 1]
            if cnt[i]:
                if p + "blob%d" % i not in log:
                    J.bad(route, "mismatch", "no result for frame %d" % i)
                else:
                    npk = off + int(nlabels[i])
                    labimg = np.zeros((wns, wnf), np.int64)
                    labimg[rc[i]] = labels[a:b]
                    J.eq(route, "labels of getframe(%d)" % i, log[p + "blob%d_labels" % i].astype(np.int64), labels[a:b])
                    if labels[a:b].min() < 0 or labels[a:b].max() > npk:
                        J.bad(route, "mismatch", "labels of frame %d outside 0..%d (= offset + nlabels[%d]): %s" % (
                            i, npk, i, _short(labels[a:b])))
                    else:
                        blob_eq(J, route, "results (frame %d, npk %d)" % (i, npk), log[p + "blob%d" % i],
                                def_blob(frames[i], labimg, npk, r0, c0))
            if countall:
                off += int(nlabels[i])
    return J.fails, stats


# ------------------------------------------------------------------------------------------------
def main():
    """child process:  x03_replay.py cases.jsonl out.json light|full
    Lines are TLC cases (judged here against the model's arrays) or seeded recipes (prog = "big": executed here, the
    log goes back to the parent, which evaluates the definitions).  Progress is written to out.json.cur so that a
    crash of the implementation (signal, sanitizer abort) can be attributed to a case."""
    cases_path, out_path, mode = sys.argv[1], sys.argv[2], sys.argv[3]
    light = mode == "light"
    os.environ.setdefault("OMP_WAIT_POLICY", "passive")
    mods = load_mods(consumer=not light)
    mods.c.cimaged11_omp_set_num_threads(1)
    directory = os.path.dirname(out_path)
    store = Store(directory, os.path.basename(out_path).replace(".json", ""))
    out = {"n": 0, "problems": [], "events": {}, "consumer": mods.props is not None}
    cases = [json.loads(line) for line in open(cases_path)]
    BATCH = 400
    for lo in range(0, len(cases), BATCH):
        batch = cases[lo:lo + BATCH]
        small = [c for c in batch if c.get("prog") != "big"]
        fname, names = store.write(small) if small else (None, [])
        names = iter(names)
        for k, case in enumerate(batch):
            idx = lo + k
            out["n"] += 1
            if idx % 25 == 0 or case.get("prog") == "big":
                with open(out_path + ".cur", "w") as g:
                    g.write(str(idx))
            if case.get("prog") == "big":
                path, p = exec_big(case, mods, directory)
                if path is not None:
                    out["events"][str(case["id"])] = path
            else:
                p = judge(case, mods, fname, next(names), light=light)
            if p:
                out["problems"].append({"idx": idx, "problems": [list(x) for x in p]})
        if fname:
            os.unlink(fname)
    with open(out_path + ".cur", "w") as g:
        g.write(str(out["n"]))
    with open(out_path, "w") as g:
        json.dump(out, g)


if __name__ == "__main__":
    main()

"""C13: replay of the call histories of specs/LocalMaxCalls.tla on the real Python wrappers (ImageD11/sparseframe.py).

A history is a sequence of <<op, object>> over the frames 1..3 (frames 1 and 2 have EQUAL nnz, frame 3 another) and the
scans 11, 12 (equal frame sizes) of a pool.  Ops (see the specification's header):
   lm    sparseframe.sparse_localmax(frame)                       -> frame.pixels["localmax"], nlabel
   sm    sparseframe.sparse_smooth(frame)                          -> smoothed array
   lms   sparse_smooth, set_pixels("smoothed"), sparse_localmax(frame, "lmsm", "smoothed")
   cp    sparseframe.sparse_connected_pixels(frame, threshold=t)   -> frame.pixels["connectedpixels"] (sibling wrapper:
         only memory / standing is judged here, its values are C11's business)
   slm0 / slm1   SparseScan.lmlabel(countall=True, smooth=False / True) -> scan.labels, scan.nlabels, scan.signal
The abstract pool is bound to several seeded concrete pools (make_pools; the pool "gaps" holds values of mixed sign with an
exact 0, the others positive values).  Every array a call hands out is KEPT, with a
snapshot taken at return and the expectation of the independent definitions (passed in by props/c13.py: the
steepest-ascent definition on the listed pixels, the exact 4/2/1 smoothing weights).  After EVERY call ALL results held
so far are re-judged (the specification's Stand), np.shares_memory between results of different calls / parts and
between results and the objects' input arrays must be false (NoAlias), and at the end of the history the inputs must
be unchanged and frame.meta / scan counters must still be those of the last call on that object.
"""
import os, copy
import numpy as np

FRAME_OPS = ("lm", "sm", "lms", "cp")
SCAN_OPS = ("slm0", "slm1")


class Pool(object):
    """frames: id -> (shape, rows, cols, integer values) ; scans: id -> list of frame tuples (an entry may be None = a
    frame without pixels) ; h5 file with one group per scan"""

    def __init__(self, name):
        self.name = name
        self.frames = {}
        self.scans = {}
        self.hname = None
        self.exp = {}
        self.loaded = {}            # scan id -> [SparseScan as the constructor made it, number of uses]


def _mask_with(rng, shape, n, gaps=False):
    m = np.zeros(shape, bool)
    ok = np.ones(shape, bool)
    if gaps:                                    # empty rows / columns
        ok[shape[0] // 2, :] = False
        ok[:, shape[1] // 3] = False
    idx = np.flatnonzero(ok.ravel())
    m.ravel()[rng.choice(idx, size=min(n, len(idx)), replace=False)] = True
    return m


def _frame(rng, m, signed=False):
    ii, jj = np.nonzero(m)
    vals = rng.permutation(len(ii)).astype(np.int64) * 3 + 1        # distinct positive integers, far below 2^20
    if signed:                      # background-subtracted data: negative values, an exact 0, positive values
        vals = vals - vals[len(vals) // 2]
    return (m.shape, ii.astype(np.uint16), jj.astype(np.uint16), vals)


def make_pools(rng, tier, directory):
    """concrete pools of the abstract one (NNZ = <<a, a, b>>, two scans of equal frame sizes)"""
    import h5py
    specs = [("same_mask", (6, 7), 15, 22, "same", False),           # frames 1, 2: one mask, other intensities
             ("equal_nnz_other_mask", (7, 6), 17, 9, "other", False),  # frames 1, 2: different masks of equal nnz
             ("gaps", (9, 11), 30, 41, "other", True),
             ("large", (48, 53), 900, 1200, "same", True)]
    if tier != "quick":
        specs.append(("large_other", (60, 41), 700, 650, "other", True))
    pools = []
    for name, shape, n1, n3, how, gaps in specs:
        p = Pool(name)
        m1 = _mask_with(rng, shape, n1, gaps)
        m2 = m1 if how == "same" else _mask_with(rng, shape, n1, gaps)
        m3 = _mask_with(rng, shape, n3, gaps)
        sg = name == "gaps"         # one pool of mixed sign (the others: positive values)
        p.frames = {1: _frame(rng, m1, sg), 2: _frame(rng, m2, sg), 3: _frame(rng, m3, sg)}
        if not (len(p.frames[1][1]) == len(p.frames[2][1]) != len(p.frames[3][1])):
            raise RuntimeError("pool %s does not have the nnz pattern of the model" % name)
        # scans: [mask1, no pixels, mask2, mask3] twice with other intensities: all frame sizes equal between the scans
        for sid in (11, 12):
            p.scans[sid] = [_frame(rng, m1, sg), None, _frame(rng, m2, sg), _frame(rng, m3, sg)]
        p.hname = os.path.join(directory, "c13_calls_%s.h5" % name)
        with h5py.File(p.hname, "w") as h:
            for sid, frs in p.scans.items():
                g = h.create_group("%d.1" % sid)
                g.attrs["nframes"] = len(frs)
                g.attrs["shape0"] = shape[0]
                g.attrs["shape1"] = shape[1]
                live = [f for f in frs if f is not None]
                g.create_dataset("row", data=np.concatenate([f[1] for f in live]))
                g.create_dataset("col", data=np.concatenate([f[2] for f in live]))
                g.create_dataset("intensity", data=np.concatenate([f[3] for f in live]).astype(np.float32))
                g.create_dataset("nnz", data=np.array([0 if f is None else len(f[1]) for f in frs], np.uint32))
        pools.append(p)
    return pools


def _lm_expect(defs, fr, vals16=None):
    """(labels, n) of the steepest-ascent definition on the listed pixels of one frame; vals16 = the exactly smoothed
    integers instead of the raw ones.  None when some listed block has a tie (result implementation defined)"""
    shape, ii, jj, vals = fr
    img = np.zeros(shape, np.float64)
    m = np.zeros(shape, bool)
    m[ii, jj] = True
    img[ii, jj] = vals if vals16 is None else vals16
    return defs["sparse_definition"](img, m)


def expectations(pool, defs, op, obj):
    """part -> expected array (None = not defined by the property: only standing / memory are judged), and scalars"""
    key = (op, obj)
    if key in pool.exp:
        return pool.exp[key]
    e = {}
    if op in ("lm", "sm", "lms"):
        fr = pool.frames[obj]
        e16 = defs["smooth16_definition"](fr[1], fr[2], fr[3])
        if op == "lm":
            lab, n = _lm_expect(defs, fr)
            e = {"labels": np.asarray(lab, np.int32), "n": n}
        elif op == "sm":
            e = {"smoothed16": e16}
        else:
            es = _lm_expect(defs, fr, e16)
            e = {"smoothed16": e16, "labels": None if es is None else np.asarray(es[0], np.int32),
                 "n": None if es is None else es[1]}
    elif op == "cp":
        e = {"labels": None}
    else:
        labs, nl, sig16, tie = [], [], [], False
        off = 0
        for fr in pool.scans[obj]:
            if fr is None:
                nl.append(0)
                continue
            e16 = defs["smooth16_definition"](fr[1], fr[2], fr[3])
            es = _lm_expect(defs, fr, e16 if op == "slm1" else None)
            sig16.append(e16 if op == "slm1" else fr[3] * 16)
            if es is None:
                tie = True
                labs.append(np.zeros(len(fr[1]), np.int64))
                nl.append(0)
            else:
                labs.append(np.asarray(es[0], np.int64) + off)
                nl.append(es[1])
                off += es[1]
        e = {"signal16": np.concatenate(sig16), "labels": None if tie else np.concatenate(labs).astype(np.int32),
             "nlabels": None if tie else np.array(nl, np.int32)}
    pool.exp[key] = e
    return e


class Held(object):
    __slots__ = ("call", "op", "obj", "part", "arr", "snap", "exp", "scale")

    def __init__(self, call, op, obj, part, arr, exp, scale=1):
        self.call, self.op, self.obj, self.part, self.arr, self.exp, self.scale = call, op, obj, part, arr, exp, scale
        self.snap = np.array(arr, copy=True)

    def what(self):
        return "%s of call %d (%s on %s %d)" % (self.part, self.call, self.op, "scan" if self.obj > 10 else "frame", self.obj)

    def current_ok(self):
        """(ok now, was ok at return)"""
        if self.exp is None:
            return _same(self.arr, self.snap), True
        e = self.exp
        return (_same(np.asarray(self.arr, np.float64) * self.scale, e) if self.scale != 1 else _same(self.arr, e),
                _same(np.asarray(self.snap, np.float64) * self.scale, e) if self.scale != 1 else _same(self.snap, e))


def _same(a, b):
    a, b = np.asarray(a), np.asarray(b)
    return a.shape == b.shape and bool(np.array_equal(a, b))


def run_history(hist, pool, mods, defs, stats):
    """-> list of problem strings (empty = the real wrappers behave as the specification's histories)"""
    cImageD11, sparseframe = mods
    probs = []
    frames, scans, held, inputs = {}, {}, [], []
    last = {}                       # object -> (op, expectation) of the last labelling call on it

    def frame(f):
        if f not in frames:
            shape, ii, jj, vals = pool.frames[f]
            v = vals.astype(np.float32)
            fr = sparseframe.sparse_frame(ii.copy(), jj.copy(), shape, pixels={"intensity": v})
            frames[f] = fr
            inputs.extend([("frame %d row" % f, fr.row, ii), ("frame %d col" % f, fr.col, jj),
                           ("frame %d intensity" % f, fr.pixels["intensity"], vals.astype(np.float32))])
        return frames[f]

    def scan(s):
        if s not in scans:
            # the constructor (reading the file) is X03's subject: every 16th object comes from it, the others are deep
            # copies of an object the constructor made (own arrays, own lists)
            ent = pool.loaded.setdefault(s, [None, 0])
            if ent[0] is None or ent[1] % 16 == 0:
                sc = sparseframe.SparseScan(pool.hname, "%d.1" % s)
                if ent[0] is None:
                    ent[0] = copy.deepcopy(sc)
            else:
                sc = copy.deepcopy(ent[0])
            ent[1] += 1
            scans[s] = sc
            live = [f for f in pool.scans[s] if f is not None]
            inputs.extend([("scan %d row" % s, sc.row, np.concatenate([f[1] for f in live])),
                           ("scan %d col" % s, sc.col, np.concatenate([f[2] for f in live])),
                           ("scan %d intensity" % s, sc.intensity, np.concatenate([f[3] for f in live]).astype(np.float32))])
        return scans[s]

    prev_lm_nnz = None
    for ncall, (op, obj) in enumerate(hist, 1):
        e = expectations(pool, defs, op, obj)
        new = []
        try:
            if op in FRAME_OPS:
                fr = frame(obj)
                if op == "lm":
                    n = sparseframe.sparse_localmax(fr)
                    new.append(Held(ncall, op, obj, "labels", fr.pixels["localmax"], e["labels"]))
                    if n != e["n"]:
                        probs.append("sparse_localmax(frame %d) returned %d labels, the definition has %d maxima" % (obj, n, e["n"]))
                    last[("frame", obj, "localmax")] = e["n"]
                    if prev_lm_nnz == fr.nnz:
                        stats["consecutive_lm_calls_on_equal_nnz"] = stats.get("consecutive_lm_calls_on_equal_nnz", 0) + 1
                elif op == "sm":
                    sm = sparseframe.sparse_smooth(fr)
                    new.append(Held(ncall, op, obj, "smoothed", sm, e["smoothed16"], 16))
                elif op == "lms":
                    sm = sparseframe.sparse_smooth(fr)
                    fr.set_pixels("smoothed", sm)
                    n = sparseframe.sparse_localmax(fr, "lmsm", "smoothed")
                    new.append(Held(ncall, op, obj, "smoothed", sm, e["smoothed16"], 16))
                    new.append(Held(ncall, op, obj, "labels", fr.pixels["lmsm"], e["labels"]))
                    if e["n"] is not None and n != e["n"]:
                        probs.append("sparse_localmax(frame %d, data 'smoothed') returned %d labels, the definition has %d maxima"
                                     % (obj, n, e["n"]))
                    if e["n"] is not None:
                        last[("frame", obj, "lmsm")] = e["n"]
                    else:
                        stats["lms_results_with_ties_not_value_judged"] = stats.get("lms_results_with_ties_not_value_judged", 0) + 1
                else:
                    thr = float(np.median(pool.frames[obj][3]))
                    sparseframe.sparse_connected_pixels(fr, threshold=thr)
                    new.append(Held(ncall, op, obj, "labels", fr.pixels["connectedpixels"], None))
                prev_lm_nnz = fr.nnz if op in ("lm", "lms") else None
            else:
                sc = scan(obj)
                sc.lmlabel(countall=True, smooth=(op == "slm1"))
                new.append(Held(ncall, op, obj, "labels", sc.labels, e["labels"]))
                new.append(Held(ncall, op, obj, "nlabels", sc.nlabels, e["nlabels"]))
                new.append(Held(ncall, op, obj, "signal", sc.signal, e["signal16"], 16))
                if e["nlabels"] is not None:
                    last[("scan", obj)] = int(e["nlabels"].sum())
                else:
                    last.pop(("scan", obj), None)
                    stats["scan_results_with_ties_not_value_judged"] = stats.get("scan_results_with_ties_not_value_judged", 0) + 1
                prev_lm_nnz = None
        except Exception as ex:      # noqa
            probs.append("call %d (%s on %d) raised %r" % (ncall, op, obj, ex))
            return probs
        # NoAlias: the new results against everything held before, against each other, and against the inputs
        for a, h in enumerate(new):
            for g in held + new[:a]:
                stats["alias_pairs"] = stats.get("alias_pairs", 0) + 1
                if np.shares_memory(h.arr, g.arr):
                    probs.append("%s shares memory with %s" % (h.what(), g.what()))
            for nm, arr, _ in inputs:
                if np.shares_memory(h.arr, arr):
                    probs.append("%s shares memory with the input array '%s'" % (h.what(), nm))
        held.extend(new)
        # Stand: every result handed out so far, judged after this call
        for h in held:
            stats["results_judged"] = stats.get("results_judged", 0) + 1
            now, at_return = h.current_ok()
            if not now:
                if h.call == ncall or not at_return:
                    probs.append("%s differs from the definition when returned: %s, definition %s" % (
                        h.what(), np.asarray(h.snap).ravel()[:12].tolist(),
                        None if h.exp is None else (np.asarray(h.exp) / h.scale).ravel()[:12].tolist()))
                else:
                    probs.append("%s was right when returned and no longer is after call %d (%s on %d): the array the caller "
                                 "holds was overwritten (%d of %d entries changed)" % (
                                     h.what(), ncall, op, obj, int((np.asarray(h.arr) != h.snap).sum()), h.snap.size))
        if probs:
            return probs
    # end of the history: inputs untouched, per-object bookkeeping is that of the last call
    for nm, arr, orig in inputs:
        if not _same(arr, orig):
            probs.append("input array '%s' was modified by the wrappers" % nm)
    for key, n in last.items():
        if key[0] == "frame":
            got = frames[key[1]].meta.get(key[2], {}).get("nlabel")
            if got != n:
                probs.append("frame %d: meta['%s']['nlabel'] = %r at the end of the history, the definition has %d maxima"
                             % (key[1], key[2], got, n))
        else:
            if int(scans[key[1]].total_labels) != n:
                probs.append("scan %d: total_labels = %r at the end of the history, the definition gives %d"
                             % (key[1], scans[key[1]].total_labels, n))
    stats["histories"] = stats.get("histories", 0) + 1
    stats["calls"] = stats.get("calls", 0) + len(hist)
    return probs

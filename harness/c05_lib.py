"""C05 helpers: build the real unit cell of an exact integer reciprocal metric, record what the real
unitcell.filter_pairs saw and returned, judge kept-pair lists and orient() results against the
records emitted by specs/Orient.tla.

Conventions (see Orient.tla): G = integer reciprocal metric, gi = G / D^2 with the cell's own D = 1000 tn/td
(d* = sqrt(Q)/D; makerings' default tolerance 0.001 is tn/td in units of sqrt(Q)), hkl are columns, g = U.B.h
with B the upper triangular Cholesky factor (B^T.B = gi; the Busing-Levy B), ring numbers are 1-based
in the specification and 0-based in the code, pair positions x are 0-based (as in the code) inside the
"order" list and kept positions k are 1-based indices into the kept list.  A ring is makerings' ring: a run of Q
values (one value for the small forms; several for the pseudo-symmetric forms, whose rings merge families of unequal
d*), so the cosine of a pair is N / sqrt(D) with N = ha.G.hb and D = Q(ha) Q(hb) its own; the angle class of a pair
("nk") is the rank of its exact cosine among the distinct cosines of the ring pair.

Scale family (Orient.tla, SCALE): the instance (cell, k) is the k = 0 cell with every edge multiplied by 2^k.
It is built from the k = 0 quantities by exact scaling (edges * 2^k, B * 2^-k, B^-1 * 2^k, gi * 4^-k, d* limit
and ring tolerance * 2^-k), so that everything the code computes for (cell, k) from g / 2^k is, in exact AND in
binary64 arithmetic, what it computes for (cell, 0) from g, times the power of two the quantity's dimension
asks for: the scale law is compared bit for bit (np.array_equal).
"""
from __future__ import print_function
import math, json
import numpy as np

SCALE = 0.01           # gi = G * SCALE for tn/td = 1/100 : d* = 0.1 sqrt(Q); neighbouring integer Q are >= 0.005 apart up to Q = 100
MIN_GAP = 1e-6         # distinct exact cosines of a ring pair must differ by more than this (the code clusters at 1e-8)
CR_NARROW = 0.002      # indexer default cosine_tol
CR_WIDE = 0.71         # takes in neighbouring angle blocks (exercises ubi_equiv across blocks)
CRS = {2: CR_NARROW, 710: CR_WIDE}
TOL_INT = 1e-7         # integrality of UBI.UB
REL = 1e-9


def close(x, e, scale=None):
    x = np.asarray(x, float)
    e = np.asarray(e, float)
    if scale is None:
        scale = max(1.0, float(np.abs(e).max()) if e.size else 1.0)
    return bool(np.all(np.abs(x - e) <= REL * scale + 1e-12))


def lattice_parameters(G, s=SCALE):
    gi = np.array(G, float) * s
    g = np.linalg.inv(gi)
    a, b, c = np.sqrt(np.diag(g))
    al = math.degrees(math.acos(g[1, 2] / b / c))
    be = math.degrees(math.acos(g[0, 2] / a / c))
    ga = math.degrees(math.acos(g[0, 1] / a / b))
    return [float(a), float(b), float(c), al, be, ga]


def chol_B(G, s=SCALE):
    """upper triangular B, positive diagonal, B^T B = G*s (unique: the Busing-Levy B of the cell)"""
    gi = np.array(G, float) * s
    return np.linalg.cholesky(gi).T.copy()


def triad(v1, v2):
    """right handed orthonormal triad (columns): t1 along v1, t3 along v1 x v2, t2 = t3 x t1"""
    t1 = v1 / math.sqrt(np.dot(v1, v1))
    n = np.cross(v1, v2)
    t3 = n / math.sqrt(np.dot(n, n))
    t2 = np.cross(t3, t1)
    return np.array([t1, t2, t3]).T


def ubi_from_pair(B, BI, ha, hb, g1, g2):
    """Busing-Levy: U takes the crystal triad of (B ha, B hb) on the triad of (g1, g2); UBI = B^-1 U^T"""
    Tc = triad(np.dot(B, ha), np.dot(B, hb))
    Tg = triad(np.asarray(g1, float), np.asarray(g2, float))
    U = np.dot(Tg, Tc.T)
    return np.dot(BI, U.T)


HOWS_ARRAY = ("buffer", "row", "column", "tail")        # float64 arrays the caller goes on using (Orient.tla, OwnHows)
HOWS = HOWS_ARRAY + ("list",)


def how_of(cid, k):
    """what the constructor of the instance (cell, k) is given: k = 0 always one of the array layouts; the scaled
    instances also go through the plain list (stable: no seed, so that a replay builds the same object)"""
    n = sum(ord(c) for c in cid) + 3 * int(k)
    return HOWS_ARRAY[n % len(HOWS_ARRAY)] if k == 0 else HOWS[n % len(HOWS)]


def alien_cell(version, lp):
    """the numbers the caller writes over his parameter array: version 1 = the cell itself, every other version a very
    different (much smaller: a smaller hkl search box, triclinic) cell"""
    if version == 1:
        return list(lp)
    f, ang = (((0.31, 0.27, 0.23), (63.0, 71.0, 117.0)), ((0.17, 0.19, 0.13), (101.0, 97.0, 83.0)))[version % 2]
    w = 1.0 + 0.01 * (version // 2)
    return [lp[0] * f[0] * w, lp[1] * f[1] * w, lp[2] * f[2] * w, ang[0], ang[1], ang[2]]


def caller_array(how, lp):
    """(argument for unitcell(), the caller's whole array or None): a 6-vector, a row of a table of cells, a column of
    a table (strided view), a slice of a longer parameter vector - all float64, all still the caller's - or a list"""
    if how == "list":
        return list(lp), None
    if how == "buffer":
        base = np.array(lp, float)
        return base, base
    if how == "row":
        base = np.array([alien_cell(2, lp), lp, alien_cell(3, lp)], float)
        return base[1], base
    if how == "column":
        base = np.array([alien_cell(3, lp), lp, alien_cell(2, lp)], float).T.copy()      # (6,3), C order
        return base[:, 1], base
    if how == "tail":
        base = np.zeros(10, float)
        base[2:8] = lp
        return base[2:8], base
    raise ValueError(how)


class RealCell(object):
    """the real ImageD11 unitcell of a specification cell record + what the model says about it.
    The object is made from an array the CALLER keeps using (how; Orient.tla, ownership): the array is overwritten
    with a very different cell right after the constructor returns and again after makerings - the object is a
    snapshot of the six numbers it was given"""

    def __init__(self, ucmod, crec, k=0, how="buffer", rings=True):
        self.ucmod = ucmod
        self.rec = crec
        self.id = crec["cell"]
        self.k = int(k)
        self.s = 2.0 ** self.k                  # edges are multiplied by s (exact in binary64)
        self.name = self.id if self.k == 0 else "%s*2^%d" % (self.id, self.k)
        self.G = np.array(crec["G"], int)
        nr = self.nr = len(crec["rings"])       # the rings of the specification's ring table (NRC)
        self.qs = crec["qs"]                    # Q of the first member of each ring (ringds = sqrt(q0) / D)
        self.qsets = crec["qsets"]              # the Q values a ring merges
        self.D = 1000.0 * crec["tn"] / crec["td"]
        self.scale = 1.0 / (self.D * self.D)    # gi = G * scale at k = 0
        self.rings = [[tuple(h) for h in ring] for ring in crec["rings"]]
        self.cut = [tuple(p) for p in crec.get("cut", [])]      # ring pairs holding the angle classes next to the 0.98 cut
        self.aut = set(tuple(tuple(r) for r in m) for m in crec["aut"])
        self.autarr = np.array(sorted(self.aut), int)                  # (n,3,3)
        s = self.s
        lp0 = lattice_parameters(crec["G"], self.scale)
        self.lp = [lp0[0] * s, lp0[1] * s, lp0[2] * s, lp0[3], lp0[4], lp0[5]]
        B0 = chol_B(crec["G"], self.scale)
        self.B = B0 / s
        self.BI = np.linalg.inv(B0) * s
        self.gi = np.array(crec["G"], float) * self.scale / (s * s)
        self.g = np.linalg.inv(np.array(crec["G"], float) * self.scale) * (s * s)
        # every member of the last ring lies below the limit (rings beyond it may appear: they are not used)
        self.limit = math.sqrt((max(self.qsets[nr - 1]) + 0.5) * self.scale) / s
        self.tol = 0.001 / s                    # makerings' default tolerance, in the units of this cell's d*
        self.how = how
        self.arg, self.base = caller_array(how, self.lp)
        self.version = 1                        # what the caller's array holds now (alien_cell)
        self.build_error = None
        self.has_rings = False
        self.prev = None                        # the previous orient() result as handed out + copies (judge_orient)
        self.ncalls = 0
        self.cell = ucmod.unitcell(self.arg, crec["cen"])
        if rings:
            self.scribble(2)
            self.makerings()
            self.scribble(3)

    def scribble(self, version):
        """the caller re-uses his parameter array (and the rest of the table it is part of) for another cell"""
        self.version = version
        if self.base is None:
            return
        self.base[...] = 0.5 + 0.25 * version
        self.arg[:] = alien_cell(version, self.lp)

    def makerings(self, tol=None):
        """makerings as a user would call it (k = 0: the default tolerance); an exception is kept, not raised"""
        try:
            if tol is None and self.k == 0:
                self.cell.makerings(self.limit)
            else:
                self.cell.makerings(self.limit, tol=self.tol if tol is None else tol)
            self.has_rings = True
        except Exception as e:      # noqa
            self.build_error = "makerings raised %r" % (e,)

    def ownership_problems(self):
        """the object is a snapshot of the numbers it was made from and of what it derived from them, whatever the
        caller's array holds by now"""
        probs = []
        c = self.cell
        try:
            lpn = np.asarray(c.lattice_parameters, float)
            if lpn.shape != (6,) or not np.array_equal(lpn, np.array(self.lp, float)):
                probs.append("the cell was made from %s holding %s; after the caller overwrote that array the object "
                             "reports lattice_parameters %s%s" % (
                                 self.describe_how(), [round(v, 6) for v in self.lp], [round(float(v), 6) for v in lpn.ravel()],
                                 " (it shares memory with the caller's array)" if self.base is not None and
                                 np.shares_memory(c.lattice_parameters, self.base) else ""))
            elif self.base is not None and np.shares_memory(c.lattice_parameters, self.base):
                probs.append("lattice_parameters of the cell made from %s shares memory with the caller's array" % self.describe_how())
            if not np.abs(np.asarray(c.B, float) - self.B).max() <= REL * float(np.abs(self.B).max()):
                probs.append("B of the object is not the Busing-Levy B of the numbers it was made from")
            if not np.abs(np.asarray(c.gi, float) - self.gi).max() <= REL * float(np.abs(self.gi).max()):
                probs.append("the reciprocal metric tensor of the object is not that of the numbers it was made from")
        except Exception as e:      # noqa
            probs.append("reading the object's parameters raised %r" % (e,))
        if self.build_error:
            probs.append("%s (cell made from %s that the caller overwrote afterwards)" % (self.build_error, self.describe_how()))
        return probs

    def describe_how(self):
        return {"buffer": "a float64 array of 6 numbers", "row": "a row of a float64 table of cells",
                "column": "a column (strided view) of a float64 table of cells",
                "tail": "a slice of a longer float64 parameter vector", "list": "a list"}[self.how]

    def ring_problems(self):
        """compare the real ring table with the model's rings (C03 territory: reported, not judged here)"""
        c = self.cell
        probs = []
        if len(c.ringds) < self.nr:
            probs.append("%d rings, model %d" % (len(c.ringds), self.nr))
        for r in range(min(self.nr, len(c.ringds))):
            real = set(tuple(int(v) for v in h) for h in c.ringhkls[c.ringds[r]])
            if real != set(self.rings[r]):
                probs.append("ring %d: real - model = %s, model - real = %s" % (
                    r, sorted(real - set(self.rings[r]))[:4], sorted(set(self.rings[r]) - real)[:4]))
            if abs(c.ringds[r] - math.sqrt(self.qs[r] * self.scale) / self.s) > 1e-9 / self.s:
                probs.append("ring %d: d* %r, model %r" % (r, c.ringds[r], math.sqrt(self.qs[r] * self.scale) / self.s))
        return probs

    def canon(self, pairs):
        """canonical representative under Aut+(G) of each (ha, hb) in pairs (array (n,2,3)): the class of
        "indexes the same"; returns a list of hashable keys"""
        P = np.asarray(pairs, int).reshape(-1, 2, 3)
        img = np.einsum("mij,nkj->nmki", self.autarr, P).reshape(len(P), len(self.autarr), 6)    # M.ha, M.hb
        out = []
        for a in img:
            out.append(min(map(tuple, a.tolist())))
        return out

    def equiv(self, x, y):
        """pairs x, y ((ha,hb) tuples) related by a member of Aut+(G) (group supplied by TLC)"""
        for M in self.aut:
            Mm = np.array(M)
            if tuple(np.dot(Mm, x[0])) == tuple(y[0]) and tuple(np.dot(Mm, x[1])) == tuple(y[1]):
                return True
        return False


class Recorder(object):
    """wraps the module level unitcell.filter_pairs: arguments, result and the order the code's own
    sort produced (order = np.argsort(c2a.ravel()), the code's first statement, re-evaluated on the
    identical array)"""

    def __init__(self, ucmod):
        self.ucmod = ucmod
        self.orig = ucmod.filter_pairs
        self.calls = []

    def __enter__(self):
        def wrapped(h1, h2, c2a, B, BI, *a, **k):
            c2a_in = np.array(c2a, float).copy()
            out = self.orig(h1, h2, c2a, B, BI, *a, **k)
            self.calls.append(dict(h1=[tuple(int(v) for v in h) for h in h1],
                                   h2=[tuple(int(v) for v in h) for h in h2],
                                   c2a=c2a_in, out=out))
            return out
        self.ucmod.filter_pairs = wrapped
        return self

    def __exit__(self, *a):
        self.ucmod.filter_pairs = self.orig
        return False


def record_ringpair(rc, rec, r1, r2):
    """call getanglehkls(r1-1, r2-1) on the real cell; returns what filter_pairs saw / gave"""
    n0 = len(rec.calls)
    err = None
    try:
        val = rc.cell.getanglehkls(r1 - 1, r2 - 1)
    except Exception as e:      # noqa  (e.g. the ValueError of an empty last block)
        val = None
        err = repr(e)
    if len(rec.calls) != n0 + 1:
        if err is not None or val is None:
            return dict(error=err or "getanglehkls returned None")
        # served without computing (an entry cached under another key?): judge what was handed out
        # against the rings that were asked for
        c = rc.cell
        call = dict(h1=[tuple(int(v) for v in h) for h in c.ringhkls[c.ringds[r1 - 1]]],
                    h2=[tuple(int(v) for v in h) for h in c.ringhkls[c.ringds[r2 - 1]]])
        call["c2a"] = rc.ucmod.cosangles_many(call["h1"], call["h2"], c.gi)
    else:
        call = rec.calls[-1]
    c2a = call["c2a"]
    order = np.argsort(c2a.ravel())
    n2 = len(call["h2"])
    opairs = [[list(call["h1"][int(f) // n2]), list(call["h2"][int(f) % n2])] for f in order]
    try:
        pairs, cangs, matrs = val
        return dict(error=err, val=val, h1=call["h1"], h2=call["h2"], c2a=c2a, flat=[int(f) for f in order],
                    order=opairs,
                    kept=[(tuple(int(v) for v in a), tuple(int(v) for v in b)) for a, b in pairs],
                    cangs=[float(c) for c in cangs], matrs=[np.array(m, float).reshape(3, 3) for m in matrs])
    except Exception as e:      # noqa  (what the tree handed out is not a (pairs, cosines, BT matrices) triple)
        return dict(error="getanglehkls returned something that is not (hkl pairs, cosines, 3x3 matrices): %r" % (e,))


def rot_matrix(r):
    U = np.array(r["num"], float) / float(r["den"])
    num = np.array(r["num"], dtype=object)
    d = r["den"]
    # exact: U U^T = I and det U = +1 (the 32 bit model checks orthogonality only)
    for i in range(3):
        for j in range(3):
            s = sum(int(num[i][k]) * int(num[j][k]) for k in range(3))
            if s != (d * d if i == j else 0):
                raise ValueError("rotation not orthogonal")
    det = (int(num[0][0]) * (int(num[1][1]) * int(num[2][2]) - int(num[1][2]) * int(num[2][1]))
           - int(num[0][1]) * (int(num[1][0]) * int(num[2][2]) - int(num[1][2]) * int(num[2][0]))
           + int(num[0][2]) * (int(num[1][0]) * int(num[2][1]) - int(num[1][1]) * int(num[2][0])))
    if det != d ** 3:
        raise ValueError("rotation not proper")
    return U


def as_pairs(lst):
    return [(tuple(p[0]), tuple(p[1])) for p in lst]


def pair_keys(rc, pairs):
    """exact description of the cosine of every (ha, hb): N = ha.G.hb, D = Q(ha) Q(hb) (cos = N / sqrt(D)) and a
    hashable key that is equal iff the cosines are equal: (sign, N^2 / D in lowest terms)"""
    P = np.asarray(pairs, int).reshape(-1, 2, 3)
    G = rc.G
    N = np.einsum("ni,ij,nj->n", P[:, 0], G, P[:, 1])
    D = np.einsum("ni,ij,nj->n", P[:, 0], G, P[:, 0]) * np.einsum("ni,ij,nj->n", P[:, 1], G, P[:, 1])
    keys = []
    for n, d in zip(N.tolist(), D.tolist()):
        g = math.gcd(n * n, d)
        keys.append((0 if n == 0 else (1 if n > 0 else -1), n * n // g, d // g) if n else (0, 0, 1))
    return N, D, keys


def key_cos(key):
    return key[0] * math.sqrt(key[1] / float(key[2]))


def is_small(n, d):
    """abs(cos) < 0.98, exact"""
    return 2500 * int(n) * int(n) < 2401 * int(d)


def class_ranks(keys):
    """angle class of every pair = 1-based rank of its exact cosine among the distinct cosines; also returns the
    smallest difference of two distinct cosines (MIN_GAP: blocks of equal exact cosine must be the code's blocks)"""
    distinct = sorted(set(keys), key=key_cos)
    vals = [key_cos(k) for k in distinct]
    gap = min([b - a for a, b in zip(vals, vals[1:])] or [2.0])
    rank = dict((k, i + 1) for i, k in enumerate(distinct))
    return [rank[k] for k in keys], gap


def judge_kept_direct(rc, real):
    """the property on the real kept list, without the block machine: blocks = equal exact cosine;
    returns list of problems.  Used when the real list matches neither variant of the model."""
    probs = []
    allp = [(a, b) for a in real["h1"] for b in real["h2"]]
    N, D, keys = pair_keys(rc, allp)
    kept = real["kept"]
    if kept:
        kN, kD, kkeys = pair_keys(rc, kept)
    else:
        kN, kD, kkeys = [], [], []
    for p, n, d, key in zip(allp, N, D, keys):
        if is_small(n, d) and not any(kk == key and rc.equiv(k, p) for k, kk in zip(kept, kkeys)):
            probs.append("pair %s (|cos| < 0.98) is not equivalent to any kept pair" % (p,))
            break
    for i in range(len(kept)):
        for j in range(i):
            if kkeys[i] == kkeys[j] and rc.equiv(kept[i], kept[j]):
                probs.append("kept pairs %s and %s are equivalent" % (kept[i], kept[j]))
    cs = [key_cos(k) for k in kkeys]
    if any(cs[i] > cs[i + 1] + 1e-12 for i in range(len(cs) - 1)):
        probs.append("kept list not in increasing cosine order")
    return probs


def exact_cos_table(rc, h1, h2):
    """cosines of ring1 x ring2 from the exact N and D (binary64 of the exact value)"""
    allp = [(a, b) for a in h1 for b in h2]
    N, D, _ = pair_keys(rc, allp)
    return (N / np.sqrt(D.astype(float))).reshape(len(h1), len(h2))


def class_counts(rc, order, nk):
    """per N: the number of classes of "indexes the same" among the pairs of the ring pair (independent of the code
    and of the block machine: canonical forms under the Aut+ supplied by the specification)"""
    sets = {}
    for n, c in zip(nk, rc.canon(order)):
        sets.setdefault(int(n), set()).add(c)
    return dict((n, len(v)) for n, v in sets.items())


def direct_rec(rc, r1, r2, real):
    """the kept-list record the property judgement needs, made without the block machine: every pair of the
    model's ring1 x ring2 with its angle class; used when the recorded order is not one the specification accepts"""
    order = [[list(a), list(b)] for a in rc.rings[r1 - 1] for b in rc.rings[r2 - 1]]
    kept = real.get("kept", [])
    N, D, keys = pair_keys(rc, order + [[list(a), list(b)] for a, b in kept])
    ranks, _ = class_ranks(keys)
    n = len(order)
    return {"n": n, "nk": ranks[:n], "nn": [int(v) for v in N[:n]], "dd": [int(v) for v in D[:n]],
            "small": [1 if is_small(a, d) else 0 for a, d in zip(N[:n], D[:n])],
            "keptpairs": [[list(a), list(b)] for a, b in kept],
            "keptn": ranks[n:], "_direct": True, "_order": order}


def diagnose_order(rc, r1, r2, real):
    """why the specification rejected the recorded order (ValidOrder).  Returns the reasons that are the doing of
    the tree under test; an empty list means the recording itself is at fault (harness)."""
    why = []
    for nm, h, ring in (("first", real["h1"], rc.rings[r1 - 1]), ("second", real["h2"], rc.rings[r2 - 1])):
        if sorted(h) != sorted(ring):
            why.append("the %s hkl list handed to filter_pairs is not ring %d (%d hkls, the ring has %d)"
                       % (nm, (r1 if nm == "first" else r2) - 1, len(h), len(ring)))
    if not why:
        exact = exact_cos_table(rc, real["h1"], real["h2"])
        c2a = np.asarray(real["c2a"], float)
        if c2a.shape != exact.shape:
            why.append("the cosine table handed to filter_pairs has shape %s for %d x %d hkls" % (c2a.shape,) + exact.shape)
        else:
            bad = np.argwhere(~(np.abs(c2a - exact) <= 1e-9))
            if len(bad):
                i, j = (int(v) for v in bad[0])
                why.append("the cosine table handed to filter_pairs is not the cosines of ring %d x ring %d: %d of %d entries "
                           "differ, e.g. %s, %s given as %r, exact %r" % (r1 - 1, r2 - 1, len(bad), exact.size,
                                                                          real["h1"][i], real["h2"][j], float(c2a[i, j]),
                                                                          float(exact[i, j])))
    return why


def judge_direct_routes(rc, rt, imod, order, small, U):
    """the other implementations of the two-reflection formula, for EVERY hkl pair with |cos| < 0.98 of the ring
    pair (no lookup, no filtering in between): given the true indices the result must be the generating UBI
      unitcell.orient_BL(B, ha, hb, g1, g2)                         python triads
      unitcell.BTmat(ha, hb, B, BI) + cImageD11.quickorient         the C kernel with a freshly made BT
      indexing.ubi_fit_2pks(UBI, g1, g2)                            re-fit of the generating UBI to its own pair
    returns list of problem texts (first of each kind) and the number of evaluations"""
    probs, seen, n = [], set(), 0
    UB = np.dot(U, rc.B)
    want = np.dot(rc.BI, U.T)
    tol = REL * float(np.abs(rc.BI).max()) + 1e-12 * rc.s
    cB = np.asarray(rc.cell.B, float)
    cBI = np.linalg.inv(cB)

    def bad(kind, text):
        if kind not in seen:
            seen.add(kind)
            probs.append(text)
    for x, (a, b) in enumerate(order):
        if not small[x]:
            continue
        ha = np.array(a, float)
        hb = np.array(b, float)
        g1 = np.dot(UB, ha)
        g2 = np.dot(UB, hb)
        n += 1
        try:
            ubi, ub = rc.ucmod.orient_BL(cB, ha, hb, g1, g2)
            if not (np.abs(np.asarray(ubi, float) - want).max() <= tol):
                bad("BL", "orient_BL(B, %s, %s, U.B.h1, U.B.h2) is not the generating UBI (max deviation %.3g, %.3g of the "
                    "largest entry)" % (a, b, float(np.abs(ubi - want).max()), float(np.abs(ubi - want).max() / np.abs(want).max())))
        except Exception as e:      # noqa
            bad("BLx", "orient_BL(B, %s, %s, ..) raised %r" % (a, b, e))
        try:
            BT = rc.ucmod.BTmat(ha, hb, cB, cBI)
            ubi = np.zeros((3, 3))
            ubi[0] = g1
            ubi[1] = g2
            rt.quickorient(ubi, BT)
            if not (np.abs(ubi - want).max() <= tol):
                bad("QO", "quickorient(U.B.%s, U.B.%s; BTmat of the same hkls) is not the generating UBI (max deviation %.3g, "
                    "%.3g of the largest entry)" % (a, b, float(np.abs(ubi - want).max()),
                                                    float(np.abs(ubi - want).max() / np.abs(want).max())))
        except Exception as e:      # noqa
            bad("QOx", "BTmat / quickorient for %s, %s raised %r" % (a, b, e))
        if imod is not None:
            try:
                ufit = np.asarray(imod.ubi_fit_2pks(want.copy(), g1, g2), float)
                M = np.dot(ufit, UB)
                if not (np.abs(M - np.eye(3)).max() <= TOL_INT):
                    bad("FIT", "ubi_fit_2pks(generating UBI, U.B.%s, U.B.%s) no longer indexes the grain (UBI.UB - 1 up to %.3g)"
                        % (a, b, float(np.abs(M - np.eye(3)).max())))
            except Exception as e:      # noqa
                bad("FITx", "ubi_fit_2pks for %s, %s raised %r" % (a, b, e))
    return probs, n


def found_true(rc, ubis, UB):
    """some member of ubis is finite, right handed, has the cell's metric and equals the generating UBI up to a member
    of Aut+(G): UBI.UB is one of the group's integer matrices"""
    for u in ubis:
        u = np.asarray(u, float)
        if u.shape != (3, 3) or not np.all(np.isfinite(u)) or np.linalg.det(u) <= 0:
            continue
        if np.abs(np.dot(u, u.T) - rc.g).max() > REL * float(np.abs(rc.g).max()) + 1e-12:
            continue
        M = np.dot(u, UB)
        Mr = np.round(M)
        if np.abs(M - Mr).max() < TOL_INT and tuple(tuple(int(v) for v in row) for row in Mr) in rc.aut:
            return True
    return False


class OrientStats(object):
    def __init__(self):
        self.calls = 0
        self.law_exact = 0
        self.law_differs = 0
        self.direct_routes = 0
        self.skipped_collinear = 0
        self.ambiguous_nearest = 0
        self.multi = 0
        self.crossblock = 0
        self.dedup = 0


def same_lengths_only(rc, kept_rec, x, mode):
    """every hkl pair of the ring pair that a lookup for pair x may return (mode 0: the pairs of x's angle class;
    crange: the pairs with |cos| < 0.98 within crange of x's cosine) belongs to x's angle class and has x's lengths
    Q(ha), Q(hb); decided on the exact N, Q of the pairs, not on any kept list"""
    cache = kept_rec.setdefault("_samelen", {})
    key = (kept_rec["nk"][x], mode)
    if key not in cache:
        if "_arr" not in kept_rec:
            nn = np.asarray(kept_rec["nn"], float)
            dd = np.asarray(kept_rec["dd"], float)
            P = np.asarray(kept_rec["_order"], int).reshape(-1, 2, 3)
            qa = np.einsum("ni,ij,nj->n", P[:, 0], rc.G, P[:, 0])
            qb = np.einsum("ni,ij,nj->n", P[:, 1], rc.G, P[:, 1])
            kept_rec["_arr"] = (nn / np.sqrt(dd), qa, qb, np.asarray(kept_rec["nk"]), np.asarray(kept_rec["small"], bool))
        cosv, qa, qb, nk, small = kept_rec["_arr"]
        sel = (nk == nk[x]) if mode == 0 else (small & (np.abs(cosv - cosv[x]) < CRS[mode] + 1e-9))
        cache[key] = bool(np.all(nk[sel] == nk[x]) and np.all(qa[sel] == qa[x]) and np.all(qb[sel] == qb[x]))
    return cache[key]


def judge_orient(rc, r1, r2, kept_rec, lookups, U, x, mode, stats, perturb=None, conform=True, store=None, law=None):
    """one orient() call for pair position x (0-based) of the recorded order, rotation U, mode in
    (0 nearest, 2, 710).  Returns list of (kind, text): kind 'property' | 'conformance'.
    store: dict that receives the UBIlist of this call (key: ring pair, hkl pair, mode);
    law  : the store of the k = 0 instance of the same cell (same rotation): the scale law is compared bit for bit"""
    order = kept_rec["_order"]
    ha = np.array(order[x][0], float)
    hb = np.array(order[x][1], float)
    UB = np.dot(U, rc.B)
    g1 = np.dot(UB, ha)
    g2 = np.dot(UB, hb)
    cell = rc.cell
    probs = []
    # the two g-vectors are handed over in arrays of the caller (rows of a (2,3) array / columns of a (3,2) array in
    # turn) which he overwrites as soon as orient has returned (Orient.tla, ownership: OOrient, OScribG)
    rc.ncalls += 1
    if rc.ncalls % 2:
        gbuf = np.array([g1, g2])
        a1, a2 = gbuf[0], gbuf[1]
    else:
        gbuf = np.array([g1, g2]).T.copy()
        a1, a2 = gbuf[:, 0], gbuf[:, 1]
    try:
        if mode == 0:
            cell.orient(r1 - 1, a1, r2 - 1, a2)
        else:
            cell.orient(r1 - 1, a1, r2 - 1, a2, crange=CRS[mode])
    except Exception as e:      # noqa
        return [("property", "orient raised %r" % (e,))]
    stats.calls += 1
    try:
        held = cell.UBIlist
        ubis = [np.array(u, float) for u in held]
        held_ubi = cell.UBI
        ubi_copy = np.array(held_ubi, float)
        gbuf[...] = gbuf[::-1] * (-1.75) + 0.375
        now = [np.asarray(u, float) for u in held] + [np.asarray(held_ubi, float)]
        if len(now) != len(ubis) + 1 or not all(np.array_equal(a, b) for a, b in zip(now, ubis + [ubi_copy])):
            probs.append(("property", "the orientations handed out changed when the caller overwrote the g-vector arrays he had passed"))
        if rc.prev is not None:
            pheld, pcopies, pubi, pubicopy = rc.prev
            pnow = [np.asarray(u, float) for u in pheld]
            if (len(pnow) != len(pcopies) or not all(np.array_equal(a, b) for a, b in zip(pnow, pcopies))
                    or not np.array_equal(np.asarray(pubi, float), pubicopy)):
                probs.append(("property", "the result handed out by the PREVIOUS orient call (its UBIlist / UBI arrays) changed during this call"))
        rc.prev = (held, ubis, held_ubi, ubi_copy)
    except Exception as e:      # noqa
        return [("property", "orient left UBIlist / UBI that cannot be read as 3x3 matrices: %r" % (e,))]
    lkey = (r1, r2, tuple(order[x][0]), tuple(order[x][1]), mode)
    if store is not None:
        store[lkey] = ubis
    if law is not None and lkey in law:
        base = law[lkey]
        if len(base) == len(ubis) and all(np.array_equal(u, b * rc.s) for u, b in zip(ubis, base)):
            stats.law_exact += 1
        else:
            stats.law_differs += 1
            probs.append(("conformance", "scale law: UBIlist of the cell scaled by 2^%d is not 2^%d times (bit for bit, same order) "
                                         "the UBIlist of the unscaled cell (%d / %d members)" % (rc.k, rc.k, len(ubis), len(base))))
    if perturb == "drop" and ubis:
        ubis = ubis[1:]
    if perturb == "dup" and ubis:
        ubis = ubis + [ubis[0].copy()]
    if perturb == "flip" and ubis:
        ubis = [-u for u in ubis]
    keptpairs = kept_rec["_keptpairs"]
    lk = lookups.get((kept_rec["nk"][x], mode)) if conform else None
    if lk is None and conform:
        probs.append(("conformance", "no lookup record for N=%d mode=%d" % (kept_rec["nk"][x], mode)))
    cand = lk["cand"] if lk else []
    classes = lk["classes"] if lk else []
    scale = max(1.0, float(np.abs(rc.BI).max()))
    # predicted orientation of every candidate kept pair (Busing-Levy construction, harness arithmetic):
    # UBI_k = B^-1 . Tc_k . Tg^T ; the crystal side B^-1.Tc_k is formed once per kept pair
    if "_BT" not in kept_rec:
        kept_rec["_BT"] = np.array([np.dot(rc.BI, triad(np.dot(rc.B, np.array(a, float)), np.dot(rc.B, np.array(b, float))))
                                    for a, b in keptpairs]).reshape(-1, 3, 3)
    hit = []
    if lk and cand:
        Tg = triad(g1, g2)
        idx = np.array(cand, int) - 1
        pred = np.matmul(kept_rec["_BT"][idx], Tg.T)
        cls_of = {}
        for i, c in enumerate(classes):
            for k in c:
                cls_of[k] = i
    # ---- conformance: UBIlist = one orientation per class of the candidates
    for u in (ubis if lk else []):
        ks = np.nonzero(np.abs(pred - u).max(axis=(1, 2)) <= REL * scale + 1e-12)[0] if cand else []
        if len(ks) == 0:
            probs.append(("conformance", "UBIlist member is not the Busing-Levy orientation of any candidate pair"))
            hit.append(None)
            continue
        hit.append(cls_of.get(cand[int(ks[0])]))
    if not lk:
        pass
    elif mode == 0:
        if len(ubis) != 1:
            probs.append(("conformance", "nearest mode returned %d orientations" % len(ubis)))
        elif not np.array_equal(np.asarray(cell.UBI, float), np.asarray(cell.UBIlist[0], float)) and perturb is None:
            probs.append(("conformance", "cell.UBI is not UBIlist[0]"))
    else:
        got = sorted(h for h in hit if h is not None)
        if got != list(range(len(classes))):
            probs.append(("conformance", "UBIlist classes %s, model expects one per class of %s" % (got, classes)))
        if len(classes) > 1:
            stats.multi += 1
        if any(len(c) > 1 for c in classes):
            stats.dedup += 1
        if any(kept_rec["keptn"][k - 1] != kept_rec["nk"][x] for k in cand):
            stats.crossblock += 1
    # ---- property (batched over the members of UBIlist)
    found = False
    if ubis:
        A = np.array(ubis)                                   # (n,3,3)
        finite = bool(np.all(np.isfinite(A)))
        if finite:
            # (a) right handed, the cell's metric
            dets = np.linalg.det(A)
            if np.any(dets <= 0):
                probs.append(("property", "left handed UBI (det %g)" % float(dets.min())))
            gscale = float(np.abs(rc.g).max())
            if np.abs(np.matmul(A, A.transpose(0, 2, 1)) - rc.g).max() > REL * gscale + 1e-12:
                probs.append(("property", "UBI.UBI^T is not the cell's metric tensor"))
            # (a') a candidate made from a pair of the observed angle AND the observed lengths gives integer hkl to both
            # reflections: required when every hkl pair the lookup can return (nearest: the observed angle class; crange:
            # every class within crange of it) has the observed cosine and the observed |g1| |g2| - in a merged ring
            # a pair of another family subtends the same angle with other lengths and need not index g1, g2
            if mode in (0, 2) and same_lengths_only(rc, kept_rec, x, mode):
                hc = np.concatenate([np.matmul(A, g1), np.matmul(A, g2)])
                if np.abs(hc - np.round(hc)).max() > TOL_INT:
                    probs.append(("property", "a candidate does not give integer hkl to the two reflections it was made from"))
            # (b) no two candidates describe the same lattice: UBI_i . UBI_j^-1 integer
            if len(ubis) > 1:
                P = np.matmul(A[:, None], np.linalg.inv(A)[None, :])          # (n,n,3,3)
                dev = np.abs(P - np.round(P)).max(axis=(2, 3))
                dev[np.arange(len(ubis)), np.arange(len(ubis))] = 1.0
                if dev.min() < TOL_INT:
                    probs.append(("property", "two members of UBIlist describe the same lattice"))
            # (c) some candidate equals the true UBI up to a lattice symmetry: M = UBI.UB in Aut+(G)
            Ms = np.matmul(A, UB)
            Mr = np.round(Ms)
            okint = np.abs(Ms - Mr).max(axis=(1, 2)) < TOL_INT
            for i in np.nonzero(okint)[0]:
                if tuple(tuple(int(v) for v in row) for row in Mr[i]) in rc.aut:
                    found = True
    if any(not np.all(np.isfinite(u)) for u in ubis):
        probs.append(("property", "UBIlist contains a non-finite matrix"))
    if "_nblock" not in kept_rec:
        # number of inequivalent hkl pairs subtending each angle: counted on the pairs themselves (not on any kept list)
        kept_rec["_nblock"] = class_counts(rc, order, kept_rec["nk"])
    nblock = kept_rec["_nblock"].get(kept_rec["nk"][x], 0)
    if mode == 0 and nblock > 1:
        # several inequivalent pairs subtend this angle: a single returned candidate cannot be required
        # to be the right one (the indexer re-calls with crange); conformance above still applies
        stats.ambiguous_nearest += 1
    elif not found:
        probs.append(("property", "no member of UBIlist indexes the generating grain (integer hkl for every "
                                  "reflection, right handed, lattice symmetry of the true UBI)"))
    return probs

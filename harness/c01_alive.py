"""C01: geometry calls that are ALIVE AT THE SAME TIME (harness-only instance families, same exact oracle).

The forward machine of specs/Geometry.tla is a function of ONE lattice point: what a call returns depends on that call's own
arguments and on nothing else - not on a call of another user that is in flight at the same moment, not on a call made
later.  c01_geometry.judge_fwd compares every output directly after the call that made it, one call at a time; the two
families below keep several users (callers) alive:

  threads  (re-entrancy)  3-4 PYTHON threads run concurrently, each looping over its OWN parameter set (pairwise different
           wedge / chi, both omega signs, translations on and off, flips) and its own objects on a table of 1e5..3e5 rows
           (a call lasts milliseconds: cImageD11.compute_geometry is declared `threadsafe` in src/_cImageD11.pyf, the GIL
           is released around it; the other kernels hold the GIL but interleave call by call):
             Ctransform.sf2xyz / xyz2gv / xyz2geometry / sf2gv, columnfile.updateGeometry(fast=True) /
             updateGV(fast=True), the raw kernels compute_xlylzl / compute_gv / compute_geometry (dirty caller buffers),
             and once per thread columnfile.updateGeometry(fast=False) (the Python reference under the same conditions)
             and the numba copy point_by_point.compute_gve.
           Every result is compared with that thread's own oracle (the exact expectation of the specification, finished
           before the threads start).  The start / end times of every call are logged: the family counts the compiled
           calls during which another thread (other wedge / chi) STARTED a compiled call (vacuity guard, repeated up to
           three times if the box did not schedule the threads together).  After the threads have ended, the results of
           each thread's last round are judged once more (Stand) and must not share memory across calls (NoAlias).
  histories (results keep standing)  one thread, two callers A, B with tables of EQUAL length n and different parameters:
           every ordered pair of calls ((A|B, op), (A|B, op)), op in the six routes that allocate what they return
           (2 x 6 squared = 144 histories) for n = 7 and n = 70000 (thorough: also 4097 and 300000).  Each result is
           judged when it is returned; after the second call the first result must still hold what it held (bit-identical
           to what was judged; if not, it is judged against the oracle again and a failure is reported) and
           np.shares_memory(first, second) must be false.  At the large n a result whose bits equal an already judged
           result of the same (caller, op) is not judged again.
The arrays handed in (sc, fc, omega, lab coordinates) must be bit-identical after each family.
"""
import itertools, threading, time
import numpy as np
import common
import c01_geometry as G

ALLOC_OPS = ("sf2xyz", "xyz2gv", "xyz2geometry", "sf2gv", "cf_geometry", "cf_gv")
RAW_OPS = ("raw_xlylzl", "raw_gv", "raw_geometry")
# ops that run the wedge / chi dependent kernels (compute_gv, compute_geometry)
STAGE_OPS = ("xyz2gv", "xyz2geometry", "sf2gv", "cf_geometry", "cf_gv", "raw_gv", "raw_geometry")


class Result(object):
    def __init__(self, caller, op, label, get, arrays):
        self.caller, self.op, self.label, self.get, self.arrays = caller, op, label, get, arrays
        self.snap = None

    def snapshot(self):
        self.snap = {k: np.array(v) for k, v in self.get().items()}

    def same_bits(self, other):
        """the live content against a snapshot (dictionary of arrays): bit for bit (NaN equals NaN), nothing is copied"""
        now = self.get()
        return set(now) == set(other) and all(now[k].shape == other[k].shape and
                                              np.array_equal(now[k].view(np.int64), other[k].view(np.int64)) for k in other)

    def stands(self):
        return self.same_bits(self.snap)


def _geo(out):
    return {"tth": out[:, 0], "eta": out[:, 1], "ds": out[:, 2], "g": out[:, 3:6]}


class Caller(object):
    """one user of the geometry routes: own parameter set, own peak table, own objects"""

    def __init__(self, rt, orc, name):
        self.rt, self.orc, self.name = rt, orc, name
        self.P = dict(orc.P)
        self.t = (self.P["t_x"], self.P["t_y"], self.P["t_z"])
        self.ct = rt.transform.Ctransform(dict(self.P))
        self.xe = np.ascontiguousarray(orc.xyz)
        self.pristine = {k: np.array(v) for k, v in (("sc", orc.sc), ("fc", orc.fc), ("omega", orc.omega), ("oms", orc.oms),
                                                      ("xe", self.xe))}
        self.rmat = G.exact_rmat(orc.par)
        self.problems = []
        self.log = []           # (op, start, end)
        self.kept = []
        self.ncmp = 0
        self.worst = 0.0

    def key(self):
        return (self.P["wedge"], self.P["chi"])

    def colfile(self):
        o = self.orc
        cf = self.rt.columnfile.colfile_from_dict({"sc": o.sc.copy(), "fc": o.fc.copy(), "omega": o.omega.copy()})
        return cf

    def call(self, op):
        rt, o, P, t, ct = self.rt, self.orc, self.P, self.t, self.ct
        sc, fc, om = o.sc, o.fc, o.omega
        n = o.n
        if op == "sf2xyz":
            out = ct.sf2xyz(sc, fc)
            return Result(self, op, "Ctransform.sf2xyz", lambda: {"xyz": out}, [out])
        if op == "xyz2gv":
            out = ct.xyz2gv(self.xe, om, t[0], t[1], t[2])
            return Result(self, op, "Ctransform.xyz2gv", lambda: {"g": out}, [out])
        if op == "xyz2geometry":
            out = ct.xyz2geometry(self.xe, om, t[0], t[1], t[2])
            return Result(self, op, "Ctransform.xyz2geometry", lambda: _geo(out), [out])
        if op == "sf2gv":
            out = ct.sf2gv(sc, fc, om, t[0], t[1], t[2])
            return Result(self, op, "Ctransform.sf2gv", lambda: {"g": out}, [out])
        if op in ("cf_geometry", "cf_geometry_slow"):
            cf = self.colfile()
            cf.parameters = rt.parameters.parameters(**P)
            fast = op == "cf_geometry"
            cf.updateGeometry(fast=fast)

            return Result(self, op, "columnfile.updateGeometry(fast=%s)" % fast,
                          lambda: {k: np.asarray(cf.getcolumn(k), float) for k in G.GEOCOLS}, [cf.getcolumn(k) for k in G.GEOCOLS])
        if op == "cf_gv":
            cf = self.colfile()
            cf.updateGV(pars=rt.parameters.parameters(**P), fast=True)
            return Result(self, op, "columnfile.updateGV(fast=True)",
                          lambda: {k: np.asarray(cf.getcolumn(k), float) for k in ("gx", "gy", "gz")},
                          [cf.getcolumn(k) for k in ("gx", "gy", "gz")])
        if op == "raw_xlylzl":
            cen = np.array([P["z_center"], P["y_center"], P["z_size"], P["y_size"]], float)
            out = np.full((n, 3), 7.25)
            rt.c.compute_xlylzl(sc, fc, cen, self.rmat, np.array([P["distance"], 0.0, 0.0]), out)
            return Result(self, op, "cImageD11.compute_xlylzl", lambda: {"xyz": out}, [out])
        if op == "raw_gv":
            out = np.full((n, 3), 7.25)
            rt.c.compute_gv(self.xe, om, P["omegasign"], P["wavelength"], P["wedge"], P["chi"], np.array(t, float), out)
            return Result(self, op, "cImageD11.compute_gv", lambda: {"g": out}, [out])
        if op == "raw_geometry":
            out = np.full((n, 6), 7.25)
            rt.c.compute_geometry(self.xe, om, P["omegasign"], P["wavelength"], P["wedge"], P["chi"], np.array(t, float), out)
            return Result(self, op, "cImageD11.compute_geometry", lambda: _geo(out), [out])
        if op == "numba_gve":
            out = rt.pbp.compute_gve(sc, fc, o.oms, np.full(n, 0.0), P["distance"], P["y_center"], P["y_size"], P["tilt_y"],
                                     P["z_center"], P["z_size"], P["tilt_z"], P["tilt_x"], P["o11"], P["o12"], P["o21"],
                                     P["o22"], t[0], t[1], t[2], P["wedge"], P["chi"], P["wavelength"])
            return Result(self, op, "point_by_point.compute_gve", lambda: {"g": out.T}, [out])
        raise ValueError(op)

    def judge(self, res, when=""):
        """the result against this caller's oracle; returns the number of problems found"""
        o = self.orc
        J = G.Judge(o.ok, o.unitf)
        lab = "%s%s [caller %s]" % (res.label, when, self.name)
        parts = res.get()
        if "gx" in parts:               # columns of a columnfile
            parts = dict(parts, g=np.array([parts["gx"], parts["gy"], parts["gz"]]).T)
        if "xl" in parts:
            parts = dict(parts, xyz=np.array([parts["xl"], parts["yl"], parts["zl"]]).T)
        if "xyz" in parts:
            J.vec(lab + " xl,yl,zl", parts["xyz"], o.xyz, length=True)
        if "tth" in parts:
            J.ang(lab + " tth", parts["tth"], o.tth, modulo=False)
            J.ang(lab + " eta", parts["eta"], o.eta)
            J.vec(lab + " ds", parts["ds"], o.ds)
        if "g" in parts:
            J.vec(lab + " gx,gy,gz", parts["g"], o.g)
        self.problems += J.problems
        self.ncmp += J.ncmp
        self.worst = max(self.worst, J.worst)
        return len(J.problems)

    def inputs_intact(self, where):
        o = self.orc
        for k, a in (("sc", o.sc), ("fc", o.fc), ("omega", o.omega), ("oms", o.oms), ("xe", self.xe)):
            if a.tobytes() != self.pristine[k].tobytes():
                self.problems.append("%s [caller %s] modified its input array %s in place" % (where, self.name, k))


def aliased(r1, r2):
    return any(np.shares_memory(a, b) for a in r1.arrays for b in r2.arrays)


def pick_groups(groups, k, rng):
    """k batches with pairwise different (wedge, chi); among them both omega signs, a translation, a non-default flip
    wherever the records on offer allow it (corner set: default flip only)"""
    best = None
    for attempt in range(60):
        order = rng.permutation(len(groups))
        got, keys = [], set()
        for i in order:
            par = groups[i][0]["par"]
            key = (tuple(par["wedge"]), tuple(par["chi"]))
            if key in keys or (attempt < 40 and len(groups[i]) < 2):
                continue
            keys.add(key)
            got.append(groups[i])
            if len(got) == k:
                break
        if len(got) < k:
            continue
        pars = [g[0]["par"] for g in got]
        score = (len({p["sgn"] for p in pars}) > 1) + any(any(p["t"]) for p in pars) + any(not any(p["t"]) for p in pars) \
            + (len({p["flip"] for p in pars}) > 1) + any(p["sw"][3] and p["sw"][4] for p in pars)
        if best is None or score > best[0]:
            best = (score, got)
        if score == 5:
            break
    if best is None:
        raise common.MachineryError("alive: no %d batches with pairwise different wedge / chi" % k)
    return best[1]


def _callers(rt, groups, n):
    out = []
    for i, g in enumerate(groups):
        orc = G.Oracle(g)
        out.append(Caller(rt, orc.tiled(n) if n != orc.n else orc, "ABCDEFGH"[i]))
    return out


def _case(mode, groups, n, **kw):
    d = {"kind": "alive", "mode": mode, "groups": groups, "n": n}
    d.update(kw)
    return d


# ---- threads ------------------------------------------------------------------------------------------------------------
def run_threads(rt, groups, n, rounds, stats, report, min_overlap=8, slow=True):
    """report(what, case) records a violation.  returns True if violations were reported"""
    first = []
    for attempt in range(3):
        callers = _callers(rt, groups, n)
        barrier = threading.Barrier(len(callers))

        def work(c, idx):
            try:
                rt.c.cimaged11_omp_set_num_threads(1 if idx % 2 == 0 else 2)
                barrier.wait(timeout=120)
                ops = list(ALLOC_OPS + RAW_OPS)
                for r in range(rounds):
                    k = (idx * 2 + r * 3) % len(ops)
                    for op in ops[k:] + ops[:k] + (["cf_geometry_slow"] if r == 0 and slow else []) + \
                            (["numba_gve"] if r == 0 and rt.pbp is not None else []):
                        t0 = time.perf_counter()
                        res = c.call(op)
                        c.log.append((op, t0, time.perf_counter()))
                        c.judge(res, " while %d other python threads run their own parameter sets" % (len(callers) - 1))
                        if r == rounds - 1:
                            c.kept.append(res)
            except Exception as e:          # a route that raises is a disagreement
                c.problems.append("[caller %s] %s: %s (in a python thread)" % (c.name, type(e).__name__, e))

        ths = [threading.Thread(target=work, args=(c, i)) for i, c in enumerate(callers)]
        t0 = time.time()
        for th in ths:
            th.start()
        for th in ths:
            th.join()
        stats["alive_threads_s"] = round(stats.get("alive_threads_s", 0.0) + time.time() - t0, 2)
        # how concurrent was it: compiled wedge / chi calls during which ANOTHER thread started one
        overlap = 0
        for c in callers:
            for op, a, b in c.log:
                if op in STAGE_OPS and any(o2 in STAGE_OPS and a < a2 < b for d in callers if d is not c and d.key() != c.key()
                                           for o2, a2, b2 in d.log):
                    overlap += 1
        stats["alive_thread_calls"] = stats.get("alive_thread_calls", 0) + sum(len(c.log) for c in callers)
        stats["alive_overlapped_calls"] = stats.get("alive_overlapped_calls", 0) + overlap
        stats["alive_call_ms_max"] = round(max([stats.get("alive_call_ms_max", 0.0)] +
                                               [1e3 * (b - a) for c in callers for _, a, b in c.log]), 2)
        # Stand / NoAlias over what the threads kept (tables of equal length, different parameters)
        for c in callers:
            for res in c.kept:
                c.judge(res, " judged again after all threads ended")
            c.inputs_intact("the concurrent calls")
        kept = [r for c in callers for r in c.kept]
        for r1, r2 in itertools.combinations(kept, 2):
            if aliased(r1, r2):
                r1.caller.problems.append("%s [caller %s] and %s [caller %s] returned arrays that share memory" % (
                    r1.label, r1.caller.name, r2.label, r2.caller.name))
        stats["alive_comparisons"] = stats.get("alive_comparisons", 0) + sum(c.ncmp for c in callers)
        stats["worst_ratio"] = max(stats.get("worst_ratio", 0.0), max(c.worst for c in callers))
        probs = [p for c in callers for p in c.problems]
        if probs:
            report("%s [%d python threads, each with its own parameter set and objects, tables of %d rows; %d disagreeing "
                   "outputs; wedge, chi per caller %s]" % (probs[0], len(callers), n, len(probs),
                                                          [list(c.key()) for c in callers]),
                   _case("threads", groups, n, rounds=rounds, problems=probs[:20]))
            return True
        if overlap >= min_overlap:
            return False
    raise common.MachineryError("vacuity: python threads never ran the compiled geometry calls concurrently "
                                "(overlapped calls %d of %d)" % (stats["alive_overlapped_calls"], stats["alive_thread_calls"]))


# ---- histories ----------------------------------------------------------------------------------------------------------
def run_histories(rt, groups, n, stats, report, reuse_bits=True):
    """every ordered pair of allocating calls of two callers with tables of n rows"""
    callers = _callers(rt, groups[:2], n)
    judged = {}                   # (caller, op) -> bytes of a result that passed the oracle
    probs = []
    nh = 0

    def returned(res):
        res.snapshot()
        key = (res.caller.name, res.op)
        if reuse_bits and key in judged and res.same_bits(judged[key]):
            return
        if res.caller.judge(res) == 0:
            judged[key] = res.snap

    with G.omp_threads(rt, 2):
        for (c1, op1), (c2, op2) in itertools.product(list(itertools.product(callers, ALLOC_OPS)), repeat=2):
            nh += 1
            try:
                r1 = c1.call(op1)
                returned(r1)
                r2 = c2.call(op2)
                returned(r2)
                then = " after %s [caller %s] was called" % (r2.label, c2.name)
                if not r1.stands():
                    if c1.judge(r1, then) == 0 and not aliased(r1, r2):
                        c1.problems.append("%s [caller %s] changed%s" % (r1.label, c1.name, then))
                if aliased(r1, r2):
                    c1.problems.append("%s [caller %s] shares memory with the result of the later call %s [caller %s]" % (
                        r1.label, c1.name, r2.label, c2.name))
            except Exception as e:
                c1.problems.append("history %s [%s], %s [%s]: %s: %s" % (op1, c1.name, op2, c2.name, type(e).__name__, e))
            if sum(len(c.problems) for c in callers) > 40:
                break
    for c in callers:
        c.inputs_intact("the call histories")
        probs += c.problems
    stats["alive_histories"] = stats.get("alive_histories", 0) + nh
    stats["alive_comparisons"] = stats.get("alive_comparisons", 0) + sum(c.ncmp for c in callers)
    stats["worst_ratio"] = max(stats.get("worst_ratio", 0.0), max(c.worst for c in callers))
    if probs:
        report("%s [histories of two calls, two callers with tables of %d rows and different parameters; %d problems]" % (
            probs[0], n, len(probs)), _case("histories", groups[:2], n, problems=probs[:20]))
        return True
    return False


def run(rt, groups, rng, tier, stats, report):
    """both families on seeded picks of the batches; stats gets alive_* counters"""
    t0 = time.time()
    tms = common_times()
    thorough = tier == "thorough"
    # threads: two teams (4 and 3 callers), tables of 100000 and 250000 rows
    for k, n, rounds, slow in ((4, 100000, 2, True), (3, 250000, 1, False)) if not thorough else (
            (4, 100000, 6, True), (3, 250000, 4, True), (4, 300000, 3, False)):
        if run_threads(rt, pick_groups(groups, k, rng), n, rounds, stats, report, slow=slow,
                       min_overlap=8 if rounds > 1 else 4):
            break
    for n in (7, 70000) if not thorough else (7, 4097, 70000, 300000):
        if run_histories(rt, pick_groups(groups, 2, rng), n, stats, report):
            break
    stats["alive_s"] = round(time.time() - t0, 1)
    stats["alive_cpu_s"] = round(common_times() - tms, 1)


def common_times():
    import os
    t = os.times()
    return t[0] + t[1]


def replay(rt, case, stats, report):
    if case["mode"] == "threads":
        try:
            return run_threads(rt, case["groups"], case["n"], case.get("rounds", 3), stats, report)
        except common.MachineryError:
            return False
    return run_histories(rt, case["groups"], case["n"], stats, report)


def selftest(rt, group):
    """a perturbed expectation, a result overwritten after it was returned and two results in one array must be rejected"""
    for pt in ("xyz", "g", "eta"):
        c = Caller(rt, G.Oracle(group, perturb=pt).tiled(64), "S")
        if sum(c.judge(c.call(op)) for op in ALLOC_OPS + RAW_OPS) == 0:
            raise common.MachineryError("selftest (alive): perturbed %s accepted" % pt)
    c = Caller(rt, G.Oracle(group).tiled(64), "S")
    for op in ALLOC_OPS:
        r1 = c.call(op)
        r1.snapshot()
        if not r1.stands() or c.judge(r1):
            raise common.MachineryError("selftest (alive): %s does not stand right after the call" % op)
        r1.arrays[0][...] = r1.arrays[0] * (1 + 1e-6) + 1e-6
        if r1.stands() or not c.judge(r1):
            raise common.MachineryError("selftest (alive): overwritten result of %s accepted" % op)
        r2 = Result(c, op, "view", r1.get, [r1.arrays[-1][1:]])
        if not aliased(r1, r2) or aliased(r1, c.call(op)):
            raise common.MachineryError("selftest (alive): np.shares_memory test wrong for %s" % op)

"""C06 child: judge a list of (case, reps) in THIS process' OpenMP environment (OMP_THREAD_LIMIT, OMP_DYNAMIC, ...).

usage: c06_child.py cases.json out.json        (VERIF_REPO / scratch come from the parent's environment)
       c06_child.py threads job.json out.json  re-entrancy: job = {"threads": [[case, reps, S], ...], "plans": [...],
                                               "rounds": r, "pinned_rounds": r}: the plans of ScoreRefineCalls.tla are run
                                               from len(threads) Python threads (props.c06.run_plans)
The expectations are those of the parent (props.c06.judge: exact values from the specification's terminal states).
"""
import sys, os, json
sys.path.insert(0, os.path.dirname(os.path.abspath(__file__)))
import common


def threads_main():
    job = json.load(open(sys.argv[2]))
    shadow = common.build_shadow("normal")
    common.use_shadow(shadow)
    from props import c06
    rt = c06.Routes()
    preps = [c06.Prepared(case, reps, t, S) for t, (case, reps, S) in enumerate(job["threads"])]
    res = c06.run_plans(rt.c, preps, job["plans"], job["rounds"], job["pinned_rounds"])
    json.dump({"results": res, "info": {"peaks": [len(p.gv) for p in preps]}}, open(sys.argv[3], "w"))


def main():
    if sys.argv[1] == "threads":
        return threads_main()
    cases = json.load(open(sys.argv[1]))
    shadow = common.build_shadow("normal")
    common.use_shadow(shadow)
    from props import c06
    rt = c06.Routes()
    out = []
    for idx, (case, reps) in enumerate(cases):
        probs = c06.judge(case, rt, reps)
        out.append([idx, [p if isinstance(p, str) else list(p) for p in probs]])
    info = {"threads_max": int(rt.c.cimaged11_omp_get_max_threads()) if hasattr(rt, "c") else None}
    json.dump({"results": out, "info": info}, open(sys.argv[2], "w"))


if __name__ == "__main__":
    main()

"""Helpers of the C07 check (competing assignment): see harness/props/c07.py.

 * exact tables (mode A): Packed = many TLC behaviours of ScoreAssign.tla that share one presentation sequence, realised
   as the peaks of ONE g-vector array (peaks are independent in the model and in the kernel), tiled across several 4096
   OpenMP chunks, with arbitrary initial buffer content, and compared call by call with the model's snapshots; the
   callers (fight_over_peaks, getind, nb_utils.assign_peaks_to_grains, GrainSinogram.prepare_peaks_from_2d) are driven
   with the same arrays
 * reference errors (mode C): hkl_err / geo_errs are the harness's own numpy computations (never ImageD11's);
   peak_ranks abstracts them to per-peak ranks where binary64 cannot blur the order; block_traces writes the records
   TraceScoreAssign.tla validates
 * route drivers for mode C and the geometry cases of refinegrains.assignlabels (per-grain translations; forward model
   c09_sim.forward, written from the formulas, independent of cImageD11.compute_gv)
 * memory layouts (ScoreAssignLayout.tla): lay_gv / lay_ubi realise a logical array under a named address map / item
   type (C, F, strided, reversed, binary32, integer, byte swapped, unaligned, read only); realise() returns the arrays to
   hand over together with their LOGICAL binary64 values (numpy only), which every expectation is computed from;
   build_indexer makes an indexer the ways the library does (indexer(gv=), indexer_from_colfile,
   indexer_from_colfile_and_ucell, readgvfile, .gv assigned) optionally followed by assigntorings()
 * non-finite peaks (NFKinds of ScoreAssignLayout.tla): nf_values / inject_nonfinite put NaN / +inf / -inf into one or
   all components of chosen rows; such a peak is indexed by no grain (reference error := +inf, never taken from the
   code), finite_rows() says which rows are meant; every comparison of stored errors is written so that a NaN fails it
"""
import io, os, contextlib
import numpy as np
import common
import c09_sim

TOL = 8.0 / 64.0
LEVEL = {0: 1.0 / 64, 1: 2.0 / 64, 2: 7.0 / 64, 3: 20.0 / 64}      # level 3 = E : outside tolerance ; (7/64)^2 is just below tol^2
LEVELV = np.array([LEVEL[i] for i in range(4)])
BLOCK = 64
CHUNK = 4096
THREADS = (1, 2, 3, 5, 8, 16, 32)
LABMAPS = {"one": (1, 0), "zero": (0, 9)}        # name -> (kernel label of model label 1, a value that is no presented label)

# ---------------------------------------------------------------------------------------------
# memory layouts: the names are the constants GvLayouts / UbiLayouts / Builds / Preps of ScoreAssignLayout.tla
GV_LAYOUTS = ("C", "F", "rows2", "cols2", "rev", "f32", "f32F", "i64", "i32F", "be", "unaligned", "readonly")
UBI_LAYOUTS = ("C", "F", "strided", "f32", "list", "i64")
BUILDS = ("indexer", "from_colfile", "from_colfile_and_ucell", "set_gv", "readgvfile")
PREPS = ("direct", "rings")
PLAIN = ("C", "C", "indexer", "direct")
INT_LAYOUTS = ("i64", "i32F")
# layouts that keep binary64 values bit for bit (usable for detector columns, where the reference is formed from the values)
SAME_VALUE_LAYOUTS = ("C", "F", "rows2", "cols2", "rev", "be", "unaligned", "readonly")
# non-finite peaks: NFKinds of ScoreAssignLayout.tla and the layouts / builds of configuration _nf
NF_KINDS = ("nan_one", "nan_all", "pinf_one", "ninf_one", "inf_all")
NF_GV_LAYOUTS = ("C", "F", "cols2", "f32", "be")
NF_UBI_LAYOUTS = ("C", "F")


def nf_combos():
    """the combinations configuration _nf enumerates (floating item types, no assigntorings(): it raises on a NaN)"""
    return [x for x in combos() if x[0] in NF_GV_LAYOUTS and x[1] in NF_UBI_LAYOUTS and x[3] == "direct"]


def float_combos():
    """every combination a non-finite g-vector can be handed over under"""
    return [x for x in combos() if x[0] not in INT_LAYOUTS and x[3] == "direct"]


def nf_values(kind, j):
    """the three components of a non-finite peak of the named kind at array position j: None = keep the finite value.
    The component of a _one kind and the signs of inf_all rotate with the position"""
    nan, inf = float("nan"), float("inf")
    one = lambda v: tuple(v if c == j % 3 else None for c in range(3))
    if kind == "nan_one":
        return one(nan)
    if kind == "pinf_one":
        return one(inf)
    if kind == "ninf_one":
        return one(-inf)
    if kind == "nan_all":
        return (nan, nan, nan)
    if kind == "inf_all":
        return tuple(inf if (j + c) % 2 else -inf for c in range(3))
    raise common.MachineryError("unknown non-finite kind %r" % (kind,))


def put_nonfinite(g, rows, kinds):
    """g (n,3) binary64, modified in place: row rows[i] becomes a non-finite peak of kind kinds[i]"""
    for j, kind in zip(rows, kinds):
        for c, v in enumerate(nf_values(kind, int(j))):
            if v is not None:
                g[j, c] = v
    return g


def inject_nonfinite(rng, gv, frac=0.08, at_least=3, column=None):
    """a copy of gv in which seeded rows (every chunk of 4096 gets some) are non-finite peaks of rotating kinds;
    column = c: the whole column c is NaN as well (a NaN gx / gy / gz column of a columnfile).  returns (gv, rows)"""
    g = np.array(gv, float)
    n = len(g)
    m = min(n, max(at_least, int(frac * n)))
    rows = set(int(x) for x in rng.choice(n, size=m, replace=False))
    for c0 in range(0, n, CHUNK):                   # first and last peak of every OpenMP chunk
        rows.update((c0, min(n, c0 + CHUNK) - 1))
    rows = np.array(sorted(rows))
    k0 = int(rng.integers(0, len(NF_KINDS)))
    put_nonfinite(g, rows, [NF_KINDS[(k0 + i) % len(NF_KINDS)] for i in range(len(rows))])
    if column is not None:
        g[:, column] = np.nan
        rows = np.arange(n)
    return g, rows


def finite_rows(a):
    """rows of a (n, m) array that hold finite values only"""
    return np.isfinite(np.asarray(a, float)).all(axis=1)


def combos():
    """Combos of ScoreAssignLayout.tla"""
    out = []
    for gl in GV_LAYOUTS:
        for ul in UBI_LAYOUTS:
            for b in BUILDS:
                for p in PREPS:
                    if (ul == "C" or (gl in ("C", "F") and b == "indexer" and p == "direct")) and (b != "readgvfile" or gl == "C"):
                        out.append((gl, ul, b, p))
    return out


def _unaligned(a):
    """a C ordered copy of `a` whose buffer starts one byte off the item alignment"""
    buf = bytearray(a.nbytes + 1)
    u = np.frombuffer(buf, dtype=a.dtype, count=a.size, offset=1).reshape(a.shape)
    u[...] = a
    return u


def lay_gv(g, name):
    """the (n,3) array g under the named layout (Addr of ScoreAssignLayout.tla); values are converted to the item type"""
    g = np.asarray(g)
    n = len(g)
    if name == "C":
        a = np.ascontiguousarray(g, float).copy()
    elif name == "F":
        a = np.array((g[:, 0], g[:, 1], g[:, 2]), float).T            # what the library's indexer_from_colfile hands over
    elif name == "rows2":
        big = np.full((2 * n, 3), np.nan)
        big[::2] = g
        a = big[::2]
    elif name == "cols2":
        big = np.full((n, 6), np.nan)
        big[:, ::2] = g
        a = big[:, ::2]
    elif name == "rev":
        a = np.ascontiguousarray(g[::-1], float).copy()[::-1]
    elif name == "f32":
        a = np.ascontiguousarray(g, np.float32).copy()
    elif name == "f32F":
        a = np.asfortranarray(np.asarray(g, np.float32)).copy(order="F")
    elif name == "i64":
        a = np.ascontiguousarray(np.rint(g)).astype(np.int64)
    elif name == "i32F":
        a = np.asfortranarray(np.rint(g).astype(np.int32)).copy(order="F")
    elif name == "be":
        a = np.ascontiguousarray(g, float).astype(">f8")
    elif name == "unaligned":
        a = _unaligned(np.ascontiguousarray(g, float))
    elif name == "readonly":
        a = np.ascontiguousarray(g, float).copy()
        a.flags.writeable = False
    else:
        raise common.MachineryError("unknown g-vector layout %r" % (name,))
    if a.shape != (n, 3):
        raise common.MachineryError("layout %s: shape %s" % (name, a.shape))
    return a


def lay_ubi(u, name):
    u = np.asarray(u, float)
    if name == "C":
        return np.ascontiguousarray(u).copy()
    if name == "F":
        return np.asfortranarray(u).copy(order="F")
    if name == "strided":
        big = np.full((6, 6), np.nan)
        big[::2, ::2] = u
        return big[::2, ::2]
    if name == "f32":
        return u.astype(np.float32)
    if name == "list":
        return [[float(x) for x in row] for row in u]
    if name == "i64":
        if not np.array_equal(u, np.rint(u)):
            raise common.MachineryError("integer UBI layout needs integer valued UBIs")
        return np.rint(u).astype(np.int64)
    raise common.MachineryError("unknown UBI layout %r" % (name,))


def logical(a):
    """the values an array stands for, as a fresh C ordered binary64 array (numpy only)"""
    return np.array(np.asarray(a).tolist(), float) if isinstance(a, list) else np.ascontiguousarray(np.asarray(a), float).copy()


def realise(gv, ubis, glay, ulay, scale):
    """(a, ul, gvl, ubl, sc): the arrays to hand over under (glay, ulay) and their logical binary64 values.  Integer
    g-vectors are the g-vectors times `scale` (a power of two), the UBIs divided by it; sc = the factor applied (1 or scale)"""
    sc = float(scale) if glay in INT_LAYOUTS else 1.0
    if sc != 1.0 and not np.isfinite(np.asarray(gv, float)).all():
        raise common.MachineryError("an integer item type cannot hold a non-finite g-vector")
    a = lay_gv(np.asarray(gv, float) * sc, glay)
    if ulay == "i64" and sc != 1.0:
        raise common.MachineryError("integer UBIs with integer g-vectors")
    ul = [lay_ubi(np.asarray(u, float) / sc, ulay) for u in ubis]
    return a, ul, logical(a), [logical(u) for u in ul], sc


def columns(a):
    """gx gy gz as the columns of the array itself (views, nothing copied)"""
    return {"gx": a[:, 0], "gy": a[:, 1], "gz": a[:, 2]}


def write_gv_file(path, gvl, cell, lattice, wavelength):
    """a g-vector file in the format indexer.readgvfile reads (written by the harness; repr() round trips binary64)"""
    ds = np.sqrt((gvl * gvl).sum(axis=1))
    with open(path, "w") as f:
        f.write("%r %r %r %r %r %r %s\n" % (tuple(float(x) for x in cell) + (lattice,)))
        f.write("# wavelength = %r\n# wedge = 0.0\n# ds h k l\n# xr yr zr xc yc ds eta omega\n" % (float(wavelength),))
        for k in range(len(gvl)):
            f.write("%r %r %r %r %r %r 10.0 %r\n" % (float(gvl[k, 0]), float(gvl[k, 1]), float(gvl[k, 2]), float(k % 1000), float(k // 1000),
                                                      float(ds[k]), float(k % 360)))


def build_indexer(mods, a, gvl, tol, build, prep, sc=1.0, cell_a=4.0, wavelength=0.3):
    """an indexer over the g-vectors `a` (logical values gvl) made the way `build` names, then prepared as `prep` names.
    The unit cell (cubic P, edge cell_a / sc) and the wavelength only serve assigntorings(); they have no part in the
    assignment"""
    indexing, unitcell, columnfile, parameters = mods["indexing"], mods["unitcell"], mods["columnfile"], mods["parameters"]
    ca, w = cell_a / sc, wavelength / sc
    cell = [ca, ca, ca, 90.0, 90.0, 90.0]
    kw = {"hkl_tol": tol, "ds_tol": 0.01 * sc}
    with quiet():
        if build == "indexer":
            ind = indexing.indexer(unitcell=unitcell.unitcell(cell, "P"), gv=a, wavelength=w, **kw)
        elif build == "set_gv":
            # made over OTHER g-vectors (the same ones in reverse order), then given these: what is assigned is .gv as it
            # is when the assignment is asked for, not a copy kept from the construction (.gvflat)
            ind = indexing.indexer(unitcell=unitcell.unitcell(cell, "P"), gv=gvl[::-1].copy(), wavelength=w, **kw)
            ind.gv = a
        elif build in ("from_colfile", "from_colfile_and_ucell"):
            cols = columns(a)
            cols["omega"] = np.arange(len(a), dtype=float) % 360.0
            cf = columnfile.colfile_from_dict(cols)
            cf.parameters = parameters.parameters(**{"cell__a": ca, "cell__b": ca, "cell__c": ca, "cell_alpha": 90.0, "cell_beta": 90.0,
                                                     "cell_gamma": 90.0, "cell_lattice_[P,A,B,C,I,F,R]": "P", "wavelength": w})
            if build == "from_colfile":
                ind = indexing.indexer_from_colfile(cf, **kw)
            else:
                ind = indexing.indexer_from_colfile_and_ucell(cf, unitcell.unitcell(cell, "P"), **kw)
        elif build == "readgvfile":
            path = os.path.join(common.scratch(), "c07_%d.gve" % os.getpid())
            write_gv_file(path, gvl, cell, "P", w)
            ind = indexing.indexer(**kw)
            ind.readgvfile(path, quiet=True)
            os.remove(path)
        else:
            raise common.MachineryError("unknown build %r" % (build,))
        if prep == "rings":
            ind.assigntorings()
        elif prep != "direct":
            raise common.MachineryError("unknown prep %r" % (prep,))
    if len(ind.gv) != len(gvl):
        raise RuntimeError("indexer built by %s holds %d of the %d peaks" % (build, len(ind.gv), len(gvl)))      # reported as a violation
    return ind


def lay_tag(lay):
    return "g-vectors %s, UBIs %s, %s, %s" % tuple(lay)


class omp(object):
    """run the OpenMP kernels with n threads, restore the previous setting afterwards"""

    def __init__(self, c, n):
        self.c, self.n = c, n

    def __enter__(self):
        self.old = self.c.cimaged11_omp_get_max_threads()
        self.c.cimaged11_omp_set_num_threads(int(self.n))
        return self

    def __exit__(self, *a):
        self.c.cimaged11_omp_set_num_threads(self.old)
        return False


@contextlib.contextmanager
def quiet():
    with contextlib.redirect_stdout(io.StringIO()), contextlib.redirect_stderr(io.StringIO()):
        yield


def row_label(r, G):
    return r if r <= G else r - G


def table_ubis():
    """UBI_r = 64 I except 1 at (r,r): err_r(gv) = frac(gv[r])^2 when the other components are multiples of 1/64"""
    out = []
    for g in range(3):
        u = np.eye(3) * 64.0
        u[g, g] = 1.0
        out.append(u)
    return out


def to_kernel(lab, labmap):
    """model label array (-1, 0 = foreign, 1..G) -> kernel values"""
    base, foreign = LABMAPS[labmap]
    lab = np.asarray(lab)
    return np.where(lab == -1, -1, np.where(lab == 0, foreign, lab - 1 + base)).astype(np.int32)


def to_model(lab, base, G):
    """kernel / route label array -> model numbering: -1 stays, base..base+G-1 -> 1..G, anything else -> 0"""
    lab = np.asarray(lab)
    li = np.rint(lab).astype(np.int64)
    return np.where(li == -1, -1, np.where((li >= base) & (li < base + G), li - base + 1, 0))


class Packed(object):
    """TLC behaviours with the same `order`, one column per (behaviour, peak)"""

    def __init__(self, cases, G):
        self.cases = cases
        self.G = G
        self.order = list(cases[0]["order"])
        self.R = len(cases[0]["err"])
        if self.R > 3:
            raise common.MachineryError("exact tables are realised with at most 3 rows")
        K = len(cases[0]["err"][0])
        self.K = K
        nc = len(self.order)
        n = len(cases)
        self.P = n * K
        self.case_of = np.repeat(np.arange(n), K)
        self.lev = np.array([[t["err"][r] for t in cases] for r in range(self.R)]).reshape(self.R, self.P)
        self.lab0 = np.array([t["lab0"] for t in cases]).reshape(self.P)
        self.dr0 = np.array([t["dr0"] for t in cases]).reshape(self.P)
        self.snap_lab = np.array([[t["snaps"][i]["labels"] for t in cases] for i in range(nc)]).reshape(nc, self.P)
        self.snap_dr = np.array([[t["snaps"][i]["drlv2"] for t in cases] for i in range(nc)]).reshape(nc, self.P)
        prev = np.vstack([self.dr0[None, :], self.snap_dr[:-1]])
        self.takes = self.snap_dr != prev                   # a take stores a strictly smaller error
        rets = np.array([t["rets"] for t in cases])         # (n, nc)
        if not np.array_equal(self.takes.reshape(nc, n, K).sum(axis=2).T, rets):
            raise common.MachineryError("ScoreAssign records: returned counts do not match the snapshots")
        for t in cases:
            if list(t["order"]) != self.order or t["snaps"][-1]["labels"] != t["labels"] or t["snaps"][-1]["drlv2"] != t["drlv2"]:
                raise common.MachineryError("ScoreAssign records: inconsistent record %r" % (t,))
        self.ubis = table_ubis()
        gv1 = np.zeros((self.P, 3))
        p = np.arange(self.P)
        for g in range(3):
            lev = self.lev[g] if g < self.R else np.full(self.P, 3)
            gv1[:, g] = (3 + (p % 5) + g) + LEVELV[lev]
        self.gv1 = gv1
        # non-finite peaks (ScoreAssignLayout.tla, nf): the finite components keep the table's values
        self.nfk = np.array([list(t.get("nf", ["fin"] * K)) for t in cases]).reshape(self.P)
        self.has_nf = bool((self.nfk != "fin").any())

    def tile(self, total):
        return np.arange(total) % self.P

    def arrays(self, idx, lay):
        """the tiled g-vectors and the table UBIs under the layout `lay` = (glay, ulay, build, prep): (a, ul, gvl, sc).
        The tables are exact in every item type: binary32 holds the dyadic values, integer g-vectors are 64 gv with UBI / 64"""
        g = self.gv1[idx].copy()
        if self.has_nf:
            j = np.nonzero(self.nfk[idx] != "fin")[0]
            put_nonfinite(g, j, self.nfk[idx][j])
        a, ul, gvl, ubl, sc = realise(g, self.ubis, lay[0], lay[1], 64)
        if not np.array_equal(gvl, g * sc, equal_nan=True) or any(not np.array_equal(x, u / sc) for x, u in zip(ubl, self.ubis)):
            raise common.MachineryError("layout %s does not hold the table's values" % (lay,))
        return a, ul, gvl, sc

    def drval(self, d, init):
        d = np.asarray(d)
        return np.where(d >= 3, init, LEVELV[np.minimum(d, 3)] ** 2)

    def kernel_label(self, r, labmap):
        return int(LABMAPS[labmap][0] + row_label(r, self.G) - 1)

    def describe(self, j, idx):
        """the behaviour behind tiled peak j"""
        return self.cases[int(self.case_of[idx[j]])]

    def run_raw(self, c, threads, total, labmap="one", inits=(1.0, 2.0), perturb=False, lay=PLAIN, scramble=False):
        """raw score_and_assign calls; returns [(what, case)].  scramble (self-test only): hand over the array flattened in
        memory order, what a layout-blind caller would do"""
        idx = self.tile(total)
        gv, ubis, _, _ = self.arrays(idx, lay)
        if scramble:
            gv = np.ravel(gv, order="K").reshape(-1, 3)
        ltag = "" if tuple(lay[:2]) == PLAIN[:2] else ", g-vectors %s, UBIs %s" % (lay[0], lay[1])
        probs = []
        for nt in threads:
            for init in inits:
                labels = to_kernel(self.lab0, labmap)[idx].copy()
                drlv2 = self.drval(self.dr0, init)[idx].copy()
                with omp(c, nt):
                    for i, r in enumerate(self.order):
                        n = c.score_and_assign(ubis[r - 1], gv, TOL, drlv2, labels, self.kernel_label(r, labmap))
                        elab = to_kernel(self.snap_lab[i], labmap)[idx]
                        if perturb:
                            elab = elab.copy()
                            elab[0] = elab[0] + 1
                        edr = self.drval(self.snap_dr[i], init)[idx]
                        en = int(self.takes[i][idx].sum())
                        tag = "score_and_assign (threads=%d, %d peaks, labels %s-based, call %d of %s%s)" % (
                            nt, total, labmap, i + 1, self.order, ltag)
                        bad = np.nonzero(labels != elab)[0]
                        if len(bad):
                            probs.append(("%s: labels differ from the specification at %d peaks, first %d: %d vs %d" % (
                                tag, len(bad), bad[0], labels[bad[0]], elab[bad[0]]), self.describe(bad[0], idx)))
                            break
                        bad = np.nonzero(~(drlv2 == edr))[0]                 # a NaN stored error equals nothing
                        if len(bad):
                            probs.append(("%s: stored errors differ from the specification at %d peaks, first %d: %r vs %r" % (
                                tag, len(bad), bad[0], drlv2[bad[0]], edr[bad[0]]), self.describe(bad[0], idx)))
                            break
                        if int(n) != en:
                            probs.append(("%s: returned count %d, specification %d" % (tag, n, en), self.cases[0]))
                            break
                if probs:
                    return probs
        return probs

    # ---- callers.  Every one is a fresh single pass (pass = 1 in the record); positions in the list are the labels
    def _final(self, idx):
        pos = {row_label(r, self.G): i for i, r in enumerate(self.order)}
        fl = self.snap_lab[-1]
        want = np.array([pos[l] if l > 0 else (-1 if l == -1 else -9) for l in fl])[idx]
        return want, self.snap_dr[-1][idx]

    def _judge_final(self, tag, got_lab, got_dr, init, idx):
        want, wdr = self._final(idx)
        probs = []
        if np.shape(got_lab) != want.shape or (got_dr is not None and np.shape(got_dr) != want.shape):
            return [("%s: %s labels / %s stored errors for %d peaks" % (tag, np.shape(got_lab), np.shape(got_dr), len(want)), self.cases[0])]
        bad = np.nonzero(np.asarray(got_lab) != want)[0]
        if len(bad):
            probs.append(("%s: labels differ from the specification at %d peaks, first %d: %s vs %s" % (
                tag, len(bad), bad[0], got_lab[bad[0]], want[bad[0]]), self.describe(bad[0], idx)))
            return probs
        if got_dr is not None:
            asg = wdr < 3
            edr = self.drval(wdr, init)
            bad = np.nonzero(asg & ~(np.asarray(got_dr) == edr))[0]             # NaN-proof: a NaN equals nothing
            if len(bad):
                probs.append(("%s: stored error is not the minimum at %d peaks, first %d: %r vs %r" % (
                    tag, len(bad), bad[0], got_dr[bad[0]], edr[bad[0]]), self.describe(bad[0], idx)))
            bad = np.nonzero(~asg & ~(np.asarray(got_dr) >= TOL * TOL))[0]      # NaN-proof: NaN >= x is false
            if len(bad):
                probs.append(("%s: a peak indexed by no grain stores an error that is not >= tol^2 (%r)" % (tag, got_dr[bad[0]]),
                              self.describe(bad[0], idx)))
        return probs

    def run_fight(self, c, mods, threads, total, lay=PLAIN):
        """indexer.fight_over_peaks: labels -1, drlv2 2, labels = list positions; -> .ga .gas .drlv2"""
        idx = self.tile(total)
        gv, ubis, gvl, sc = self.arrays(idx, lay)
        probs = []
        for nt in threads:
            ind = build_indexer(mods, gv, gvl, TOL, lay[2], lay[3], sc=sc, cell_a=0.25, wavelength=0.05)
            ind.ubis = [ubis[r - 1] for r in self.order]
            with omp(c, nt), quiet():
                ind.fight_over_peaks()
            tag = "indexer.fight_over_peaks (threads=%d, %d peaks, order %s, %s)" % (nt, total, self.order, lay_tag(lay))
            probs += self._judge_final(tag, ind.ga, ind.drlv2, 2.0, idx)
            want, _ = self._final(idx)
            hist = np.bincount(want[want >= 0], minlength=len(self.order)).tolist()
            if [int(x) for x in ind.gas] != hist:
                probs.append(("%s: gas %s is not the histogram of the labels %s" % (tag, [int(x) for x in ind.gas], hist), self.cases[0]))
            if probs:
                break
        return probs

    def run_nb(self, c, mods, threads, total, lay=PLAIN):
        """nbGui.nb_utils.assign_peaks_to_grains: labels ZERO filled, drlv2 1, labels = list positions; the columns gx gy gz
        are the columns of the laid out array itself"""
        idx = self.tile(total)
        gv, ubis, _, _ = self.arrays(idx, lay)
        probs = []
        for nt in threads:
            cf = mods["columnfile"].colfile_from_dict(columns(gv))
            grains = [mods["grain"].grain(ubis[r - 1]) for r in self.order]
            with omp(c, nt), quiet():
                mods["nb_utils"].assign_peaks_to_grains(grains, cf, TOL)
            tag = "nb_utils.assign_peaks_to_grains (threads=%d, %d peaks, order %s, g-vector columns %s, UBIs %s)" % (
                nt, total, self.order, lay[0], lay[1])
            probs += self._judge_final(tag, np.rint(np.asarray(cf.grain_id)).astype(int), np.asarray(cf.drlv2, float), 1.0, idx)
            if probs:
                break
        return probs

    def run_getind(self, c, mods, total, lay=PLAIN):
        """indexer.getind: labels 0, drlv2 1, label 1; work buffers supplied dirty, and the defaults (after assigntorings()
        the default buffers are sized by the peaks on rings: supplied buffers only, see observe_getind_default)"""
        idx = self.tile(total)
        gv, ubis, gvl, sc = self.arrays(idx, lay)
        want, _ = self._final(idx)
        ind = build_indexer(mods, gv, gvl, TOL, lay[2], lay[3], sc=sc, cell_a=0.25, wavelength=0.05)
        probs = []
        for how in (("dirty buffers", "default buffers") if lay[3] == "direct" else ("dirty buffers",)):
            kw = {}
            if how == "dirty buffers":
                kw = {"drlv2tmp": np.full(total, 1e-9), "labelstmp": np.full(total, 1, np.int32)}
            with quiet():
                m = ind.getind(ubis[self.order[0] - 1], **kw)
            bad = np.nonzero(np.asarray(m, bool) != (want == 0))[0] if np.shape(m) == (total,) else [0]
            if len(bad):
                probs.append(("indexer.getind (%s, %d peaks, %s): the mask is not the set of peaks the UBI indexes (%d peaks differ)" % (
                    how, total, lay_tag(lay), len(bad)), self.describe(bad[0], idx)))
        return probs

    def run_sino(self, c, mods, total, grain_label, lay=PLAIN):
        """GrainSinogram.prepare_peaks_from_2d: labels 0, drlv2 1, one grain under any label (0 included)"""
        idx = self.tile(total)
        gv, ubis, _, _ = self.arrays(idx, lay)
        want, _ = self._final(idx)
        cf = mods["columnfile"].colfile_from_dict(dict(
            columns(gv), dty=np.arange(total, dtype=float), omega=np.zeros(total), eta=np.zeros(total), sum_intensity=np.ones(total)))
        with quiet():
            gs = mods["sinogram"].GrainSinogram(mods["grain"].grain(ubis[self.order[0] - 1]), mods["dataset"].DataSet())
            gs.prepare_peaks_from_2d(cf, grain_label, hkltol=TOL)
        got = np.zeros(total, bool)
        got[np.rint(np.asarray(gs.cf_for_sino.dty)).astype(int)] = True
        bad = np.nonzero(got != (want == 0))[0]
        if len(bad):
            return [("GrainSinogram.prepare_peaks_from_2d(grain_label=%d, %d peaks, g-vector columns %s, UBI %s): the peaks kept are not the "
                     "peaks the grain indexes (%d differ, first %d kept=%s)" % (grain_label, total, lay[0], lay[1], len(bad), bad[0],
                                                                                 bool(got[bad[0]])), self.describe(bad[0], idx))]
        return []


def rec_lay(t):
    """the layout tags of an emitted behaviour (ScoreAssign.tla emits none: everything plain)"""
    return (t.get("glay", "C"), t.get("ulay", "C"), t.get("build", "indexer"), t.get("prep", "direct"))


def group_by_order(recs):
    """behaviours that share the presentation sequence and the layout tags"""
    out = {}
    for t in recs:
        out.setdefault((tuple(t["order"]), rec_lay(t)), []).append(t)
    return out


# =================================================================================================
# mode C: reference errors, ranks, trace records

def hkl_err(ubi, gv):
    """|UBI.g - nearest integer vector|^2 per peak: the harness's own computation"""
    with np.errstate(invalid="ignore", over="ignore"):
        h = np.asarray(gv, float) @ np.asarray(ubi, float).T
        d = h - np.rint(h)
        return (d * d).sum(axis=1)


def clearly_distinct(a, b):
    return abs(a - b) > 1e-6 * max(a, b) + 1e-15


class Ranked(object):
    """per-peak dense ranks of the reference errors among the rows that index the peak (E = R + 1 otherwise).
    A peak is *kept* only if binary64 cannot blur the order: every reference error is clearly away from its row's tol^2,
    and any two in-tolerance errors are clearly distinct, or belong to identical rows (bit-identical UBI and g-vectors:
    a true tie in the kernel too)."""

    def __init__(self, errs, tol2, ident):
        errs = np.asarray(errs, float)
        errs = np.where(np.isnan(errs), np.inf, errs)         # no hkl error below any tolerance: indexed by no grain
        R, K = errs.shape
        self.errs = errs
        self.R, self.K, self.E = R, K, R + 1
        t2 = np.broadcast_to(np.asarray(tol2, float).reshape(-1, 1), (R, K)) if np.ndim(tol2) else np.full((R, K), float(tol2))
        self.tol2 = t2
        inside = errs < t2
        with np.errstate(invalid="ignore"):
            keep = ~(np.abs(errs - t2) < 1e-6 * t2).any(axis=0)
        rank = np.full((R, K), self.E, int)
        nin = inside.sum(axis=0)
        one = np.nonzero(keep & (nin == 1))[0]
        rank[inside.argmax(axis=0)[one], one] = 0
        for k in np.nonzero(keep & (nin >= 2))[0]:
            ins = np.nonzero(inside[:, k])[0]
            v = errs[ins, k]
            o = np.argsort(v, kind="stable")
            r = 0
            rank[ins[o[0]], k] = 0
            for a in range(1, len(o)):
                g, h = ins[o[a - 1]], ins[o[a]]
                if ident[g][h] and v[o[a]] == v[o[a - 1]]:
                    pass
                elif clearly_distinct(v[o[a]], v[o[a - 1]]):
                    r += 1
                else:
                    keep[k] = False
                    break
                rank[h, k] = r
        rank[:, ~keep] = self.E
        self.rank, self.keep = rank, keep
        self.contested = bool((nin >= 2).any())

    def dr_rank(self, d, init=None, floor=None):
        """rank of stored errors d[k]: E for the initial value (exactly `init`, or anything >= floor when the caller owns
        the buffer), the rank of the reference error it equals, -2 when it equals none"""
        d = np.asarray(d, float)
        with np.errstate(invalid="ignore"):                    # a NaN stored error equals no reference error: rank -2
            m = (self.rank < self.E) & (np.abs(self.errs - d[None, :]) <= 1e-9 * np.maximum(self.errs, d[None, :]) + 1e-20)
        first = m.argmax(axis=0)
        out = np.where(m.any(axis=0), self.rank[first, np.arange(self.K)], -2)
        if init is not None:
            out = np.where(d == init, self.E, out)
        if floor is not None:
            out = np.where(d >= floor, self.E, out)
        return out

    def expected(self, rows):
        """independent final answer of a fresh single pass over `rows` (0-based): per kept peak the set of rows attaining the
        minimum in-tolerance rank (-1 = none), as a boolean (len(rows), K) matrix, and `none`"""
        rk = self.rank[rows]
        mn = rk.min(axis=0)
        none = mn >= self.E
        return (rk == mn[None, :]) & ~none[None, :], none


def block_traces(cid, rk, G, rowlabel, lab0, events, hist=None, init=None, floor=None, block=BLOCK):
    """ndjson records (blocks of `block` kept peaks) of one recorded run.
    events: {"kind": "call", "row": 1-based row, "n": returned count or -1, "labels": model-numbered array or None,
             "dr": stored errors or None} / {"kind": "reset"}.  returns (records, all_kept)"""
    kept = np.nonzero(rk.keep)[0]
    evr = []
    for ev in events:
        if ev["kind"] == "call" and ev.get("labels") is not None:
            evr.append((ev, np.asarray(ev["labels"]), rk.dr_rank(ev["dr"], init=init, floor=floor)))
        else:
            evr.append((ev, None, None))
    single = len(kept) <= block and len(kept) == rk.K
    recs = []
    for b0 in range(0, len(kept), block):
        idx = kept[b0:b0 + block]
        evs = []
        for ev, lab, dr in evr:
            if ev["kind"] == "reset":
                evs.append({"kind": "reset", "row": 0, "n": -1, "obs": 0, "labels": [], "dr": []})
            elif lab is None:
                evs.append({"kind": "call", "row": int(ev["row"]), "n": -1, "obs": 0, "labels": [], "dr": []})
            else:
                evs.append({"kind": "call", "row": int(ev["row"]), "n": int(ev["n"]) if single else -1, "obs": 1,
                            "labels": lab[idx].tolist(), "dr": dr[idx].tolist()})
        recs.append({"id": "%s/%d" % (cid, b0 // block), "G": int(G), "R": int(rk.R), "K": len(idx), "E": int(rk.E),
                     "rowlabel": [int(x) for x in rowlabel], "err": [rk.rank[r, idx].tolist() for r in range(rk.R)],
                     "lab0": np.asarray(lab0)[idx].tolist(), "ev": evs,
                     "hist": [int(x) for x in hist] if (hist is not None and single) else []})
    return recs, bool(rk.keep.all())


def ident_matrix(ubis, trans=None):
    n = len(ubis)
    return [[bool(np.array_equal(ubis[g], ubis[h]) and (trans is None or np.array_equal(trans[g], trans[h]))) for h in range(n)]
            for g in range(n)]


# =================================================================================================
# mode C: raw-kernel cases (the first version's generator, kept) and histories

def random_rotation(rng):
    return c09_sim.random_rotation(rng)


def make_case(rng, G, K, big=False, simple=False):
    a = 3.0 + rng.random() * 3
    B0i = np.diag([a, a * (1 + 0.2 * rng.random()), a * (1 + 0.4 * rng.random())])
    ubis = []
    for g in range(G):
        kind = rng.integers(0, 4) if not simple else 3
        if g > 0 and kind == 0:          # twin-like: small rotation of an earlier grain
            ang = rng.random() * 0.02
            R = np.array([[np.cos(ang), -np.sin(ang), 0], [np.sin(ang), np.cos(ang), 0], [0, 0, 1]])
            ubis.append(ubis[rng.integers(0, g)] @ R.T)
        elif g > 0 and kind == 1:        # overlapping lattice: 90 degree permutation of an earlier grain
            P = np.array([[0, 1, 0], [-1, 0, 0], [0, 0, 1]], float)
            ubis.append(P @ ubis[rng.integers(0, g)])
        else:
            ubis.append(B0i @ random_rotation(rng).T)
    gv = []
    for k in range(K):
        if rng.random() < 0.15:
            gv.append(rng.normal(size=3) * 0.5)            # stray
        else:
            g = rng.integers(0, G)
            h = rng.integers(-4, 5, size=3).astype(float)
            noise = rng.normal(size=3) * [0.0, 0.01, 0.05, 0.15][rng.integers(0, 4)]
            gv.append(np.linalg.inv(ubis[g]) @ (h + noise))
    tol = [0.9, 0.5, 0.25, 0.1, 0.05, 0.02][rng.integers(0, 6)] if not big else 0.1      # 0.9: every grain indexes every peak
    return ubis, np.ascontiguousarray(np.array(gv)), tol


def record(c, rows, gv, seq, nt, labels, drlv2):
    """present rows[r] = (ubi, tol, kernel label) for r in seq (1-based) on the given buffers (modified in place);
    returns [(row, n, labels copy, drlv2 copy)]"""
    ev = []
    with omp(c, nt):
        for r in seq:
            ubi, tol, lab = rows[r - 1]
            n = c.score_and_assign(ubi, gv, tol, drlv2, labels, lab)
            ev.append((r, int(n), labels.copy(), drlv2.copy()))
    return ev


def log_key(ev):
    return [(r, n, lab.tobytes(), dr.tobytes()) for (r, n, lab, dr) in ev]


# =================================================================================================
# geometry cases for refinegrains.assignlabels

def make_geo_case(rng, mods, kpar, G, family, lattice="F", nstray=60):
    """grains (ubi, translation) with peaks forward-simulated by the library's inverse and re-validated by
    c09_sim.forward.  family: 'distinct' (every grain its own position), 'same' (one shared position), 'shared' (a pool
    of 2..3 positions handed out so that two grains at one position have a grain at another position between them:
    A(t1) B(t2) C(t1) ...).  Every second grain is a sub-grain (5..20 mrad) of an earlier one: contested peaks."""
    transform, unitcell_mod = mods["transform"], mods["unitcell"]
    pars = c09_sim.make_pars(rng, kpar)
    pars["cell_lattice_[P,A,B,C,I,F,R]"] = lattice
    uc = unitcell_mod.unitcell([pars["cell__a"], pars["cell__b"], pars["cell__c"], 90.0, 90.0, 90.0], lattice)
    hkls = np.array([h for (_, h) in uc.gethkls(0.85)], float)
    if family == "same":
        pool = rng.uniform(-400, 400, size=(1, 3))
        which = [0] * G
    elif family == "shared":
        npool = 2 if G <= 3 else 3
        pool = rng.uniform(-400, 400, size=(npool, 3))
        which = [[0, 1, 0, 2, 1, 2, 0, 1][i % 8] % npool for i in range(G)]
    else:
        pool = rng.uniform(-400, 400, size=(G, 3))
        which = list(range(G))
    det = {k: pars[k] for k in ("y_center", "y_size", "tilt_y", "z_center", "z_size", "tilt_z", "tilt_x", "distance",
                                "o11", "o12", "o21", "o22")}
    grains, rows = [], []
    for g in range(G):
        if g % 2 == 1:
            ubi = grains[rng.integers(0, g)][0] @ c09_sim.small_rotation(rng, rng.uniform(0.005, 0.02)).T
        else:
            ubi = np.linalg.inv(random_rotation(rng) @ uc.B)
        t = pool[which[g]].copy()
        gv = np.linalg.inv(ubi) @ hkls.T
        tth, (eta1, eta2), (om1, om2) = transform.uncompute_g_vectors(gv, pars["wavelength"], pars["wedge"], pars["chi"])
        for eta, om in ((eta1, om1), (eta2, om2)):
            ok = np.isfinite(om) & np.isfinite(eta) & (tth > 0)
            fc, sc = transform.compute_xyz_from_tth_eta(tth, eta, om, t_x=t[0], t_y=t[1], t_z=t[2], wedge=pars["wedge"],
                                                        chi=pars["chi"], **det)
            sel = ok & (fc > 20) & (fc < 2030) & (sc > 20) & (sc < 2030)
            for i in np.nonzero(sel)[0]:
                rows.append((sc[i], fc[i], om[i] * pars["omegasign"]))
        grains.append((ubi, t))
    tab = np.array(rows)
    noise = rng.choice([0.0, 0.05, 0.3], size=len(tab))[:, None] * rng.normal(size=(len(tab), 2))
    tab[:, :2] += noise
    stray = np.array([rng.uniform(100, 1900, nstray), rng.uniform(100, 1900, nstray), rng.uniform(-180, 180, nstray)]).T
    tab = np.vstack([tab, stray])
    tab = tab[rng.permutation(len(tab))]
    return {"pars": pars, "grains": grains, "sc": tab[:, 0].copy(), "fc": tab[:, 1].copy(), "omega": tab[:, 2].copy(),
            "family": family, "which": which}


def geo_errs(sc, fc, omega, grains, pars):
    """reference errors (G, K): g-vectors of every peak for each grain's own position (c09_sim.forward), own numpy"""
    with np.errstate(invalid="ignore", over="ignore", divide="ignore"):       # non-finite detector columns give NaN errors (-> +inf in Ranked)
        return np.array([c09_sim.hkl_errors(sc, fc, omega, ubi, t, pars) for (ubi, t) in grains])


def run_assignlabels(c, mods, case, grains, order, tol, nt, stale=None, lay=None):
    """refinegrains.assignlabels on in-memory data: grainnames (= labels) presented in `order` (0-based labels).
    stale: (labels, drlv2) columns the scan already carries.  lay = (layout of the (n,3) array whose columns are sc fc omega -
    value preserving layouts only -, UBI layout; translations as lists); None: separate contiguous columns, C ordered UBIs.
    returns labels, drlv2 columns and npks per label"""
    n = len(case["sc"])
    PP = dict(case["pars"])
    PP["t_x"], PP["t_y"], PP["t_z"] = 11.0, -13.0, 17.0          # not any grain's position: the grains' own must be used
    with quiet():
        rg = mods["refinegrains"].refinegrains(tolerance=tol, OmFloat=False)
    rg.parameterobj = mods["parameters"].parameters(**PP)
    lab0, dr0 = (np.full(n, -1.0), np.ones(n)) if stale is None else stale
    sc_, fc_, om_ = case["sc"].copy(), case["fc"].copy(), case["omega"].copy()
    if lay is not None:
        if lay[0] not in SAME_VALUE_LAYOUTS:
            raise common.MachineryError("detector columns need a value preserving layout")
        tab = lay_gv(np.array((sc_, fc_, om_)).T, lay[0])
        if not np.array_equal(logical(tab), np.array((sc_, fc_, om_)).T, equal_nan=True):
            raise common.MachineryError("layout %s changed the detector columns" % lay[0])
        sc_, fc_, om_ = tab[:, 0], tab[:, 1], tab[:, 2]
    cf = mods["columnfile"].colfile_from_dict({"sc": sc_, "fc": fc_, "omega": om_,
                                               "drlv2": np.array(dr0), "labels": np.array(lab0)})           # copies, item type kept
    rg.scannames, rg.scantitles, rg.scandata = ["scan"], {"scan": list(cf.titles)}, {"scan": cf}
    rg.grainnames = [int(g) for g in order]
    rg.grains = {}
    for gi, (ubi, t) in enumerate(grains):
        if lay is None:
            gr = mods["grain"].grain(ubi.copy(), translation=np.array(t, float).copy())
        else:
            gr = mods["grain"].grain(lay_ubi(ubi, lay[1]), translation=[float(x) for x in t])
        gr.name = "%d:scan" % gi
        rg.grains[(gi, "scan")] = gr
    with omp(c, nt), quiet(), np.errstate(invalid="ignore", divide="ignore"):
        rg.assignlabels(quiet=True)
    npks = [int(rg.grains[(gi, "scan")].npks) for gi in range(len(grains))]
    return np.asarray(cf.labels).copy(), np.asarray(cf.drlv2, float).copy(), npks, rg


def run_assignlabels_files(c, mods, case, grains, order, tol, nt, with_translations=True):
    """the same through the files a user has: parameter file, grain file (in presentation order), peak file.
    Without #translation lines every grain sits at the parameter file's t_x, t_y, t_z.
    returns labels, drlv2, npks and the (ubi, t) / columns the object actually holds (text round trip)"""
    d = common.scratch()
    tag = "c07_%d" % os.getpid()
    par, ubif, flt = [os.path.join(d, tag + e) for e in (".par", ".map", ".flt")]
    PP = dict(case["pars"])
    if not with_translations:
        PP["t_x"], PP["t_y"], PP["t_z"] = [float(x) for x in grains[0][1]]
    with open(par, "w") as f:
        for k in sorted(PP):
            f.write("%s %r\n" % (k, PP[k]))
    with quiet():
        cf = mods["columnfile"].colfile_from_dict({"sc": case["sc"].copy(), "fc": case["fc"].copy(), "omega": case["omega"].copy(),
                                                   "sum_intensity": np.ones(len(case["sc"])), "Number_of_pixels": np.full(len(case["sc"]), 10.0)})
        cf.writefile(flt)
        gl = [mods["grain"].grain(grains[g][0], translation=(grains[g][1] if with_translations else None)) for g in order]
        mods["grain"].write_grain_file(ubif, gl)
        rg = mods["refinegrains"].refinegrains(tolerance=tol, OmFloat=False)
        rg.loadparameters(par)
        rg.readubis(ubif)
        rg.loadfiltered(flt)
        rg.generate_grains()
    with omp(c, nt), quiet(), np.errstate(invalid="ignore", divide="ignore"):
        rg.assignlabels(quiet=True)
    sd = rg.scandata[flt]
    held = [(np.array(rg.grains[(g, flt)].ubi, float), np.array(rg.grains[(g, flt)].translation, float)) for g in rg.grainnames]
    npks = [int(rg.grains[(g, flt)].npks) for g in rg.grainnames]
    cols = {"sc": np.asarray(sd.sc, float).copy(), "fc": np.asarray(sd.fc, float).copy(), "omega": np.asarray(sd.omega, float).copy()}
    return np.asarray(sd.labels).copy(), np.asarray(sd.drlv2, float).copy(), npks, held, cols, dict(rg.parameterobj.parameters)

"""C10 helper: replay of the object HISTORIES of specs/Strain.tla (machine HSpec) on ONE real object, and
the harness-side families that are covariant with the model (arbitrary phase-id dictionaries bound to exact
reference cells, map shapes, lifted histories on the deformations of machine Spec).

A history is the JSON record TLC prints (kind "grain" or "map").  The law is the same for both kinds:
every answer equals the exact tensor of the state the object is in NOW.

kind "grain"  one ImageD11.grain.grain object g, one reference grain object g0, at most one
              finite_strain.DeformationGradientTensor object D at a time:
    new / set_ubi     g = grain(ubi) / g.set_ubi(ubi)           ubi = L0.U0b^T.S.R^T
    newref / reorient g0 = grain(k.L0.ur^T) / g0.set_ubi(k.L0.ur^T)      (another orientation and / or cell scale; a
                      new reference grain may come with a ref_unitcell of its own: field rd)
    decorate who k    g.ref_unitcell | g0.ref_unitcell = unitcell(cell of k.L0)   (also at `new`: field gd)
    touch who what    read g|g0 .unitcell .B .U .UB .mt .rmt / set .name .translation .npks
    ask               g.eps_grain(_matrix) | g.eps_sample(_matrix) (reference = cell of k.L0 | g0, m)
    dgt               D = DeformationGradientTensor(g | ubi, g0 | ub0)       (ub0 = B0/k for a cell reference)
    dask / dread      D.finite_strain_ref|lab(m) / D.F, D.U, D.VRS
  expectation: seen from the reference k.L0 the grain has the stretch S/k (c10_exact.rescale):
  F = R.(S/k).Q, Q = U0b (cell) or U0b.ur^T (grain): ref = Q^T.E(S/k).Q, lab = R.E(S/k).R^T from
  python Fractions (the `ans` TLC printed is cross-checked exactly when present).  What the objects CARRY
  (ref_unitcell, names, translations, filled caches) is no argument of a request and occurs nowhere in it.
  A LIFTED history keeps the operations and replaces the states by deformations of machine Spec that share one
  reference (triclinic cells, Pythagorean orientations, twentieths), the reference orientations by other
  exact rotations and the cell scales 11/10, 9/10 by 501/500, 499/500 (a refined d-zero next to the nominal
  cell): the model is covariant in them (the law only says "current state, reference given").

kind "map"    one ImageD11.sinograms.tensor_map.TensorMap object:
    newmap            TensorMap(maps={UBI, phase_ids [, dzero_unitcell if dzx]}, phases=dict in the insertion order `pd`)
    read f            T.eps_sample | eps_crystal | eps_hydro | eps_devia
    assign way ver    T.UBI = x | T["UBI"] = x | T.add_map("UBI", x)
    setdz way         T["dzero_unitcell"] = x | T.add_map("dzero_unitcell", x)    (only while no strain map is cached)
    touch what        read T.U | B | UB | mt | unitcell | euler | dzero_unitcell
  reference of a voxel: the cell of its phase id in the dictionary, unless an explicit dzero_unitcell map was
  handed over (`dzs` of a read = "maps").  In a history with an explicit map the dictionary holds NOMINAL cells
  (the true cell of the group times k_g, k_g = 501/500, 499/500, 1003/1000 or 1) and the explicit map the true
  cells: a read relative to the explicit map expects the tensors of S, one relative to the dictionary those of
  S/k_g.
  binding: version v of the UBI map = another exact deformation in every voxel (same reference cell per
  voxel: phase_ids never change); cell group i gets the phase id pd[i]; masked voxels (id -1, NaN UBI), orphan
  voxels (valid UBI, id without reference: NaN strains expected), voxels whose UBI is NaN in one version only.
  A value is a TAG (see Strain.tla); `exp` is the property's answer, `asis` the answer of the code as it is
  (clear_cache keeps the eps maps).  got != value(exp) is a failure; it belongs to the stale-map class when
  asis != exp and got == value(asis) (the value is the tensor of a previous UBI map).
"""
from __future__ import print_function
import io, contextlib, json, random
from fractions import Fraction as Fr
import numpy as np
import common
import c10_exact as X

MAPNAME = {"s": "eps_sample", "c": "eps_crystal", "h": "eps_hydro", "d": "eps_devia"}


def sc(a):
    """Fractions matrix -> [numerators, den]"""
    import math
    den = 1
    for row in a:
        for x in row:
            den = den * x.denominator // math.gcd(den, x.denominator)
    return [[[int(x * den) for x in row] for row in a], den]


def frk(k):
    """scale <<n, d>> of the specification -> Fraction"""
    return Fr(int(k[0]), int(k[1]))


def dec(k):
    """decoration field of the specification: [] (nothing carried) or a scale"""
    return None if not k else frk(k)


LIFT_SCALE = {Fr(11, 10): Fr(501, 500), Fr(9, 10): Fr(499, 500)}
GTOUCH = ("unitcell", "B", "U", "UB", "mt", "rmt", "name", "translation", "npks")
MTOUCH = ("U", "B", "UB", "mt", "unitcell", "euler", "dzero_unitcell")
GFAILS = ("short_cell", "none_ref", "degenerate_cell", "bad_m", "singular_ref", "flat_ubi")
MFAILS = ("phase_ids", "pidshape", "phase_entry", "ubi")


# ------------------------------------------------------------------------------------------------
# kind "grain"

class GrainHistory(object):
    """concrete form of one grain history: exact states + operations"""

    def __init__(self, rec, check_ans=True):
        h = rec["hist"]
        if h[0]["op"] != "new":
            raise common.MachineryError("grain history does not start with `new`")
        self.rec = rec
        self.L0 = [[Fr(int(x)) for x in row] for row in h[0]["L0"]]
        self.U0b = X.fm(h[0]["U0"])
        self.ops = []
        cur = None
        ur = self.U0b
        rs = Fr(1)
        snap = None
        for o in h:
            op = o["op"]
            if op in ("new", "set_ubi"):
                cur = X.ExactState(self.L0, self.U0b, X.fm(o["S"]), X.fm(o["R"]))
                self.ops.append((op, cur, dec(o.get("gd")) if op == "new" else None,
                                 dec(o.get("rd")) if op == "new" else None))
            elif op in ("newref", "reorient"):
                ur = X.fm(o["U0r"])
                rs = frk(o.get("k", [1, 1]))
                if X.fconj(ur, X.fI()) != X.fI() or X.fdet(ur) != 1 or rs <= 0:
                    raise X.OracleMismatch("reference orientation is not a rotation")
                if op == "reorient" and o.get("rd"):
                    raise X.OracleMismatch("set_ubi on the reference grain cannot attach a ref_unitcell")
                self.ops.append((op, ur, rs, dec(o.get("rd"))))
            elif op == "decorate":
                if o["who"] not in ("g", "g0"):
                    raise common.MachineryError("decorate: unknown object %r" % (o["who"],))
                self.ops.append((op, o["who"], frk(o["k"])))
            elif op == "touch":
                if o["who"] not in ("g", "g0") or o["what"] not in GTOUCH:
                    raise common.MachineryError("touch: unknown object / attribute %r" % (o,))
                self.ops.append((op, o["who"], o["what"]))
            elif op == "ask":
                k = frk(o.get("k", [1, 1]))
                if o["rk"] == "grain" and k != rs:
                    raise X.OracleMismatch("a grain reference is asked with another scale than the reference grain has")
                Q = self.U0b if o["rk"] == "cell" else X.fmm(self.U0b, X.ft(ur))
                stk = X.rescale(cur, k)
                self._check(o, stk, Q, check_ans)
                self.ops.append((op, int(o["m2"]), o["frame"], o["rk"], stk, Q, k, dec(o.get("gd")), dec(o.get("rd"))))
            elif op == "dgt":
                k = frk(o.get("k", [1, 1]))
                if o["rk"] == "grain" and k != rs:
                    raise X.OracleMismatch("a grain reference is handed over with another scale than the reference grain has")
                Q = self.U0b if o["rk"] == "cell" else X.fmm(self.U0b, X.ft(ur))
                if o["rk"] == "cell" and o["bk"] != "array":
                    raise common.MachineryError("a cell reference cannot be handed over as a grain")
                stk = X.rescale(cur, k)
                snap = (stk, Q)
                if check_ans and "F" in o and X.fm(o["F"]) != X.fmm(stk.F, Q):
                    raise X.OracleMismatch("spec and harness disagree on F = R.(S/k).Q")
                self.ops.append((op, o["ak"], o["bk"], o["rk"], stk, Q, ur, k, dec(o.get("gd")), dec(o.get("rd"))))
            elif op == "dask":
                if snap is None:
                    raise common.MachineryError("dask without a DeformationGradientTensor")
                self._check(o, snap[0], snap[1], check_ans)
                self.ops.append((op, int(o["m2"]), o["frame"], snap[0], snap[1]))
            elif op in ("askfail", "dgtfail", "daskfail"):
                if o["bad"] not in GFAILS or (op == "daskfail" and snap is None):
                    raise common.MachineryError("unknown / impossible failing request %r" % (o,))
                self.ops.append((op, o["bad"], o.get("frame", "ref")))
            elif op == "dread":
                if snap is None:
                    raise common.MachineryError("dread without a DeformationGradientTensor")
                if check_ans and "val" in o:
                    s_, Q = snap
                    want = {"F": [X.fmm(s_.F, Q)], "U": [X.fmm(s_.R, Q)],
                            "VRS": [s_.V, X.fmm(s_.R, Q), X.fconjT(Q, s_.S)]}[o["field"]]
                    if [X.fm(v) for v in o["val"]] != want:
                        raise X.OracleMismatch("spec and harness disagree on DeformationGradientTensor.%s" % o["field"])
                self.ops.append((op, o["field"], snap[0], snap[1]))
            else:
                raise common.MachineryError("unknown operation %r in a grain history" % (op,))

    @staticmethod
    def _check(o, st, Q, check_ans):
        """TLC's exact answer must be the harness's exact answer (two independent derivations)"""
        if not check_ans or "ans" not in o:
            return
        if "Q" in o and X.fm(o["Q"]) != Q:
            raise X.OracleMismatch("spec and harness disagree on Q")
        m2 = int(o["m2"])
        if m2 == 0 or int(o["ans"][1]) == 0:
            return
        mine = X.fconjT(Q, st.E(m2)) if o["frame"] == "ref" else st.Elab(m2)
        if X.fm(o["ans"]) != mine:
            raise X.OracleMismatch("spec and harness disagree on the answer of %s" % json.dumps(o)[:200])


def expected_answer(st, Q, m2, frame):
    m = 0.5 * m2
    return st.ref(m, Q) if frame == "ref" else st.lab(m)


def lift_grain_history(rec, group, rots, rng):
    """the same operations on other exact states: `group` = deformations of machine Spec sharing one reference
    <<L0, U0>>, `rots` = pool of exact rotations for the reference grain object"""
    h = rec["hist"]
    base = group[0]
    smap, umap = {}, {json.dumps(h[0]["U0"]): base.U0}
    pool = list(range(len(group)))
    rng.shuffle(pool)
    rpool = list(rots)
    rng.shuffle(rpool)
    out = []

    def lk(v):
        if not v:
            return v
        f = LIFT_SCALE.get(frk(v), frk(v))
        return [f.numerator, f.denominator]
    for o in h:
        o2 = dict((k, v) for k, v in o.items() if k not in ("ans", "Q", "F", "val"))
        for fld in ("k", "gd", "rd"):
            if fld in o2:
                o2[fld] = lk(o2[fld])
        if o["op"] in ("new", "set_ubi"):
            key = json.dumps([o["S"], o["R"]])
            if key not in smap:
                if not pool:
                    return None
                smap[key] = group[pool.pop()]
            st = smap[key]
            o2["S"], o2["R"] = sc(st.S), sc(st.R)
            if o["op"] == "new":
                o2["L0"] = [[int(x) for x in row] for row in st.L0]
                o2["U0"] = sc(st.U0)
        elif o["op"] in ("newref", "reorient"):
            key = json.dumps(o["U0r"])
            if key not in umap:
                cand = [q for q in rpool if all(q != u for u in umap.values())]
                if not cand:
                    return None
                umap[key] = cand[0]
            o2["U0r"] = sc(umap[key])
        out.append(o2)
    return {"kind": "grain", "hist": out, "lifted": True}


class GrainReplayer(object):
    def __init__(self, mods, perturb=None, floor=1e-12):
        self.grain, self.fs, self.unitcell = mods["grain"], mods["fs"], mods["unitcell"]
        self.perturb = perturb
        self.failures = []        # (route, history index, op index, detail)
        self.ncmp = 0
        self.floor = floor
        self.stats = {"histories": 0, "lifted_histories": 0, "asks": 0, "asks_m0": 0,
                      "ask_again_after_set_ubi_same_reference": 0,
                      "ask_after_reference_reoriented_in_place": 0, "ask_after_new_reference_object": 0,
                      "dgt_objects": 0, "dgt_mixed_argument_kinds": 0, "dgt_asks": 0,
                      "dgt_objects_asked_for_2_or_more_m": 0, "dgt_asked_after_set_ubi_of_its_grain": 0,
                      "dgt_reads": 0,
                      # the decorate dimension: what the objects carry is no argument of a request
                      "decorations": 0, "touches": 0, "grains_decorated_at_construction": 0,
                      "ask_cell_while_grain_carries_another_cell": 0,
                      "ask_cell_while_grain_carries_another_cell_attached_before_first_request": 0,
                      "ask_cell_while_grain_carries_another_cell_attached_after_a_request": 0,
                      "ask_cell_while_grain_carries_the_same_cell": 0,
                      "ask_cell_while_reference_grain_object_carries_a_cell": 0,
                      "ask_grain_while_grain_carries_a_cell": 0,
                      "ask_grain_while_reference_grain_carries_another_cell": 0,
                      "ask_grain_while_reference_grain_carries_its_own_cell": 0,
                      "dgt_from_grain_objects_carrying_another_cell": 0,
                      "ask_reference_grain_of_another_cell_scale": 0,
                      "ask_cell_of_another_scale_than_the_previous_request": 0,
                      "ask_near_cell_half_percent": 0,
                      # requests that raise leave no trace
                      "failed_requests": 0, "failed_requests_that_raised": 0,
                      "failed_eps_request_then_answered_request": 0,
                      "failed_dgt_request_then_answered_dgt_request": 0}

    def cmp(self, route, hi, oi, got, exp, extra):
        self.ncmp += 1
        scale = np.abs(exp).max()
        fl = self.floor if scale > 0 else 3e-14
        if not X.close(got, exp, floor=fl):
            d = dict(extra)
            d.update({"got": np.asarray(got, float).tolist(), "expected": np.asarray(exp, float).tolist()})
            self.failures.append((route, hi, oi, d))
            return False
        return True

    def replay(self, hi, H):
        """an exception of the code under test is a failure of that history, not of the harness"""
        try:
            self._replay(hi, H)
        except common.MachineryError:
            raise
        except Exception as e:
            import traceback
            self.failures.append(("history: grain / DeformationGradientTensor raised %s" % type(e).__name__, hi, 0,
                                  {"got": traceback.format_exc()[-1500:], "expected": "no exception"}))

    def _replay(self, hi, H):
        G = self.grain.grain
        g = g0 = D = None
        dinfo = None
        L0 = H.L0
        cellB = X.f2np(X.finv(L0))
        asked_refs = {}          # reference key -> number of set_ubi seen when it was last asked
        nset = 0
        nreq = 0                 # strain requests made so far on g (eps_* and DeformationGradientTensor(g, ..))
        gdec_at = None           # nreq when the ref_unitcell now carried by g was attached
        lastk = None
        reoriented = False
        newobj = False
        ndec = [0]
        failed_g = failed_d = False     # a request on g / on D (or its constructor) raised since the last answer
        st_ = self.stats
        st_["histories"] += 1
        st_["lifted_histories"] += bool(H.rec.get("lifted"))

        def cell_of(k):
            return list(X.rescale(H.ops[0][1], k).cell)

        def carried(k):
            """the unitcell object an indexer / dataset loader attaches: the phase's cell, lattice symmetry or space
            group number, a name"""
            ndec[0] += 1
            sym = ["P", 1, "F", 225, "I"][(hi + ndec[0]) % 5]
            return self.unitcell.unitcell(cell_of(k), symmetry=sym, name="phase%d" % ((hi + ndec[0]) % 3))

        for oi, o in enumerate(H.ops):
            op = o[0]
            if op == "new":
                st = o[1]
                g = G(st.ubi_f.copy(), translation=[1.0, -2.0, 3.0])
                g0 = G(X.f2np(X.fmm(L0, X.ft(H.U0b))))
                if o[2] is not None:
                    g.ref_unitcell = carried(o[2])
                    gdec_at = 0
                    st_["grains_decorated_at_construction"] += 1
                    st_["decorations"] += 1
                if o[3] is not None:
                    g0.ref_unitcell = carried(o[3])
                    st_["decorations"] += 1
            elif op == "set_ubi":
                g.set_ubi(o[1].ubi_f.copy())
                nset += 1
            elif op == "newref":
                g0 = G(X.f2np(X.fscale(X.fmm(L0, X.ft(o[1])), o[2])))
                if o[3] is not None:
                    g0.ref_unitcell = carried(o[3])
                    st_["decorations"] += 1
                newobj, reoriented = True, False
            elif op == "reorient":
                g0.set_ubi(X.f2np(X.fscale(X.fmm(L0, X.ft(o[1])), o[2])))
                reoriented = True
            elif op == "decorate":
                _, who, k = o
                (g if who == "g" else g0).ref_unitcell = carried(k)
                if who == "g":
                    gdec_at = nreq
                st_["decorations"] += 1
            elif op == "touch":
                _, who, what = o
                t = g if who == "g" else g0
                if what == "name":
                    t.name = "phase%d:%d" % (hi % 3, oi)
                elif what == "translation":
                    t.translation = np.array([0.1 * oi, -2.0, 3.5])
                elif what == "npks":
                    t.npks = 17 + oi
                else:
                    getattr(t, what)
                st_["touches"] += 1
            elif op == "ask":
                _, m2, frame, rk, st, Q, k, gd, rd = o
                m = 0.5 * m2
                exp = expected_answer(st, Q, m2, frame)
                if self.perturb == "hist_state" and nset:
                    exp = expected_answer(X.rescale(H.ops[0][1], k), Q, m2, frame)     # the state before set_ubi
                if self.perturb == "hist_carried" and rk == "cell" and gd is not None and gd != k:
                    # what a request answered from the CARRIED cell would give
                    exp = expected_answer(X.rescale(st, gd / k), Q, m2, frame)
                if rk == "cell":
                    cell = cell_of(k)
                    refarg = [cell, np.array(cell), tuple(cell)][oi % 3]
                else:
                    refarg = g0
                use6 = (oi % 2 == 1)
                if frame == "ref":
                    fn, name = (g.eps_grain, "grain.eps_grain") if use6 else (g.eps_grain_matrix, "grain.eps_grain_matrix")
                else:
                    fn, name = (g.eps_sample, "grain.eps_sample") if use6 else (g.eps_sample_matrix, "grain.eps_sample_matrix")
                got = fn(refarg, m)
                if use6:
                    exp = X.e6(exp)
                self.cmp("history: %s(%s)" % (name, rk), hi, oi, got, exp,
                         {"m": m, "frame": frame, "rk": rk, "reference_scale": str(k),
                          "grain_carries": None if gd is None else str(gd),
                          "reference_grain_carries": None if rd is None else str(rd)})
                st_["asks"] += 1
                st_["asks_m0"] += (m2 == 0)
                st_["failed_eps_request_then_answered_request"] += failed_g
                failed_g = False
                key = (rk, str(Q), k)              # same reference matrix B as an earlier question
                if key in asked_refs and asked_refs[key] < nset:
                    st_["ask_again_after_set_ubi_same_reference"] += 1
                asked_refs[key] = nset
                if rk == "grain":
                    st_["ask_after_reference_reoriented_in_place"] += reoriented
                    st_["ask_after_new_reference_object"] += newobj
                    reoriented = newobj = False
                    st_["ask_grain_while_grain_carries_a_cell"] += (gd is not None)
                    st_["ask_grain_while_reference_grain_carries_another_cell"] += (rd is not None and rd != k)
                    st_["ask_grain_while_reference_grain_carries_its_own_cell"] += (rd is not None and rd == k)
                    st_["ask_reference_grain_of_another_cell_scale"] += (k != 1)
                else:
                    if gd is not None and gd != k:
                        st_["ask_cell_while_grain_carries_another_cell"] += 1
                        if gdec_at == 0:
                            st_["ask_cell_while_grain_carries_another_cell_attached_before_first_request"] += 1
                        else:
                            st_["ask_cell_while_grain_carries_another_cell_attached_after_a_request"] += 1
                    st_["ask_cell_while_grain_carries_the_same_cell"] += (gd is not None and gd == k)
                    st_["ask_cell_while_reference_grain_object_carries_a_cell"] += (rd is not None)
                    st_["ask_cell_of_another_scale_than_the_previous_request"] += (lastk is not None and lastk != k)
                    st_["ask_near_cell_half_percent"] += (k != 1 and abs(k - 1) < Fr(1, 200))
                lastk = k
                nreq += 1
            elif op == "dgt":
                _, ak, bk, rk, st, Q, ur, k, gd, rd = o
                a = g if ak == "grain" else g.ubi.copy()
                if bk == "grain":
                    b = g0
                elif rk == "grain":
                    b = X.f2np(X.fscale(X.fmm(ur, X.finv(L0)), 1 / k))
                else:
                    b = cellB / float(k)
                D = self.fs.DeformationGradientTensor(a, b)
                dinfo = {"ms": set(), "nset": nset, "counted": False, "late": False}
                st_["dgt_objects"] += 1
                st_["dgt_mixed_argument_kinds"] += (ak != bk)
                st_["dgt_from_grain_objects_carrying_another_cell"] += bool(
                    (ak == "grain" and gd is not None and gd != k) or (bk == "grain" and rd is not None and rd != k))
                nreq += (ak == "grain")
            elif op == "dask":
                _, m2, frame, st, Q = o
                m = 0.5 * m2
                exp = expected_answer(st, Q, m2, frame)
                got = D.finite_strain_ref(m) if frame == "ref" else D.finite_strain_lab(m)
                self.cmp("history: DeformationGradientTensor.finite_strain_%s" % frame, hi, oi, got, exp,
                         {"m": m, "frame": frame})
                st_["dgt_asks"] += 1
                st_["failed_dgt_request_then_answered_dgt_request"] += failed_d
                failed_d = False
                dinfo["ms"].add(m2)
                if len(dinfo["ms"]) >= 2 and not dinfo["counted"]:
                    dinfo["counted"] = True
                    st_["dgt_objects_asked_for_2_or_more_m"] += 1
                if nset > dinfo["nset"] and not dinfo["late"]:
                    dinfo["late"] = True
                    st_["dgt_asked_after_set_ubi_of_its_grain"] += 1
            elif op in ("askfail", "dgtfail", "daskfail"):
                # a request that cannot be answered: it should raise, and whatever it does it may leave no trace on
                # g, g0 and the DeformationGradientTensor object D that exists (judged by the answers that follow)
                _, bad, frame = o
                st_["failed_requests"] += 1
                cell = cell_of(Fr(1))
                m = 0.5
                if bad == "short_cell":
                    refarg = cell[:5]
                elif bad == "none_ref":
                    refarg = None
                elif bad == "degenerate_cell":
                    refarg = [[0.0] + cell[1:], cell[:3] + [0.0, 90.0, 90.0]][oi % 2]
                elif bad == "singular_ref":
                    refarg = G([np.zeros((3, 3)), np.array([[1.0, 0, 0], [2.0, 0, 0], [0, 0, 1.0]])][oi % 2])
                    m = -0.5
                else:
                    refarg = [cell, g0][oi % 2]
                    m = [0.3, 0.75, -0.2][oi % 3]
                try:
                    if op == "askfail":
                        fn = [g.eps_grain_matrix, g.eps_grain][oi % 2] if frame == "ref" else \
                             [g.eps_sample_matrix, g.eps_sample][oi % 2]
                        fn(refarg, m)
                        failed_g = True
                    elif op == "daskfail":
                        (D.finite_strain_ref if frame == "ref" else D.finite_strain_lab)(m)
                        failed_d = True
                    else:
                        failed_d = failed_g = True
                        if bad == "flat_ubi":
                            self.fs.DeformationGradientTensor(g.ubi.ravel(), cellB)
                        elif bad == "none_ref":
                            self.fs.DeformationGradientTensor(g, None)
                        else:
                            tmp = self.fs.DeformationGradientTensor([g, g.ubi.copy()][oi % 2], np.diag([1.0, 1.0, 0.0]))
                            tmp.finite_strain_ref(-1)      # F^T.F has an exactly zero row: matrix_power(.., -1) raises
                except common.MachineryError:
                    raise
                except Exception:
                    st_["failed_requests_that_raised"] += 1
                    if op == "askfail":
                        failed_g = True
                    elif op == "daskfail":
                        failed_d = True
            elif op == "dread":
                _, field, st, Q = o
                Qf = X.f2np(Q)
                RQ = np.dot(st.Rf, Qf)
                st_["dgt_reads"] += 1
                if field == "F":
                    self.cmp("history: DeformationGradientTensor.F", hi, oi, D.F, np.dot(st.Ff, Qf), {})
                elif field == "U":
                    self.cmp("history: DeformationGradientTensor.U", hi, oi, D.U, RQ, {})
                else:
                    V, Rr, Ss = D.VRS
                    self.cmp("history: DeformationGradientTensor.VRS[V]", hi, oi, V, st.Vf, {})
                    self.cmp("history: DeformationGradientTensor.VRS[R]", hi, oi, Rr, RQ, {})
                    self.cmp("history: DeformationGradientTensor.VRS[S]", hi, oi, Ss,
                             np.dot(np.dot(Qf.T, st.Sf), Qf), {})


# ------------------------------------------------------------------------------------------------
# kind "map"

def tag_versions(t):
    if t[0] == "ubi":
        return {int(t[2])}
    if t[0] == "rot":
        return {int(t[3])} | tag_versions(t[2])
    if t[0] == "hyd":
        return tag_versions(t[1])
    if t[0] == "dev":
        return tag_versions(t[1]) | tag_versions(t[2])
    raise common.MachineryError("unknown tag %r" % (t,))


class MapBinding(object):
    """concrete maps for one map history: which exact deformation sits in which voxel in which version"""

    def __init__(self, rec, groups, rng, nver, bind=None):
        h = rec["hist"]
        if h[0]["op"] != "newmap":
            raise common.MachineryError("map history does not start with `newmap`")
        self.rec = rec
        self.pd = [int(p) for p in h[0]["pd"]]
        dz = [int(x) for x in h[0]["dz"]]
        self.nver = nver
        # an explicit dzero_unitcell map is handed over somewhere in this history: the phases dictionary then holds
        # nominal cells (true cell of the group times a scale), the explicit map the true ones
        self.explicit = bool(h[0].get("dzx")) or any(o["op"] == "setdz" for o in h)
        self.scales = [Fr(1)] * len(self.pd)
        if bind is not None:
            self._from_json(bind)
            return
        ng = len(self.pd)
        for i, p in enumerate(self.pd):                      # the specification's table must say: by KEY
            if dz[p + 1] != i + 1:
                raise X.OracleMismatch("dz table of the specification does not map id %d to group %d" % (p, i + 1))
        orphans = [p for p in range(0, 7) if dz[p + 1] == 0 and p not in self.pd]
        if dz[0] != 0 or not orphans:
            raise X.OracleMismatch("dz table: id -1 must have no reference and some id must be free")
        chosen = rng.sample(range(len(groups)), ng)          # ng distinct reference cells
        vox = []                                             # (pid, group index or None, [state or None per version])
        for gi, ci in enumerate(chosen):
            grp = groups[ci]
            nv = rng.choice([2, 3, 4])
            for _ in range(nv):
                sts = rng.sample(grp, nver)                  # another deformation in every version
                vox.append([self.pd[gi], gi, list(sts)])
        # a voxel of group 0 whose UBI is NaN in one version only
        sts = rng.sample(groups[chosen[0]], nver)
        sts[rng.randrange(nver)] = None
        vox.append([self.pd[0], 0, sts])
        # orphan voxels: valid UBI, phase id without reference
        for _ in range(2):
            vox.append([rng.choice(orphans), None, list(rng.sample(groups[rng.choice(chosen)], nver))])
        # masked voxels
        for _ in range(rng.choice([1, 2, 3])):
            vox.append([-1, None, [None] * nver])
        rng.shuffle(vox)
        nz = rng.choice([1, 2, 3])
        per = -(-len(vox) // nz)
        nx = rng.choice([2, 3, 4])
        ny = -(-per // nx)
        while len(vox) < nz * ny * nx:
            vox.append([-1, None, [None] * nver])
        self.shape = (nz, ny, nx)
        self.vox = vox
        self.cells = [list(groups[ci][0].cell) for ci in chosen]
        if self.explicit:
            pool = [Fr(501, 500), Fr(499, 500), Fr(1003, 1000), Fr(1)]
            self.scales = [pool[0] if gi == 0 else rng.choice(pool) for gi in range(ng)]
            rng.shuffle(self.scales)
            if all(k == 1 for k in self.scales):
                self.scales[0] = pool[1]

    def to_json(self):
        return {"shape": list(self.shape), "cells": self.cells, "nver": self.nver,
                "scales": [[k.numerator, k.denominator] for k in self.scales],
                "voxels": [{"pid": p, "group": g, "states": [None if s is None else s.describe() for s in sts]}
                           for p, g, sts in self.vox]}

    def _from_json(self, b):
        self.shape = tuple(b["shape"])
        self.cells = b["cells"]
        self.nver = b["nver"]
        self.scales = [frk(k) for k in b.get("scales", [[1, 1]] * len(self.cells))]
        self.vox = [[v["pid"], v["group"], [None if s is None else X.ExactState.from_description(s) for s in v["states"]]]
                    for v in b["voxels"]]

    # ---- concrete arrays
    def ubi(self, v):
        n = len(self.vox)
        a = np.full((n, 3, 3), np.nan)
        for j, (_, _, sts) in enumerate(self.vox):
            if sts[v - 1] is not None:
                a[j] = sts[v - 1].ubi_f
        return a.reshape(self.shape + (3, 3))

    def phase_ids(self):
        return np.array([p for p, _, _ in self.vox], int).reshape(self.shape)

    def nominal_cell(self, gi):
        """cell of group gi in the phases dictionary: lengths times the group's scale, angles kept"""
        c = list(self.cells[gi])
        k = float(self.scales[gi])
        return [c[0] * k, c[1] * k, c[2] * k, c[3], c[4], c[5]]

    def dzmap(self):
        """the explicit dzero_unitcell map: the TRUE reference cell of every voxel that has one"""
        a = np.full((len(self.vox), 6), np.nan)
        for j, (_, g, _) in enumerate(self.vox):
            if g is not None:
                a[j] = self.cells[g]
        return a.reshape(self.shape + (6,))

    def base(self, frame, v, dzs="maps"):
        """dzs = "maps": relative to the true cells (the explicit map, or a dictionary that holds them);
        "phases": relative to the cells of the dictionary (S/k_g where the group's nominal cell is scaled)"""
        n = len(self.vox)
        a = np.full((n, 3, 3), np.nan)
        for j, (_, g, sts) in enumerate(self.vox):
            s = sts[v - 1]
            if s is not None and g is not None:
                if dzs == "phases":
                    s = X.rescale(s, self.scales[g])
                a[j] = s.lab(0.5) if frame == "s" else s.ref(0.5, s.U0)
        return a

    def Umap(self, v):
        n = len(self.vox)
        a = np.full((n, 3, 3), np.nan)
        for j, (_, _, sts) in enumerate(self.vox):
            if sts[v - 1] is not None:
                a[j] = sts[v - 1].map_U()
        return a

    def value(self, t, dzs="maps"):
        """numeric map (n,3,3) of a tag, the reference cells taken from `dzs`"""
        if t[0] == "ubi":
            return self.base(t[1], int(t[2]), dzs)
        if t[0] == "rot":
            inner = self.value(t[2], dzs)
            U = self.Umap(int(t[3]))
            if t[1] == "s":
                return np.einsum("nij,njk,nlk->nil", U, inner, U)
            return np.einsum("nji,njk,nkl->nil", U, inner, U)
        if t[0] == "hyd":
            inner = self.value(t[1], dzs)
            tr = (inner[:, 0, 0] + inner[:, 1, 1] + inner[:, 2, 2]) / 3.0
            return tr[:, None, None] * np.eye(3)
        if t[0] == "dev":
            return self.value(t[1], dzs) - self.value(t[2], dzs)
        raise common.MachineryError("unknown tag %r" % (t,))


class MapReplayer(object):
    def __init__(self, mods, perturb=None):
        self.tm, self.unitcell = mods["tm"], mods["unitcell"]
        self.perturb = perturb
        self.failures = []       # (route, history index, op index, detail)   detail["stale"] = True for the class
        self.ncmp = 0
        self.stats = {"histories": 0, "reads": 0, "reads_after_assignment_of_a_cached_map": 0,
                      "reads_derived_by_rotation": 0, "assign_setter": 0, "assign_item": 0, "assign_add_map": 0,
                      "dict_not_0_to_n_in_order": 0, "dict_multi_phase": 0, "nz_above_1": 0,
                      "orphan_voxels": 0, "masked_voxels": 0, "voxels_nan_in_one_version": 0, "voxels": 0,
                      # the decorate dimension: the phases dictionary next to an explicitly given reference map
                      "touches": 0, "explicit_dzero_map_at_construction": 0, "explicit_dzero_map_set_by_item": 0,
                      "explicit_dzero_map_set_by_add_map": 0, "explicit_dzero_map_set_after_a_read": 0,
                      "reads_relative_to_explicit_map_with_other_cells_in_phases": 0,
                      "reads_relative_to_nominal_phase_cells": 0,
                      # requests that raise leave no trace
                      "failed_reads": 0, "failed_reads_that_raised": 0, "failed_reads_no_phase_ids_map": 0,
                      "failed_reads_phase_ids_of_another_shape": 0, "failed_reads_phases_entry_no_unitcell": 0,
                      "failed_reads_malformed_UBI": 0, "failed_reads_of_dzero_unitcell_itself": 0,
                      "read_answered_after_failed_read_and_repair": 0,
                      "read_answered_after_failed_read_and_explicit_dzero_map": 0,
                      "read_answered_after_failed_read_and_proper_UBI": 0,
                      "read_answered_on_incomplete_map_with_explicit_dzero_map": 0}

    def replay(self, hi, B):
        """an exception of the code under test is a failure of that history, not of the harness"""
        try:
            self._replay(hi, B)
        except common.MachineryError:
            raise
        except Exception as e:
            import traceback
            self.failures.append(("history: TensorMap raised %s" % type(e).__name__, hi, 0,
                                  {"got": traceback.format_exc()[-1500:], "expected": "no exception"}))

    def _replay(self, hi, B):
        tm = self.tm
        h = B.rec["hist"]
        phases = {}
        for i, p in enumerate(B.pd):                         # insertion order = pd
            phases[p] = self.unitcell.unitcell(B.nominal_cell(i), symmetry=["P", 1, "F", 194][(hi + i) % 4],
                                               name="phase%d" % p)
        miss = h[0].get("miss", "none")
        if miss != "none" and miss not in MFAILS[:3]:
            raise common.MachineryError("newmap: unknown way of being incomplete %r" % (miss,))
        maps0 = {"UBI": B.ubi(1), "phase_ids": B.phase_ids()}
        if miss in ("phase_ids", "pidshape"):          # what TensorMap.from_ubis / from_pbpmap hand out
            del maps0["phase_ids"]
        hsel = sum(B.pd) + len(h) + B.shape[1]     # choices below: a function of the history (the same in --replay)
        badid = B.pd[hsel % len(B.pd)]
        if miss == "phase_entry":                      # the six parameters / nothing instead of the unitcell object
            good_entry = phases[badid]
            phases[badid] = [list(B.nominal_cell(B.pd.index(badid))), None][(hsel // 2) % 2]
        if h[0].get("dzx"):
            maps0["dzero_unitcell"] = B.dzmap()
        failed = None                                  # cause of the last read that raised, until a read is answered
        fixed = None                                   # how the map was completed after it
        nominal = any(k != 1 for k in B.scales)
        nreads = 0
        st = self.stats
        st["explicit_dzero_map_at_construction"] += bool(h[0].get("dzx"))
        st["histories"] += 1
        st["dict_not_0_to_n_in_order"] += (B.pd != list(range(len(B.pd))))
        st["dict_multi_phase"] += (len(B.pd) > 1)
        st["nz_above_1"] += (B.shape[0] > 1)
        st["voxels"] += len(B.vox)
        st["orphan_voxels"] += sum(1 for p, g, s in B.vox if g is None and p >= 0)
        st["masked_voxels"] += sum(1 for p, g, s in B.vox if p < 0)
        st["voxels_nan_in_one_version"] += sum(1 for p, g, s in B.vox if p >= 0 and any(x is None for x in s))
        sink = io.StringIO()
        with contextlib.redirect_stdout(sink):
            T = tm.TensorMap(maps=maps0, phases=phases)
            if miss == "pidshape":
                T.add_map("phase_ids", [B.phase_ids().ravel(), B.phase_ids().reshape(-1, B.shape[2])][hsel % 2])
            for oi, o in enumerate(h):
                if o["op"] == "newmap":
                    continue
                if o["op"] == "readfail":
                    # the model says this request cannot be answered: it should raise; whatever it does, it may leave
                    # no trace on the map (judged by the reads that follow)
                    st["failed_reads"] += 1
                    nm = "dzero_unitcell" if o["f"] == "z" else MAPNAME[o["f"]]
                    try:
                        getattr(T, nm)
                    except common.MachineryError:
                        raise
                    except Exception:
                        st["failed_reads_that_raised"] += 1
                        st[{"phase_ids": "failed_reads_no_phase_ids_map", "pidshape": "failed_reads_phase_ids_of_another_shape",
                            "phase_entry": "failed_reads_phases_entry_no_unitcell",
                            "ubi": "failed_reads_malformed_UBI"}[o["why"]]] += 1
                        st["failed_reads_of_dzero_unitcell_itself"] += (o["f"] == "z")
                        failed, fixed = o["why"], None
                    continue
                if o["op"] == "repair":
                    if o["what"] != miss:
                        raise common.MachineryError("repair of %r on a map that lacks %r" % (o["what"], miss))
                    if miss == "phase_entry":
                        T.phases[badid] = good_entry
                    elif o["way"] == "item":
                        T["phase_ids"] = B.phase_ids()
                    else:
                        T.add_map("phase_ids", B.phase_ids())
                    if failed not in (None, "ubi"):
                        fixed = "repair"
                    continue
                if o["op"] == "setdz":
                    if o["way"] == "item":
                        T["dzero_unitcell"] = B.dzmap()
                    else:
                        T.add_map("dzero_unitcell", B.dzmap())
                    st["explicit_dzero_map_set_by_" + o["way"]] += 1
                    st["explicit_dzero_map_set_after_a_read"] += (nreads > 0)
                    if failed not in (None, "ubi"):
                        fixed = "setdz"
                    continue
                if o["op"] == "touch":
                    if o["what"] not in MTOUCH:
                        raise common.MachineryError("touch: unknown map %r" % (o["what"],))
                    getattr(T, o["what"])
                    st["touches"] += 1
                    continue
                if o["op"] == "assign":
                    if int(o["ver"]) == 0:             # a malformed UBI map: flattened matrices / nothing
                        arr = [B.ubi(1).reshape(B.shape + (9,)), None][(hsel + oi) % 2]
                    else:
                        arr = B.ubi(int(o["ver"]))
                        if failed == "ubi":
                            fixed = "ubi"
                    if o["way"] == "setter":
                        T.UBI = arr
                    elif o["way"] == "item":
                        T["UBI"] = arr
                    else:
                        T.add_map("UBI", arr)
                    st["assign_" + o["way"]] += 1
                    continue
                name = MAPNAME[o["f"]]
                got = np.array(getattr(T, name), float)
                dzs = o.get("dzs", "maps")
                nreads += 1
                if failed is not None and fixed is not None:
                    st[{"repair": "read_answered_after_failed_read_and_repair",
                        "setdz": "read_answered_after_failed_read_and_explicit_dzero_map",
                        "ubi": "read_answered_after_failed_read_and_proper_UBI"}[fixed]] += 1
                failed = fixed = None
                st["read_answered_on_incomplete_map_with_explicit_dzero_map"] += (
                    dzs == "maps" and miss != "none" and not any(x["op"] == "repair" for x in h[:oi]))
                st["reads_relative_to_explicit_map_with_other_cells_in_phases"] += (dzs == "maps" and nominal)
                st["reads_relative_to_nominal_phase_cells"] += (dzs == "phases" and nominal)
                self.ncmp += 1
                st["reads"] += 1
                st["reads_after_assignment_of_a_cached_map"] += (o["asis"] != o["exp"])
                st["reads_derived_by_rotation"] += ("rot" in json.dumps(o["exp"]))
                if got.shape != B.shape + (3, 3):
                    self.failures.append(("history: TensorMap.%s" % name, hi, oi,
                                          {"got_shape": list(got.shape), "expected_shape": list(B.shape + (3, 3))}))
                    continue
                got = got.reshape(-1, 3, 3)
                exp = B.value(o["exp"], dzs)
                if self.perturb == "map_version" and int(o["cur"]) > 1:
                    exp = B.value(json.loads(json.dumps(o["exp"]).replace(str(o["cur"]), "1")), dzs)
                if self.perturb == "map_reference" and nominal:
                    exp = B.value(o["exp"], "phases" if dzs == "maps" else "maps")
                bad = [j for j in range(len(B.vox)) if not X.close(got[j], exp[j])]
                if not bad:
                    continue
                stale = False
                if o["asis"] != o["exp"]:
                    old = B.value(o["asis"], dzs)
                    stale = all(X.close(got[j], old[j]) for j in range(len(B.vox)))
                j = bad[0]
                self.failures.append(("history: TensorMap.%s" % name, hi, oi,
                                      {"stale": stale, "voxel": j, "failing_voxels": len(bad), "pid": B.vox[j][0],
                                       "reference_from": dzs,
                                       "exp_tag": o["exp"], "asis_tag": o["asis"],
                                       "got": got[j].tolist(), "expected": exp[j].tolist()}))


# ------------------------------------------------------------------------------------------------
# parsing of what TLC printed

def parse_histories(printed):
    recs, bad = [], 0
    for line in printed:
        try:
            r = json.loads(line)
            assert r["kind"] in ("grain", "map") and isinstance(r["hist"], list) and r["hist"]
            for o in r["hist"]:
                o.pop("pre", None)          # the state a failing request found: checked by TLC (HNoTrace / MapNoTrace)
            recs.append(r)
        except Exception:
            bad += 1
    return recs, bad


def thin_siblings(recs, rng, keep=2):
    """`tlc -simulate` checks the invariants on EVERY successor of the last step, so each behaviour arrives with all
    its siblings (same prefix, another last operation): keep `keep` of them per prefix"""
    by = {}
    for r in recs:
        by.setdefault(json.dumps(r["hist"][:-1], sort_keys=True), []).append(r)
    out = []
    for k in sorted(by):
        sib = by[k]
        uniq = {}
        for r in sib:
            uniq[json.dumps(r["hist"][-1], sort_keys=True)] = r
        sib = [uniq[x] for x in sorted(uniq)]
        rng.shuffle(sib)
        # a final question is worth more than a final change of state
        sib.sort(key=lambda r: r["hist"][-1]["op"] not in ("ask", "dask", "dread", "read"))
        out += sib[:keep]
    return out

"""X06 helper: drive the real ImageD11.sinograms.dataset.DataSet through a behaviour of specs/DataSetState.tla,
project its state the way the specification does, compare, and judge the laws directly on the real object.

Symbolic paths: the specification uses "raw", "ana/...", "alt/x", "custom.h5"; every behaviour runs in its own
root directory and a real path  <root>/<p>  is projected back to  <p>.
"""
import os, sys, io, json, shutil, contextlib, warnings, copy
import numpy as np
import h5py
import common
import x06_synth as S

DEN = 144       # must equal DEN of specs/DataSetState.tla (checked against the "@@N" line it prints)
NONE = "<None>"
UNSET = "<unset>"
N12 = ["pksfile", "col4dfile", "col3dfile", "col2dfile", "grainsfile", "sparsefile", "icolfile", "pbpfile",
       "refmanfile", "refpeaksfile", "refmapfile", "refoutfile"]
STRKEYS = ["dataroot", "analysisroot", "sample", "dset", "dsname", "datapath", "analysispath", "masterfile",
           "limapath", "parfile", "pksfile", "col4dfile", "col3dfile", "col2dfile", "grainsfile", "sparsefile",
           "icolfile", "pbpfile"]
NDSEQ = ["omega", "omega_for_bins", "dty", "nnz", "frames_per_file", "frames_per_scan", "monitor",
         "ybinedges", "ybincens", "obinedges", "obincens"]
MOTORLIKE = {"omega", "omega_for_bins", "dty", "ybinedges", "ybincens", "obinedges", "obincens", "ofb"}
DT = {"float64": "f8", "int64": "i8", "int32": "i4", "uint32": "u4"}
_MISSING = object()


@contextlib.contextmanager
def quiet():
    with contextlib.redirect_stdout(io.StringIO()), contextlib.redirect_stderr(io.StringIO()), \
            warnings.catch_warnings():
        warnings.simplefilter("ignore")
        yield


class Mods(object):
    def __init__(self):
        with quiet():
            from ImageD11.sinograms import dataset, assemble_label, properties
        self.D = dataset
        self.AL = assemble_label
        self.P = properties


class World(object):
    """the read-only part shared by all behaviours: bliss master + Lima files and the segmentation files"""

    def __init__(self, M, table, peaks):
        self.M = M
        self.table = table                       # name -> list of scan descriptors (from the specification)
        self.peaks = peaks                       # version -> list of peaks
        self.base = os.path.join(common.scratch(), "x06world")
        self.n = 0
        os.makedirs(self.base, exist_ok=True)
        self.raw = os.path.join(self.base, "raw")
        self.seg = {}
        for name, scans in table.items():
            d = self.descr(name)
            S.make_raw(self.raw, d)
            segroot = os.path.join(self.base, "seg", name)
            S.make_segmented(segroot, d)
            self.seg[name] = os.path.join(segroot, "sparsefiles")

    def descr(self, name):
        return {"name": name, "sample": "smp", "dset": name, "scans": self.table[name]}

    def new_root(self, d):
        self.n += 1
        root = os.path.join(self.base, "b%d_%06d" % (os.getpid(), self.n))
        ap = os.path.join(root, "ana", "smp", "smp_" + d)
        os.makedirs(ap)
        os.symlink(self.raw, os.path.join(root, "raw"))
        os.symlink(self.seg[d], os.path.join(ap, "sparsefiles"))
        return root

    def peak_version(self, pt):
        props = np.asarray(pt.pk_props).T.tolist()
        gl = np.asarray(pt.glabel).tolist()
        for v, pk in self.peaks.items():
            if [list(p[:5]) for p in pk] == props and [p[5] for p in pk] == gl:
                return int(v)
        return -1


def num8(x):
    """value -> numerator over DEN (int) or a marker string when it is not a multiple of 1/DEN"""
    y = float(x) * DEN
    r = round(y)
    if y != y or abs(y - r) > 1e-9 * max(1.0, abs(y)):
        return "inexact:%r" % float(x)
    return int(r)


def proj_array(a, motor):
    if a is _MISSING:
        return {"k": "unset", "sh": [], "v": [], "dt": ""}
    if a is None:
        return {"k": "none", "sh": [], "v": [], "dt": ""}
    if isinstance(a, np.ndarray):
        flat = a.ravel().tolist()
        v = [num8(x) for x in flat] if motor else [int(x) if float(x) == int(x) else "frac:%r" % x for x in flat]
        return {"k": "arr", "sh": [int(i) for i in a.shape], "v": v, "dt": DT.get(a.dtype.name, a.dtype.name)}
    if isinstance(a, (list, tuple)):
        if all(isinstance(x, (int, np.integer)) for x in a):
            return {"k": "plist", "sh": [len(a)], "v": [int(x) for x in a], "dt": ""}
        rows = []
        tail_none = False
        for x in a:
            if x is None:
                tail_none = True
                continue
            if tail_none:
                return {"k": "list?", "sh": [len(a)], "v": repr(a), "dt": ""}
            rows.append([num8(y) if motor else int(y) for y in np.asarray(x).ravel().tolist()])
        return {"k": "list", "sh": [len(a)], "v": rows, "dt": ""}
    return {"k": "other:" + type(a).__name__, "sh": [], "v": [], "dt": ""}


def proj_num(x):
    if x is _MISSING:
        return {"k": "unset", "t": "", "x": 0.0}
    if x is None:
        return {"k": "none", "t": "", "x": 0.0}
    t = "np" if isinstance(x, np.floating) else "py" if type(x) is float else "int" if type(x) is int else type(x).__name__
    return {"k": "num", "t": t, "x": float(x)}


class Real(object):
    """one behaviour on the real code"""

    def __init__(self, W, d, form):
        self.W, self.M, self.d, self.form = W, W.M, d, form
        self.root = W.new_root(d)
        self.y = None
        self.start_problem = None
        with quiet():
            self.x = self.new_obj()
            if form != "fresh":
                self.attempt(lambda: self.x.import_all())
                if form == "saved":
                    if self.attempt(lambda: self.x.save()):
                        self.attempt(lambda: self.x.load())
                elif form == "cached":
                    pk = W.peaks["1"]
                    S.make_peaks(self.x.pksfile, [tuple(p) for p in pk], 1 + max(p[5] for p in pk))
                    self.attempt(lambda: self.x.pk2d)
                    self.attempt(lambda: self.x.pk4d)
                elif form == "sparse":
                    if self.attempt(lambda: self.M.AL.harvest_masterfile(self.x, self.x.sparsefile)):
                        self.x = self.new_obj()
                        self.attempt(lambda: self.x.import_from_sparse(self.x.sparsefile))

    @staticmethod
    def attempt(f):
        try:
            f()
            return True
        except Exception:
            return False

    def cleanup(self):
        shutil.rmtree(self.root, True)

    def new_obj(self):
        return self.M.D.DataSet(dataroot=self.real("raw"), analysisroot=self.real("ana"), sample="smp", dset=self.d)

    # -- symbolic <-> real paths
    def real(self, p):
        if p in (NONE, None):
            return None
        if p.startswith("/") or p.startswith("."):
            return p
        return os.path.join(self.root, p)

    def sym(self, p):
        if p is _MISSING:
            return UNSET
        if p is None:
            return NONE
        if not isinstance(p, str):
            return "other:%r" % (p,)
        if p.startswith(self.root + "/"):
            return p[len(self.root) + 1:]
        return p

    # -- operations
    def apply(self, op):
        with quiet():
            try:
                self._apply(op)
                return "ok"
            except common.MachineryError:
                raise
            except Exception as e:
                return type(e).__name__

    def _apply(self, op):
        k, x, D = op[0], self.x, self.M.D

        def scans_arg(a):
            return None if list(a) == ["None"] else list(a)
        if k == "update_paths":
            x.update_paths(force=bool(op[1]))
        elif k == "set_name":
            setattr(x, op[1], self.real(op[2]))
        elif k == "import_scans":
            x.import_scans(scans=scans_arg(op[1]))
        elif k == "import_imagefiles":
            x.import_imagefiles()
        elif k == "import_motors_from_master":
            x.import_motors_from_master()
        elif k == "guess_shape":
            x.guess_shape()
        elif k == "guessbins":
            x.guessbins()
        elif k == "import_nnz":
            x.import_nnz()
        elif k == "import_all":
            x.import_all(scans=scans_arg(op[1]))
        elif k == "harvest":
            self.M.AL.harvest_masterfile(x, x.sparsefile)
        elif k == "import_from_sparse":
            sh = tuple(op[2]) if len(op[2]) else None
            x.import_from_sparse(x.sparsefile, scans=scans_arg(op[1]), shape=sh)
        elif k == "correct_bins_for_half_scan":
            x.correct_bins_for_half_scan(op[1])
        elif k == "set_monitor":
            x.set_monitor()
        elif k == "save":
            if op[1]:
                x.save(self.real("custom.h5"))
            else:
                x.save()
        elif k == "load":
            if op[1]:
                x.load(self.real("custom.h5"))
            else:
                x.load()
        elif k == "load_new":
            p = self.real("custom.h5") if op[1] else x.dsfile
            if op[2] == NONE:
                self.y = D.load(p)
            else:
                self.y = D.DataSet(filename=p, analysispath=self.real(op[2]))
        elif k == "poke":
            self.y.dty[0, 0] += 1
        elif k == "write_pks":
            pk = self.W.peaks[str(op[1])]
            S.make_peaks(x.pksfile, [tuple(p) for p in pk], 1 + max(p[5] for p in pk))
        elif k == "peaks_table":
            x.peaks_table
        elif k == "pk2d":
            x.pk2d
        elif k == "pk4d":
            x.pk4d
        elif k == "reset_peaks_cache":
            x.reset_peaks_cache()
        else:
            raise common.MachineryError("unknown op %r" % (op,))

    # -- projection
    def proj_obj(self, o, other, want):
        """want = the specification's projection of the same object (tells which observers are defined)"""
        g = lambda n: getattr(o, n, _MISSING)
        st = {}
        for n in ("dataroot", "analysisroot", "sample", "dset", "dsname", "datapath", "masterfile", "analysispath",
                  "dsfile", "parfile", "limapath"):
            st[n] = self.sym(g(n))
        st["apdef"] = self.sym(g("analysispath_default"))
        st["dsfdef"] = self.sym(g("dsfile_default"))
        st["names"] = [self.sym(g(n)) for n in N12]
        st["imageshape"] = g("imageshape") is not _MISSING
        for n in ("scans", "imagefiles", "sparsefiles"):
            v = g(n)
            st[n] = {"k": "none", "v": []} if v is None else \
                {"k": "seq", "v": [str(s) for s in v]} if isinstance(v, list) else {"k": "other", "v": repr(v)}
        st["fps"] = proj_array(g("frames_per_scan"), False)
        st["fpf"] = proj_array(g("frames_per_file"), False)
        sh = g("shape")
        st["shape"] = [int(i) for i in sh] if isinstance(sh, tuple) else "other:%r" % (sh,)
        st["omega"] = proj_array(g("omega"), True)
        st["dty"] = proj_array(g("dty"), True)
        st["nnz"] = proj_array(g("nnz"), False)
        st["monitor"] = proj_array(g("monitor"), False)
        st["mref"] = proj_num(g("monitor_ref"))
        for n in ("obincens", "obinedges", "ybincens", "ybinedges"):
            st[n] = proj_array(g(n), True)
        st["ofb"] = proj_array(g("omega_for_bins"), True)
        for n in ("omin", "omax", "ostep", "ymin", "ymax", "ystep"):
            st[n] = proj_num(g(n))
        pt = g("_peaks_table")
        st["pt"] = 0 if pt is None else self.W.peak_version(pt)
        st["pk2d"] = self.proj_tab(o._pk2d, want.get("pk2d"), "2d")
        st["pk4d"] = self.proj_tab(o._pk4d, want.get("pk4d"), "4d")
        st["static"] = [g("detector"), g("omegamotor"), g("dtymotor"), g("monitorname")]
        # observers
        st["histdef"] = bool(want.get("histdef"))
        st["h"], st["wh"], st["histnote"] = [], [], ""
        if want.get("histdef"):
            try:
                n = o.omega_for_bins.size
                w = np.arange(1, n + 1, dtype=float).reshape(o.omega_for_bins.shape)
                hn = o.sinohist(method="numpy")
                hf = o.sinohist(method="fast")
                wn = o.sinohist(weights=w, method="numpy")
                wf = o.sinohist(weights=w, method="fast")
                if want.get("edgehit"):
                    st["h"], st["wh"] = want["h"], want["wh"]       # float-ambiguous sample: not compared
                    st["histnote"] = "edgehit"
                elif not (np.array_equal(hn, hf) and np.array_equal(wn, wf)):
                    st["histnote"] = "fast != numpy: %s %s" % (hn.tolist(), hf.tolist())
                else:
                    st["h"] = [[int(v) for v in r] for r in hn.tolist()]
                    st["wh"] = [[int(v) for v in r] for r in wn.tolist()]
            except Exception as e:
                st["histnote"] = "sinohist raised %s: %s" % (type(e).__name__, e)
        st["cells"] = []
        if want.get("cells") and want.get("celledge"):
            st["cells"] = want["cells"]                          # a sample exactly on a bin edge: float-ambiguous
        elif want.get("cells"):
            try:
                io_ = np.digitize(o.omega_for_bins.ravel(), o.obinedges) - 1
                iy = np.digitize(o.dty.ravel(), o.ybinedges) - 1
                st["cells"] = [[int(a), int(b)] for a, b in zip(io_, iy)]
            except Exception as e:
                st["cells"] = "digitize raised %s" % type(e).__name__
        try:
            with quiet():
                m = o.get_monitor()
            st["mon"] = {"exc": "ok", "a": proj_array(m, False)}
        except Exception as e:
            st["mon"] = {"exc": type(e).__name__, "a": proj_array(None, False)}
        st["cmp"] = []
        if other is not None:
            try:
                with quiet():
                    st["cmp"] = [str(bool(o.compare(other)))]
            except Exception as e:
                st["cmp"] = [type(e).__name__]
        return st

    def proj_tab(self, tab, want, which):
        if tab is None:
            return {"k": "none"}
        out = {"k": "tab", "content": "ok"}
        if not want or want.get("k") != "tab":
            return out
        try:
            exp = expected_table(self.W.peaks[str(want["pt"])], want, which)
            for key, ev in exp.items():
                rv = np.asarray(tab[key], float)
                if rv.shape != (len(ev),) or not np.allclose(rv, ev, rtol=1e-9, atol=1e-12):
                    out["content"] = "%s: real %s expected %s" % (key, rv.tolist(), ev)
                    break
        except Exception as e:
            out["content"] = "cannot judge: %s %s" % (type(e).__name__, e)
        return out

    def proj_disk(self, want_disk):
        out = []
        for e in want_disk:
            p = self.real(e["p"])
            if not os.path.exists(p):
                out.append({"p": e["p"], "kind": "missing"})
                continue
            try:
                if e["kind"] == "ds":
                    out.append(self.proj_dsfile(e["p"], p))
                elif e["kind"] == "sparse":
                    with h5py.File(p, "r") as h:
                        out.append({"p": e["p"], "kind": "sparse", "names": sorted(h["/"])})
                else:
                    t = self.M.P.pks_table.load(p)
                    out.append({"p": e["p"], "kind": "pks", "ver": self.W.peak_version(t)})
            except Exception as ex:
                out.append({"p": e["p"], "kind": "unreadable:%s" % type(ex).__name__})
        # files the specification does not know
        known = set(self.real(e["p"]) for e in want_disk)
        for dirpath, dirs, files in os.walk(self.root):
            dirs[:] = [d for d in dirs if not os.path.islink(os.path.join(dirpath, d))]
            for f in files:
                full = os.path.join(dirpath, f)
                if full not in known:
                    out.append({"p": self.sym(full), "kind": "unexpected"})
        return out

    def proj_dsfile(self, symp, p):
        with h5py.File(p, "r") as h:
            g = h["/"]
            st = {"p": symp, "kind": "ds"}
            st["str"] = [self.sym(g.attrs[k]) if k in g.attrs else "<absent>" for k in STRKEYS]
            st["shape"] = [int(i) for i in g.attrs["shape"]] if "shape" in g.attrs else []
            st["mref"] = proj_num(np.float64(g.attrs["monitor_ref"])) if "monitor_ref" in g.attrs else proj_num(None)
            lists = []
            for k in ("scans", "imagefiles", "sparsefiles"):
                if k in g:
                    lists.append({"k": "seq", "v": [s.decode() if hasattr(s, "decode") else str(s) for s in g[k][()]]})
                else:
                    lists.append({"k": "none", "v": []})
            st["lists"] = lists
            st["nd"] = [proj_array(g[k][()] if k in g else _MISSING, k in MOTORLIKE) for k in NDSEQ]
            extra = sorted(set(g) - set(NDSEQ) - {"scans", "imagefiles", "sparsefiles"})
            if extra:
                st["extra"] = extra
        return st

    def project(self, want):
        st = {"d": self.d, "form": self.form}
        st["x"] = self.proj_obj(self.x, self.y, want["x"])
        if self.y is None:
            st["y"] = {"none": True}
        else:
            st["y"] = self.proj_obj(self.y, self.x, want["y"] if "none" not in want["y"] else {})
        st["disk"] = self.proj_disk(want["disk"])
        return st


def expected_table(peaks, tok, which):
    """the pk2d / pk4d dictionary that the ingredients recorded in the specification's token define"""
    ofb = np.array(tok["ofb"]["v"], float) / DEN
    dty = np.array(tok["dty"]["v"], float) / DEN
    scale = None
    if tok["mon"]["k"] == "arr":
        scale = (tok["mref"]["a"] / float(tok["mref"]["b"])) / np.array(tok["mon"]["v"], float)
    s1 = np.array([p[0] for p in peaks], float)
    sI = np.array([p[1] for p in peaks], float)
    srI = np.array([p[2] for p in peaks], float)
    scI = np.array([p[3] for p in peaks], float)
    frm = np.array([p[4] for p in peaks], int)
    gl = np.array([p[5] for p in peaks], int)
    sc = np.ones(len(peaks)) if scale is None else scale[frm]
    if which == "2d":
        return {"s_raw": (srI / sI).tolist(), "f_raw": (scI / sI).tolist(), "omega": ofb[frm].tolist(),
                "dty": dty[frm].tolist(), "Number_of_pixels": s1.tolist(), "sum_intensity": (sI * sc).tolist(),
                "spot3d_id": gl.tolist()}
    n = gl.max() + 1
    acc = np.zeros((7, n))
    for k in range(len(peaks)):
        j = gl[k]
        acc[0, j] += s1[k]
        acc[1, j] += sI[k] * sc[k]
        acc[2, j] += srI[k] * sc[k]
        acc[3, j] += scI[k] * sc[k]
        acc[4, j] += ofb[frm[k]] * sI[k] * sc[k]
        acc[5, j] += dty[frm[k]] * sI[k] * sc[k]
        acc[6, j] += 1
    return {"s_raw": (acc[2] / acc[1]).tolist(), "f_raw": (acc[3] / acc[1]).tolist(), "omega": (acc[4] / acc[1]).tolist(),
            "Number_of_pixels": acc[0].tolist(), "sum_intensity": acc[1].tolist(), "dty": (acc[5] / acc[1]).tolist(),
            "spot3d_id": list(range(n)), "npk2d": acc[6].tolist()}


# ----------------------------------------------------------------------------------------------
# comparison of the specification's projection with the real one

def _cmp_arr(m, r):
    return m["k"] == r["k"] and list(m["sh"]) == list(r["sh"]) and _l(m["v"]) == _l(r["v"]) and m["dt"] == r["dt"]


def _l(x):
    if isinstance(x, (list, tuple)):
        return [_l(i) for i in x]
    return x


def _cmp_num(m, r):
    if m["k"] != r["k"]:
        return False
    if m["k"] != "num":
        return True
    e = m["a"] / float(m["b"])
    return m["t"] == r["t"] and abs(r["x"] - e) <= 1e-9 * max(1.0, abs(e)) + 1e-12


ARRS = ["fps", "fpf", "omega", "dty", "nnz", "monitor", "obincens", "obinedges", "ybincens", "ybinedges", "ofb"]
NUMS = ["mref", "omin", "omax", "ostep", "ymin", "ymax", "ystep"]
PLAIN = ["dataroot", "analysisroot", "sample", "dset", "dsname", "datapath", "masterfile", "analysispath", "apdef",
         "dsfile", "dsfdef", "names", "parfile", "limapath", "imageshape", "shape", "pt", "histdef", "cells"]


def compare_obj(m, r, flags, pre=""):
    d = []
    for k in PLAIN:
        if _l(m[k]) != _l(r[k]):
            d.append(pre + k)
    for k in ("scans", "imagefiles", "sparsefiles"):
        if m[k]["k"] != r[k]["k"] or _l(m[k]["v"]) != _l(r[k]["v"]):
            d.append(pre + k)
    for k in ARRS:
        if not _cmp_arr(m[k], r[k]):
            d.append(pre + k)
    for k in NUMS:
        if not _cmp_num(m[k], r[k]):
            d.append(pre + k)
    for k in ("pk2d", "pk4d"):
        if m[k]["k"] != r[k]["k"] or r[k].get("content", "ok") != "ok":
            d.append(pre + k)
    if r["histnote"] not in ("", "edgehit"):
        d.append(pre + "sinohist")
    elif _l(m["h"]) != _l(r["h"]) or _l(m["wh"]) != _l(r["wh"]):
        d.append(pre + "sinohist")
    if m["mon"]["exc"] != r["mon"]["exc"] or not _cmp_arr(m["mon"]["a"], r["mon"]["a"]):
        d.append(pre + "get_monitor")
    if flags.get("bug_compare") and (len(m["cmp"]) > 0) and not (set(r["cmp"]) <= set(m["cmp"])):
        d.append(pre + "compare")
    if r["static"] != ["eiger", "rot_center", "dty", None]:
        d.append(pre + "static")
    return d


def compare_disk(m, r):
    d = []
    rm = {e["p"]: e for e in r}
    for e in m:
        q = rm.pop(e["p"], None)
        if q is None or q["kind"] != e["kind"]:
            d.append("disk:%s:%s" % (e["p"], q["kind"] if q else "missing"))
            continue
        if e["kind"] == "sparse":
            if sorted(e["names"]) != q["names"]:
                d.append("disk:%s:names" % e["p"])
        elif e["kind"] == "pks":
            if e["ver"] != q["ver"]:
                d.append("disk:%s:ver" % e["p"])
        else:
            if _l(e["str"]) != q["str"]:
                d.append("disk:%s:attrs" % e["p"])
            if _l(e["shape"]) != q["shape"]:
                d.append("disk:%s:shape" % e["p"])
            if not _cmp_num(e["mref"], q["mref"]):
                d.append("disk:%s:monitor_ref" % e["p"])
            for a, b, nm in zip(e["lists"], q["lists"], ("scans", "imagefiles", "sparsefiles")):
                if a["k"] != b["k"] or _l(a["v"]) != b["v"]:
                    d.append("disk:%s:%s" % (e["p"], nm))
            for a, b, nm in zip(e["nd"], q["nd"], NDSEQ):
                if not _cmp_arr(a, b):
                    d.append("disk:%s:%s" % (e["p"], nm))
            if q.get("extra"):
                d.append("disk:%s:extra%s" % (e["p"], q["extra"]))
    for p, q in rm.items():
        d.append("disk:%s:%s" % (p, q["kind"]))
    return d


def compare(model, real, flags):
    d = compare_obj(model["x"], real["x"], flags, "x.")
    if ("none" in model["y"]) != ("none" in real["y"]):
        d.append("y.exists")
    elif "none" not in model["y"]:
        d += compare_obj(model["y"], real["y"], flags, "y.")
    d += compare_disk(model["disk"], real["disk"])
    return d


def pick(st, keys):
    out = {}
    for k in keys:
        if k.startswith("disk:"):
            out["disk"] = st["disk"]
        elif "." in k:
            a, b = k.split(".", 1)
            if b == "sinohist":
                out[k] = {"h": st[a].get("h"), "wh": st[a].get("wh"), "note": st[a].get("histnote", "")}
            elif b == "get_monitor":
                out[k] = st[a].get("mon")
            elif b == "compare":
                out[k] = st[a].get("cmp")
            elif isinstance(st.get(a), dict):
                out[k] = st[a].get(b)
    return out


# ----------------------------------------------------------------------------------------------
# the laws, judged on the real objects (independent of the specification's state)

EXT = {"pksfile": "_peaks_table.h5", "col4dfile": "_peaks_4d.h5", "col3dfile": "_peaks_3d.h5",
       "col2dfile": "_peaks_2d.h5", "grainsfile": "_grains.h5", "sparsefile": "_sparse.h5", "icolfile": "_icolf.h5",
       "pbpfile": "_pbp.txt", "refmanfile": "_refine_manager.h5", "refpeaksfile": "_refine_peaks.h5",
       "refmapfile": "_refine_map_in.h5", "refoutfile": "_refine_map_out.h5"}
STATS = {"states_judged": 0, "with_bins": 0, "round_trips": 0, "compare_pairs": 0, "regular_grids": 0, "hist_judged": 0,
         "saves_judged": 0, "paths_judged": 0}


def _isarr(a, nd=None):
    return isinstance(a, np.ndarray) and a.size > 0 and (nd is None or a.ndim == nd)


def well_formed(o):
    g = lambda n: getattr(o, n, None)
    if not (_isarr(g("omega_for_bins"), 2) and _isarr(g("omega"), 2) and _isarr(g("dty"), 2)):
        return False
    for n in ("obincens", "obinedges", "ybincens", "ybinedges"):
        if not _isarr(g(n), 1):
            return False
    for n in ("ostep", "ystep", "omin", "ymin", "omax", "ymax"):
        if not hasattr(o, n):
            return False
    return (o.omega.shape == o.dty.shape == o.omega_for_bins.shape == tuple(o.shape)
            and len(o.obinedges) == len(o.obincens) + 1 and len(o.ybinedges) == len(o.ybincens) + 1)


def saveable(o):
    for n in o.NDNAMES:
        v = getattr(o, n, None)
        if v is None:
            continue
        try:
            a = np.asarray(v)
        except ValueError:
            return False
        if a.dtype == object or a.size == 0:
            return False
    return True


def near_any(x, grid, tol=1e-7):
    return bool(np.any(np.abs(np.asarray(x, float).ravel()[:, None] - np.asarray(grid, float)[None, :]) < tol))


def regular_grid(o):
    ro, rd = o.omega_for_bins, o.dty
    if ro.shape[1] < 2:
        return False
    s0 = np.sort(ro[0])
    if len(set(s0.tolist())) != ro.shape[1] or not np.allclose(np.diff(s0), s0[1] - s0[0], rtol=1e-9, atol=1e-12):
        return False
    if any(not np.array_equal(np.sort(r), s0) for r in ro):
        return False
    if any(len(set(r.tolist())) != 1 for r in rd):
        return False
    ys = np.array(sorted(set(rd.ravel().tolist())))
    return len(ys) == rd.shape[0] and (len(ys) < 3 or np.allclose(np.diff(ys), ys[1] - ys[0], rtol=1e-9, atol=1e-12))


def persisted_diff(a, b, cls):
    """names of persisted attributes of b (the original) that a (loaded from b's file) does not reproduce"""
    bad = []
    for n in cls.ATTRNAMES:
        vb = getattr(b, n, None)
        if vb is None:
            continue
        va = getattr(a, n, None)
        if n == "shape":
            ok = tuple(int(i) for i in va) == tuple(int(i) for i in vb)
        elif isinstance(vb, str):
            ok = type(va) is str and va == vb
        else:
            ok = va is not None and abs(float(va) - float(vb)) <= 1e-9 * max(1.0, abs(float(vb)))
        if not ok:
            bad.append(n)
    for n in cls.STRINGLISTS:
        vb = getattr(b, n, None)
        if vb is None or len(vb) == 0:
            continue
        va = getattr(a, n, None)
        if not (isinstance(va, list) and [str(s) for s in va] == [str(s) for s in vb]):
            bad.append(n)
    for n in cls.NDNAMES:
        vb = getattr(b, n, None)
        if vb is None:
            if getattr(a, n, None) is not None:
                bad.append(n)
            continue
        vb = np.asarray(vb)
        va = getattr(a, n, None)
        if not (isinstance(va, np.ndarray) and va.shape == vb.shape and va.dtype == vb.dtype and np.array_equal(va, vb)):
            bad.append(n)
    return bad


def derived_diff(a, b):
    bad = []
    for n in ("omin", "omax", "ostep", "ymin", "ymax", "ystep"):
        if n == "ymax" and b.shape[0] <= 1:
            continue
        va, vb = getattr(a, n, None), getattr(b, n, None)
        if va is None or vb is None or abs(float(va) - float(vb)) > 1e-9 * max(1.0, abs(float(vb))):
            bad.append(n)
    return bad


def round_trip(R, o, tag):
    """save a shallow copy of o into a fresh file and load that into a fresh object"""
    tmp = os.path.join(R.root, "law_%s.h5" % tag)
    if os.path.exists(tmp):
        os.unlink(tmp)
    c = copy.copy(o)
    c.save(tmp)
    t = R.M.D.load(tmp)
    os.unlink(tmp)
    return t


FLAG_OF = {"HistMatchesEdges": "bug_sinohist", "RoundTripOfb": "bug_load360", "RoundTripYstep": "bug_ystep",
           "BadScanBest": "bug_badscan", "SaveTarget": "bug_savedef", "SaveTotal": "bug_saveshape",
           "CentresAreMotors": "bug_stalebins", "Partition": "bug_stalebins", "CompareSound": "bug_compare", "CompareRoundTrip": "bug_compare"}


def laws(R, pad, destructive=True):
    """list of (law, message) broken by the real objects in their current state.  pad = the specification's ghost
    `ybincens were padded by correct_bins_for_half_scan` (the real object has no such record)."""
    bad = []
    x, D = R.x, R.M.D
    STATS["states_judged"] += 1
    with quiet():
        # update_paths: non-forced keeps what is set, forced gives the defaults
        c = copy.copy(x)
        before = dict((n, getattr(c, n, None)) for n in N12)
        try:
            c.update_paths()
            for n in N12:
                if before[n] is not None and getattr(c, n) != before[n]:
                    bad.append(("PathsKept", "update_paths() changed %s from %r to %r" % (n, before[n], getattr(c, n))))
            c.update_paths(force=True)
            for n in N12:
                e = os.path.join(c.analysispath, c.dsname + EXT[n])
                if getattr(c, n) != e:
                    bad.append(("PathsKept", "update_paths(force=True): %s = %r, expected %r" % (n, getattr(c, n), e)))
            STATS["paths_judged"] += 1
        except Exception as e:
            bad.append(("PathsKept", "update_paths raised %s" % type(e).__name__))
        wf = well_formed(x)
        if wf:
            STATS["with_bins"] += 1
            ofb, dty = x.omega_for_bins.ravel(), x.dty.ravel()
            io_ = np.digitize(ofb, x.obinedges) - 1
            iy = np.digitize(dty, x.ybinedges) - 1
            rowconst = all(len(set(r.tolist())) == 1 for r in x.dty)
            inb = bool(np.all((io_ >= 0) & (io_ < len(x.obincens)) & (iy >= 0) & (iy < len(x.ybincens))))
            if not inb and (rowconst or not pad):
                bad.append(("Partition", "a sample is outside the bins: omega cells %s dty cells %s" % (io_.tolist(), iy.tolist())))
            onedge = near_any(ofb, x.obinedges) or near_any(dty, x.ybinedges)
            try:
                hn = x.sinohist(method="numpy")
                hf = x.sinohist(method="fast")
                w = np.arange(1, ofb.size + 1, dtype=float).reshape(x.omega_for_bins.shape)
                wn = x.sinohist(weights=w, method="numpy")
                wf_ = x.sinohist(weights=w, method="fast")
                h3 = x.sinohist(return_edges=True)
                STATS["hist_judged"] += 1
                if hn.shape != (len(x.obincens), len(x.ybincens)) or len(h3) != 3:
                    bad.append(("HistShape", "sinohist shape %s, bins (%d, %d)" % (hn.shape, len(x.obincens), len(x.ybincens))))
                else:
                    # samples close to an edge of the histogram grid are float-ambiguous
                    omin_e = x.omega_for_bins.min() - x.ostep / 2
                    omax_e = x.omega_for_bins.max() + x.ostep / 2
                    amb = onedge or near_any(ofb, np.linspace(omin_e, omax_e, len(x.obincens) + 1)) or \
                        near_any(dty, np.linspace(x.ybinedges[0], x.ybinedges[-1], len(x.ybincens) + 1))
                    if not amb:
                        if not (np.array_equal(hn, hf) and np.array_equal(wn, wf_)):
                            bad.append(("FastIsNumpy", "sinohist fast %s != numpy %s" % (hf.tolist(), hn.tolist())))
                        eh = np.zeros(hn.shape)
                        if inb:
                            np.add.at(eh, (io_, iy), 1)
                            if not np.array_equal(hn, eh):
                                bad.append(("HistMatchesEdges", "sinohist() %s is not the histogram of the samples over "
                                            "(obinedges, ybinedges) %s" % (hn.tolist(), eh.tolist())))
                            elif hn.sum() != ofb.size or wn.sum() != w.sum():
                                bad.append(("HistTotal", "sinohist sums to %s / %s for %d samples" % (hn.sum(), wn.sum(), ofb.size)))
            except Exception as e:
                bad.append(("HistShape", "sinohist raised %s: %s" % (type(e).__name__, e)))
            if not pad and regular_grid(x):
                STATS["regular_grids"] += 1
                oc = np.array(sorted(set(ofb.tolist())))
                yc = np.array(sorted(set(dty.tolist())))
                if not (len(oc) == len(x.obincens) and np.allclose(oc, x.obincens, rtol=1e-9, atol=1e-9)
                        and len(yc) == len(x.ybincens) and np.allclose(yc, x.ybincens, rtol=1e-9, atol=1e-9)):
                    bad.append(("CentresAreMotors", "regular grid omega %s dty %s but obincens %s ybincens %s"
                                % (oc.tolist(), yc.tolist(), x.obincens.tolist(), x.ybincens.tolist())))
            if saveable(x):
                try:
                    t = round_trip(R, x, "rt")
                    STATS["round_trips"] += 1
                    pd = persisted_diff(t, x, D.DataSet)
                    dd = derived_diff(t, x)
                    for n in pd:
                        if n == "omega_for_bins":
                            bad.append(("RoundTripOfb", "omega_for_bins %s is read back as %s" %
                                        (x.omega_for_bins.tolist(), t.omega_for_bins.tolist())))
                        else:
                            bad.append(("RoundTripPersist", "%s = %r is read back as %r" % (n, getattr(x, n, None), getattr(t, n, None))))
                    for n in dd:
                        bad.append(("RoundTripYstep" if n == "ystep" else "RoundTripDerived",
                                    "%s = %r before and %r after save/load" % (n, getattr(x, n, None), getattr(t, n, None))))
                    t2 = round_trip(R, t, "rt2")
                    d2 = persisted_diff(t2, t, D.DataSet) + derived_diff(t2, t)
                    if d2:
                        bad.append(("LoadIdempotent", "second save/load generation changes %s" % d2))
                    if not pd and not dd and x.analysispath is not None:
                        t.dsfile = x.dsfile
                        for a, b, nm in ((t, x, "load(save(x)).compare(x)"), (x, t, "x.compare(load(save(x)))")):
                            try:
                                r = a.compare(b)
                            except Exception as e:
                                r = type(e).__name__
                            if r is not True:
                                bad.append(("CompareRoundTrip", "%s gives %s although every persisted attribute was "
                                            "read back exactly" % (nm, r)))
                except Exception as e:
                    bad.append(("RoundTripLoads", "save + load of a well formed dataset raised %s: %s" % (type(e).__name__, e)))
        if R.y is not None:
            for a, b, nm in ((x, R.y, "x.compare(y)"), (R.y, x, "y.compare(x)")):
                STATS["compare_pairs"] += 1
                try:
                    r = a.compare(b)
                except Exception:
                    continue
                if r is True:
                    df = [n for n in D.DataSet.NDNAMES if not _same(getattr(a, n, None), getattr(b, n, None))]
                    df += [n for n in D.DataSet.ATTRNAMES + D.DataSet.STRINGLISTS
                           if n != "shape" and getattr(a, n, None) != getattr(b, n, None)]
                    if df:
                        bad.append(("CompareSound", "%s is True but %s differ" % (nm, df)))
        if destructive and wf and saveable(x):
            before = x.dsfile
            there = before is not None and os.path.exists(before)
            STATS["saves_judged"] += 1
            try:
                x.save()
                if there and x.dsfile != before:
                    bad.append(("SaveTarget", "save() wrote %s although the dataset's file %s exists" % (R.sym(x.dsfile), R.sym(before))))
            except Exception as e:
                bad.append(("SaveTotal", "save() of a well formed dataset onto %s raised %s: %s"
                            % (R.sym(getattr(x, "dsfile_default", None)), type(e).__name__, e)))
    return bad


def _same(a, b):
    if a is None or b is None:
        return a is None and b is None
    try:
        a, b = np.asarray(a), np.asarray(b)
    except ValueError:
        return False
    return a.shape == b.shape and bool(np.array_equal(a, b))


def law_badscan(W, d):
    """import_motors_from_master on a fresh object: every corrupted scan must get the omega of the good scan whose
    first angle is nearest (independent of the specification: computed from the dataset table)"""
    R = Real(W, d, "fresh")
    bad = []
    with quiet():
        R.x.import_scans()
        R.x.import_imagefiles()
        R.x.import_motors_from_master()
    tab = {c["name"]: c for c in W.table[d]}
    scans = [tab[s] for s in R.x.scans]
    good = [i for i, c in enumerate(scans) if len(c["om"]) == c["nfr"]]
    for b, c in enumerate(scans):
        if b in good or not good:
            continue
        j = min(good, key=lambda i: (abs(scans[i]["om"][0] - c["om"][0]), i))
        want = [float(v) for v in scans[j]["om"]]
        got = np.asarray(R.x.omega[b], float).tolist()
        if got != want:
            bad.append(("BadScanBest", "scan %s has corrupted omega (first angle %s): it gets %s, the omega of scan %s; "
                        "the good scan with the nearest first angle is %s with %s"
                        % (c["name"], c["om"][0], got, R.x.scans[0], scans[j]["name"], want)))
    R.cleanup()
    return bad

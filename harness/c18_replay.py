"""C18 - execution of Storage.tla behaviours against the real ImageD11 readers / writers.

A behaviour is the `hist` sequence of a Storage.tla state: hist[0] = {"op":"init","sd":[i,j]} (seed
objects of o1, o2), hist[1:] = operations {"op","o","p","g"} (Nudge: the model's edit of an object in memory,
executed by copying the model's new values into the real columns).  `Runner` executes it with real
temporary files; after every step `observe()` projects the *real* state (files on disk parsed by
this module's own small parsers / h5py, objects in memory through their public attributes) onto
the same canonical form as `canon_world()` gives for the model's world, and `diff()` compares.

Canonical forms (plain python data, floats compared with ==, decimals in text files as Fractions):
  file   {"k":"none"} | {"k":"text","pars":{n:(cls,val)},"titles":[..],"cols":{t:[Fraction]}}
         | {"k":"hdf","groups":{g:{...}}} | {"k":"par","pars":{..}} | {"k":"gtext","gl":[..]}
         | {"k":"utext","ubis":[[9 Fractions]]}
  object {"k":"table","titles":[..],"cols":{t:(kind,[values])},"pars":{n:(type,value)}}
         | {"k":"pars","pars":{..}} | {"k":"grains","gl":[grain]} | {"k":"sparse",...}
"""
from __future__ import print_function
import os, gc, math, random, shutil, contextlib
from fractions import Fraction
import numpy as np

TEN = Fraction(10)
_DEVNULL = open(os.devnull, "w")


# ------------------------------------------------------------------------------------------
# model values
def vfrac(v):
    s, m, e = v
    return Fraction(s * m) * TEN ** e


def vfloat(v):
    s, m, e = v
    if m == 0:
        return -0.0 if s < 0 else 0.0
    return float(vfrac(v))          # int/int true division: correctly rounded


def vint(v):
    f = vfrac(v)
    assert f.denominator == 1, v
    return int(f)


def D(x):
    """TLC prints an empty function as [] - where a mapping is expected read it as {}"""
    if isinstance(x, list) and len(x) == 0:
        return {}
    return x


def typed(tv, tok):
    """model typed value {"ty","n","s"} -> (type, python value)"""
    if tv["ty"] == "int":
        return ("int", vint(tv["n"]))
    if tv["ty"] == "float":
        return ("float", vfloat(tv["n"]))
    return ("str", tok(tv["s"]))


def spelled(sp, tok):
    if sp["sp"] == "I":
        return ("I", vint(sp["n"]))
    if sp["sp"] == "F":
        return ("F", vfloat(sp["n"]))
    return ("S", tok(sp["s"]))


def classify(raw):
    """what a spelling denotes for python's own int() / float()"""
    try:
        return ("I", int(raw))
    except ValueError:
        pass
    try:
        return ("F", float(raw))
    except ValueError:
        return ("S", raw.strip())


def pytype(v):
    if isinstance(v, np.ndarray) and v.ndim == 0:       # a 0-d array carries one scalar
        v = v[()]
    if isinstance(v, (bool, np.bool_)):
        return ("bool", bool(v))
    if isinstance(v, (int, np.integer)):
        return ("int", int(v))
    if isinstance(v, (float, np.floating)):
        return ("float", float(v))
    if isinstance(v, bytes):
        return ("bytes", v)
    if isinstance(v, str):
        return ("str", str(v))          # (numpy.str_ -> str)
    return (type(v).__name__, repr(v))


def kind(dtype):
    k = np.dtype(dtype).kind
    return "i" if k in "iu" else ("f" if k == "f" else k)


def tolist(a):
    a = np.asarray(a)
    return a.tolist()


# ------------------------------------------------------------------------------------------
# canonical form of the model's world
def canon_mem(x, tok):
    k = x["k"]
    if k == "none":
        return {"k": "none"}
    if k == "table":
        dt = D(x["dt"])
        cols = {}
        for t, col in D(x["cols"]).items():
            if dt[t] == "i":
                cols[t] = ("i", [vint(v) for v in col])
            else:
                cols[t] = ("f", [vfloat(v) for v in col])
        return {"k": "table", "titles": list(x["titles"]), "cols": cols,
                "pars": {n: typed(tv, tok) for n, tv in D(x["pars"]).items()}}
    if k == "pars":
        return {"k": "pars", "pars": {n: typed(tv, tok) for n, tv in D(x["pars"]).items()}}
    if k == "grains":
        return {"k": "grains", "gl": [canon_grain(g, vfloat) for g in x["gl"]]}
    if k == "sparse":
        return {"k": "sparse", "shape": list(x["shape"]), "row": list(x["row"]), "col": list(x["col"]),
                "px": {n: canon_px(p, tok) for n, p in D(x["px"]).items()}}
    raise ValueError(k)


def canon_px(p, tok):
    if p["ty"] == "i":
        data = [vint(v) for v in p["data"]]
    else:
        data = [vfloat(v) for v in p["data"]]
    return {"ty": p["ty"], "data": data, "meta": {n: typed(tv, tok) for n, tv in D(p["meta"]).items()}}


def canon_grain(g, conv):
    return {"ubi": [conv(v) for v in g["ubi"]],
            "tr": [conv(v) for v in g["tr"]] if len(g["tr"]) else None,
            "name": g["nm"] if g["hasnm"] else None,
            "npks": g["npks"] if g["npks"] >= 0 else None,
            "nuniq": g["nuniq"] if g["nuniq"] >= 0 else None,
            "ii": g.get("ii") or None}


def canon_file(f, tok):
    k = f["k"]
    if k == "none":
        return {"k": "none"}
    if k == "text":
        return {"k": "text", "pars": {n: spelled(sp, tok) for n, sp in D(f["pars"]).items()},
                "titles": list(f["titles"]),
                "cols": {t: [vfrac(v) for v in col] for t, col in D(f["cols"]).items()}}
    if k == "par":
        return {"k": "par", "pars": {n: spelled(sp, tok) for n, sp in D(f["pars"]).items()}}
    if k == "gtext":
        return {"k": "gtext", "gl": [canon_grain(g, vfrac) for g in f["gl"]]}
    if k == "utext":
        return {"k": "utext", "ubis": [[vfrac(v) for v in u] for u in f["ubis"]]}
    if k == "hdf":
        groups = {}
        for g, grp in D(f["groups"]).items():
            if grp["tag"] == "peaks":
                ds = {}
                for t, d in D(grp["ds"]).items():
                    ds[t] = ("i", [vint(v) for v in d["data"]]) if d["ty"] == "i" else \
                            ("f", [vfloat(v) for v in d["data"]])
                groups[g] = {"tag": "peaks", "ds": ds}
            elif grp["tag"] == "grains":
                groups[g] = {"tag": "grains", "gl": [canon_grain(x, vfloat) for x in grp["gl"]]}
            elif grp["tag"] == "sparse":
                groups[g] = {"tag": "sparse", "shape": list(grp["shape"]), "row": list(grp["row"]),
                             "col": list(grp["col"]),
                             "px": {n: canon_px(p, tok) for n, p in D(grp["px"]).items()}}
            else:
                raise ValueError(grp["tag"])
        return {"k": "hdf", "groups": groups}
    raise ValueError(k)


def canon_world(w, tok):
    return {"fs": {p: canon_file(f, tok) for p, f in w["fs"].items()},
            "mem": {o: canon_mem(x, tok) for o, x in w["mem"].items()},
            "res": w["res"]}


# ------------------------------------------------------------------------------------------
# comparison
def diff(a, b, path="", signed=False):
    """first difference between two canonical structures (None when equal); a = expected.
    signed: +0.0 and -0.0 differ (the "exactly" of the hdf routes; used by the step laws)"""
    if isinstance(a, dict) and isinstance(b, dict):
        ka, kb = set(a), set(b)
        if ka != kb:
            return "%s: keys expected %s got %s" % (path, sorted(ka, key=str), sorted(kb, key=str))
        for k in sorted(a, key=str):
            d = diff(a[k], b[k], path + "/" + str(k), signed)
            if d:
                return d
        return None
    if isinstance(a, (list, tuple)) and isinstance(b, (list, tuple)):
        if len(a) != len(b):
            return "%s: length expected %d got %d (%r vs %r)" % (path, len(a), len(b), _short(a), _short(b))
        for i, (x, y) in enumerate(zip(a, b)):
            d = diff(x, y, path + "[%d]" % i, signed)
            if d:
                return d
        return None
    if isinstance(a, bool) != isinstance(b, bool):
        return "%s: expected %r got %r" % (path, a, b)
    if isinstance(a, float) and isinstance(b, float):
        if a == b and not (signed and a == 0.0 and math.copysign(1.0, a) != math.copysign(1.0, b)):
            return None
        return "%s: expected %r got %r" % (path, a, b)
    if type(a) != type(b) and not (isinstance(a, (int, Fraction)) and isinstance(b, (int, Fraction))):
        return "%s: expected %s %r got %s %r" % (path, type(a).__name__, _short(a), type(b).__name__, _short(b))
    if a != b:
        return "%s: expected %r got %r" % (path, _short(a), _short(b))
    return None


def _short(x):
    r = repr(x)
    return r if len(r) < 160 else r[:157] + "..."


# ------------------------------------------------------------------------------------------
# observers of real files (own parsers, h5py) and real objects
def _magic(path):
    with open(path, "rb") as f:
        return f.read(4)


def parse_colfile_text(path):
    pars, titles, rows = {}, None, []
    with open(path) as f:
        for line in f:
            if not line.strip():
                continue
            if line[0] == "#":
                if "=" in line:
                    n, v = line[1:].split("=", 1)
                    pars[n.strip()] = classify(v.strip())
                else:
                    titles = line[1:].split()
            else:
                rows.append([Fraction(t) for t in line.split()])
    titles = titles or []
    for r in rows:
        if len(r) != len(titles):
            return {"k": "text", "pars": pars, "titles": titles, "ragged": [len(r) for r in rows]}
    return {"k": "text", "pars": pars, "titles": titles,
            "cols": {t: [r[i] for r in rows] for i, t in enumerate(titles)}}


def parse_par_file(path):
    pars = {}
    with open(path) as f:
        for line in f:
            line = line.rstrip("\n")
            if " " in line:
                n, v = line.split(" ", 1)
            else:
                n, v = line, ""
            pars[n] = classify(v)
    return {"k": "par", "pars": pars}


def parse_grain_text(path):
    gl, cur, rows = [], {}, []
    with open(path) as f:
        for line in f:
            if line.startswith("#translation:"):
                cur["tr"] = [Fraction(t) for t in line.split()[1:]]
            elif line.startswith("#name "):
                cur["name"] = line[len("#name "):].rstrip("\n").rstrip()
            elif line.startswith("#npks "):
                cur["npks"] = int(line.split()[1])
            elif line.startswith("#nuniq "):
                cur["nuniq"] = int(line.split()[1])
            elif line.startswith("#intensity_info "):
                cur["ii"] = line[len("#intensity_info "):].rstrip("\n").rstrip()
            elif line.startswith("#"):
                continue
            elif line.strip():
                rows.append([Fraction(t) for t in line.split()])
                if len(rows) == 3:
                    gl.append({"ubi": rows[0] + rows[1] + rows[2], "tr": cur.get("tr"),
                               "name": cur.get("name"), "npks": cur.get("npks"), "nuniq": cur.get("nuniq"),
                               "ii": cur.get("ii")})
                    cur, rows = {}, []
    return {"k": "gtext", "gl": gl}


def parse_ubi_text(path):
    ubis, rows = [], []
    with open(path) as f:
        for line in f:
            if line.startswith("#") or not line.strip():
                continue
            rows.append([Fraction(t) for t in line.split()])
            if len(rows) == 3:
                ubis.append(rows[0] + rows[1] + rows[2])
                rows = []
    return {"k": "utext", "ubis": ubis}


def _dec(x):
    if isinstance(x, bytes):
        return x.decode()
    return x


def grain_proj(g):
    """projection of a real grain object = what a second write would emit"""
    nm = getattr(g, "name", None)
    npks = getattr(g, "npks", None)
    nuniq = getattr(g, "nuniq", None)
    ii = getattr(g, "intensity_info", None)
    return {"ubi": [float(v) for v in np.asarray(g.ubi).ravel()],
            "tr": None if g.translation is None else [float(v) for v in np.asarray(g.translation).ravel()],
            "name": None if nm is None else str(_dec(nm)).rstrip(),
            "npks": None if npks is None else int(_dec(npks)),
            "nuniq": None if nuniq is None else int(_dec(nuniq)),
            "ii": None if ii is None else str(_dec(ii)).rstrip()}


def observe_hdf(path):
    import h5py
    groups = {}
    with h5py.File(path, "r") as h:
        for g in h:
            grp = h[g]
            tag = _dec(grp.attrs.get("ImageD11_type", None))
            if tag == "peaks":
                groups[g] = {"tag": "peaks",
                             "ds": {t: (kind(grp[t].dtype), tolist(grp[t][:])) for t in grp}}
            elif "itype" in grp.attrs:
                px = {}
                for n in grp:
                    if n in ("row", "col"):
                        continue
                    px[n] = {"ty": grp[n].dtype.str, "data": tolist(grp[n][:]),
                             "meta": {k: pytype(_dec(v)) for k, v in grp[n].attrs.items()}}
                groups[g] = {"tag": "sparse", "shape": [int(grp.attrs["shape0"]), int(grp.attrs["shape1"])],
                             "itype": _dec(grp.attrs["itype"]),
                             "row": tolist(grp["row"][:]) if "row" in grp else [],
                             "col": tolist(grp["col"][:]) if "col" in grp else [],
                             "px": px}
            else:
                # a group of grains: sub groups named by integers
                gl = []
                for k in sorted(grp.keys(), key=lambda s: int(s)):
                    gg = grp[k]
                    nm = gg["name"][()] if "name" in gg else None
                    npks = gg["npks"][()] if "npks" in gg else None
                    nuniq = gg["nuniq"][()] if "nuniq" in gg else None
                    ii = gg["intensity_info"][()] if "intensity_info" in gg else None
                    gl.append({"ubi": [float(v) for v in gg["ubi"][:].ravel()],
                               "tr": [float(v) for v in gg["translation"][:].ravel()] if "translation" in gg else None,
                               "name": None if nm is None else _dec(nm).rstrip(),
                               "npks": None if npks is None else int(_dec(npks)),
                               "nuniq": None if nuniq is None else int(_dec(nuniq)),
                               "ii": None if ii is None else _dec(ii).rstrip()})
                groups[g] = {"tag": "grains", "gl": gl}
    return {"k": "hdf", "groups": groups}


def observe_file(path, family, textkind=None):
    if not os.path.exists(path):
        return {"k": "none"}
    if _magic(path) == b"\x89HDF":
        return observe_hdf(path)
    if family == "table":
        return parse_colfile_text(path)
    if family == "pars":
        return parse_par_file(path)
    if family == "grains":
        return parse_ubi_text(path) if textkind == "utext" else parse_grain_text(path)
    return {"k": "unknown"}


def observe_obj(x, family):
    if x is None:
        return {"k": "none"}
    if family == "table":
        cols = {}
        for t in x.titles:
            c = x.getcolumn(t)
            a = getattr(x, t)
            if not (np.asarray(a).shape == np.asarray(c).shape and np.array_equal(a, c)):
                return {"k": "table", "views_differ": t}
            if len(c) != x.nrows:
                return {"k": "table", "nrows_differ": t}
            cols[t] = (kind(c.dtype), tolist(c))
        return {"k": "table", "titles": list(x.titles), "cols": cols,
                "pars": {n: pytype(v) for n, v in x.parameters.get_parameters().items()}}
    if family == "pars":
        return {"k": "pars", "pars": {n: pytype(v) for n, v in x.get_parameters().items()}}
    if family == "grains":
        return {"k": "grains", "gl": [grain_proj(g) for g in x]}
    if family == "sparse":
        px = {}
        for n, a in x.pixels.items():
            px[n] = {"ty": a.dtype.str, "data": tolist(a),
                     "meta": {k: pytype(_dec(v)) for k, v in dict(x.meta.get(n, {}) or {}).items()}}
        itype = x.row.dtype.name if x.row.dtype == x.col.dtype else "%s/%s" % (x.row.dtype.name, x.col.dtype.name)
        return {"k": "sparse", "shape": [int(x.shape[0]), int(x.shape[1])], "itype": itype, "row": tolist(x.row),
                "col": tolist(x.col), "px": px}
    raise ValueError(family)


# ------------------------------------------------------------------------------------------
# building real seed objects from the model's seed objects
# the model's sparse frames say "i" / "f" for a pixel array and nothing about the index type: one
# concrete choice per history (Storage.tla header: covariance); the round trip must keep dtype.str
SPARSE_DTYPES = [{"i": "<i4", "f": "<f8", "itype": "uint16"},
                 {"i": "<u2", "f": "<f4", "itype": "uint16"},
                 {"i": "<i8", "f": "<f8", "itype": "uint32"},
                 {"i": "|u1", "f": "<f4", "itype": "int32"}]


# the model's typed parameter values say "int" / "float" / "str" and nothing about the python TYPE that
# carries them (Storage.tla header: covariance in the value kind).  One kind per history; every kind has
# the same str() spelling as the python value, so the model's worlds are expected unchanged:
#   py    python int / float / str
#   np64  numpy.float64 / numpy.int64 / numpy.str_ scalars (what numpy arithmetic, a refinement return)
#   0d    0-d float64 / int64 arrays (numpy.array(x)); strings numpy.str_ (h5py stores no 0-d unicode array)
#   np32  numpy.float32 where the value is a binary32 number whose shortest spelling denotes it (else
#         numpy.float64), numpy.int32 where it fits (else numpy.int64), numpy.str_
# Strings are numpy.str_ on the text routes only (header parameters, parameter files) and only inside the
# domain (strings that do not spell a number: dumbtypecheck re-examines exact str objects only); h5py has no
# conversion for numpy.str_ (sparse meta attributes raise TypeError, grain.to_h5py_group swallows it and
# drops the name: c18_extra.value_kinds notes both, they are not judged).
PAR_KINDS = ["py", "np64", "0d", "np32"]


def kinded(v, pk, strs=True):
    """python value (int / float / str, bool excluded) -> the same value carried by the kind pk"""
    if pk == "py" or isinstance(v, bool):
        return v
    if isinstance(v, str):
        if not strs:
            return v
        try:
            float(v)
            return v
        except ValueError:
            return np.str_(v)
    if isinstance(v, int):
        if pk == "0d":
            return np.array(v, np.int64)
        if pk == "np32" and -2 ** 31 <= v < 2 ** 31:
            return np.int32(v)
        return np.int64(v)
    if isinstance(v, float):
        if pk == "0d":
            return np.array(v, np.float64)
        if pk == "np32":
            with np.errstate(over="ignore"):
                f = np.float32(v)
            if float(f) == v and float(str(f)) == v:
                return f
        return np.float64(v)
    raise TypeError(type(v))


def build_obj(x, family, vals=None, coldt=None, spdt=None, pk="py", count=None):
    """x = raw model object (json).  pk: PAR_KINDS entry, the kind of every parameter-like value (header
    parameters, parameter dictionaries, sparse meta attributes, grain names and peak counts); count: a
    one element list, incremented per value built with the kind.  vals: optional function (path, modelval) -> python number used by
    the widened replay to substitute arbitrary doubles for the model's alphabet.  coldt: optional
    function title -> numpy dtype of the in-memory column (default float64).  spdt: SPARSE_DTYPES entry"""
    from ImageD11 import columnfile, parameters, grain, sparseframe
    sub = vals or (lambda where, v, isint: (vint(v) if isint else vfloat(v)))

    def K(v):
        if count is not None:
            count[0] += 1
        return kinded(v, pk, strs=family in ("table", "pars"))
    if family == "table":
        d = {}
        for t in x["titles"]:
            d[t] = np.array([float(sub(("col", t, i), v, False)) for i, v in enumerate(D(x["cols"])[t])], float)
            if coldt is not None:
                d[t] = d[t].astype(coldt(t))
        cf = columnfile.colfile_from_dict(d)
        for n, tv in D(x["pars"]).items():
            cf.parameters.set(n, K(_pyval(tv, sub, ("par", n))))
        return cf
    if family == "pars":
        return parameters.parameters(**{n: K(_pyval(tv, sub, ("par", n))) for n, tv in D(x["pars"]).items()})
    if family == "grains":
        out = []
        for gi, g in enumerate(x["gl"]):
            ubi = np.array([float(sub(("ubi", gi, j), v, False)) for j, v in enumerate(g["ubi"])]).reshape(3, 3)
            tr = [float(sub(("tr", gi, j), v, False)) for j, v in enumerate(g["tr"])] if len(g["tr"]) else None
            gr = grain.grain(ubi, translation=tr)
            if g["hasnm"]:
                gr.name = K(g["nm"])
            if g["npks"] >= 0:
                gr.npks = K(g["npks"])
            if g["nuniq"] >= 0:
                gr.nuniq = K(g["nuniq"])
            if g.get("ii"):
                gr.intensity_info = K(g["ii"])
            out.append(gr)
        return out
    if family == "sparse":
        spdt = spdt or SPARSE_DTYPES[0]
        spf = sparseframe.sparse_frame(np.array(x["row"]), np.array(x["col"]), tuple(x["shape"]),
                                       itype=np.dtype(spdt["itype"]))
        px = D(x["px"])
        for n in x["pxo"]:
            p = px[n]
            if p["ty"] == "i":
                a = np.array([vint(v) for v in p["data"]], np.dtype(spdt["i"]))
            else:
                a = np.array([float(sub(("px", n, i), v, False)) for i, v in enumerate(p["data"])],
                             np.float64).astype(np.dtype(spdt["f"]))
            meta = None
            if p["hasmeta"]:
                meta = {k: K(_pyval(tv, None, None)) for k, tv in D(p["meta"]).items()}
            spf.set_pixels(n, a, meta)
        return spf
    raise ValueError(family)


def _pyval(tv, sub, where):
    if tv["ty"] == "int":
        return vint(tv["n"])
    if tv["ty"] == "float":
        if sub is not None:
            return float(sub(where, tv["n"], False))
        return vfloat(tv["n"])
    return tv["s"]


# ------------------------------------------------------------------------------------------
class Runner(object):
    """executes one behaviour with real files under `root` (a fresh directory)"""

    def __init__(self, family, root, seeds_raw, variant=0, vals=None, coldt=None, paths=("p1", "p2")):
        self.family = family
        self.root = root
        self.variant = variant % 2          # API route variant (open h5py.File / loadparameters)
        self.spdt = SPARSE_DTYPES[variant % len(SPARSE_DTYPES)]
        self.pk = PAR_KINDS[(variant // 4) % len(PAR_KINDS)]     # value kind of the parameter-like values
        self.nkinded = [0]
        os.makedirs(root)
        self.paths = {p: os.path.join(root, p + ".dat") for p in paths}
        self.textkind = {}
        self.mem = {o: build_obj(x, family, vals, (lambda t, _o=o: coldt(_o, t)) if coldt else None, self.spdt,
                                 pk=self.pk, count=self.nkinded)
                    for o, x in seeds_raw.items()}
        self.res = "ok"
        self.exc = None

    def tok(self, s):
        """model tokens for file names:  "@p1" -> real path, "@peaks" -> "peaks" """
        if isinstance(s, str) and s.startswith("@"):
            return self.paths.get(s[1:], s[1:])
        return s

    def adapt(self, cw):
        """transport a canonical MODEL world to this history's concrete sparse dtypes (numpy casts only)"""
        if self.family != "sparse":
            return cw

        def px(pxs):
            out = {}
            for n, q in pxs.items():
                dt = np.dtype(self.spdt[q["ty"]])
                out[n] = {"ty": dt.str, "data": np.array(q["data"]).astype(dt).tolist(), "meta": q["meta"]}
            return out
        for f in cw["fs"].values():
            for grp in f.get("groups", {}).values():
                if grp.get("tag") == "sparse":
                    grp["px"] = px(grp["px"])
                    grp["itype"] = self.spdt["itype"]
        for m in cw["mem"].values():
            if m.get("k") == "sparse":
                m["px"] = px(m["px"])
                m["itype"] = self.spdt["itype"]
        return cw

    def close(self):
        self.mem = {}
        shutil.rmtree(self.root, True)

    def observe(self):
        return {"fs": {p: observe_file(path, self.family, self.textkind.get(p)) for p, path in self.paths.items()},
                "mem": {o: observe_obj(x, self.family) for o, x in self.mem.items()},
                "res": self.res}

    def step(self, a, exp=None):
        """exp: the raw model world after the step (used by the environment action Nudge only)"""
        self.exc = None
        try:
            with contextlib.redirect_stdout(_DEVNULL):      # the readers print progress messages
                self._do(a, exp)
            self.res = "ok"
        except Exception as e:      # the model only says "err"; the type is kept for the report
            self.res = "err"
            self.exc = "%s: %s" % (type(e).__name__, str(e)[:200])
        if self.res == "err":
            gc.collect()            # writers leave h5py.File objects open on their error paths

    def _do(self, a, exp=None):
        from ImageD11 import columnfile, parameters, grain, indexing, sparseframe
        import h5py
        op, o, g = a["op"], a["o"], a["g"]
        path = self.paths.get(a["p"])
        m = self.mem
        if op == "WriteText":
            m[o].writefile(path)
        elif op == "ReadText":
            m[o] = columnfile.columnfile(path)
        elif op == "WriteHdf":
            if self.variant == 1:
                h = h5py.File(path, "a")        # the open-file route of colfile_to_hdf
                try:
                    columnfile.colfile_to_hdf(m[o], h, name=g)
                finally:
                    h.close()
            else:
                columnfile.colfile_to_hdf(m[o], path, name=g)
        elif op == "ConvHdf":
            src = [q for k, q in sorted(self.paths.items()) if k != a["p"]][0]
            if self.variant == 1:
                h = h5py.File(path, "a")
                try:
                    columnfile.colfile_to_hdf(src, h, name=g)
                finally:
                    h.close()
            else:
                columnfile.colfile_to_hdf(src, path, name=g)
        elif op == "WriteHdfObj":
            columnfile.colfileobj_to_hdf(m[o], path, name=g)
        elif op == "ReadHdf":
            m[o] = columnfile.colfile_from_hdf(path, name=g)
        elif op == "ReadAuto":
            m[o] = columnfile.colfile_from_hdf(path)
        elif op == "ReadMmap":
            # the arrays are memory maps of the file ("you will need to use something like copyrows on
            # the result"): the history may truncate the file later, so take the copy straight away
            m[o] = columnfile.mmap_h5colf(path, path=g).copy()
        elif op == "DropRow":
            msk = np.ones(m[o].nrows, bool)
            msk[-1] = False
            m[o].filter(msk)
        elif op == "Nudge":
            # the user's edit of the object in memory (not code under test): the columns take, in place and
            # with their dtype, the values the model gives them (Storage.tla NudgeV / NudgeI)
            if exp is None:
                raise RuntimeError("Nudge needs the model's world")
            x = exp["mem"][o]
            for t in m[o].titles:
                col = m[o].getcolumn(t)
                vals = D(x["cols"])[t]
                col[:] = [vint(v) if col.dtype.kind in "iu" else vfloat(v) for v in vals]
        elif op == "SavePars":
            m[o].saveparameters(path)
        elif op == "LoadFresh":
            if self.variant == 1:
                p = parameters.parameters()
                p.loadparameters(path)
                m[o] = p
            else:
                m[o] = parameters.read_par_file(path)
        elif op == "LoadInto":
            m[o].loadparameters(path)
        elif op == "WriteGrains":
            grain.write_grain_file(path, m[o])
            self.textkind[a["p"]] = "gtext"
        elif op == "ReadGrains":
            m[o] = grain.read_grain_file(path)
        elif op == "WriteUbis":
            indexing.write_ubi_file(path, [x.ubi for x in m[o]])
            self.textkind[a["p"]] = "utext"
        elif op == "ReadUbis":
            m[o] = [grain.grain(u) for u in indexing.readubis(path)]
        elif op == "WriteGrainsH5":
            grain.write_grain_file_h5(path, m[o], group_name=g)
        elif op == "ReadGrainsH5":
            m[o] = grain.read_grain_file_h5(path, group_name=g)
        elif op == "PutGrainH5":
            with h5py.File(path, "a") as h:
                m[o][0].to_h5py_group(h[g], "0")
        elif op == "Reverse":
            m[o] = list(m[o])[::-1]
        elif op == "WriteSparse":
            with h5py.File(path, "a") as h:
                m[o].to_hdf_group(h.require_group(g))
        elif op == "ReadSparse":
            with h5py.File(path, "r") as h:
                m[o] = sparseframe.from_hdf_group(h[g])
        else:
            raise RuntimeError("unknown op " + op)


FAMILY_OF_OP = {}
for _f, _ops in {"table": ["WriteText", "ReadText", "WriteHdf", "WriteHdfObj", "ReadHdf", "ReadAuto", "ReadMmap", "DropRow",
                           "ConvHdf", "Nudge"],
                 "pars": ["SavePars", "LoadFresh", "LoadInto"],
                 "grains": ["WriteGrains", "ReadGrains", "WriteUbis", "ReadUbis", "WriteGrainsH5", "ReadGrainsH5",
                            "PutGrainH5", "Reverse"],
                 "sparse": ["WriteSparse", "ReadSparse"]}.items():
    for _o in _ops:
        FAMILY_OF_OP[_o] = _f


def unordered(w):
    """The property asks for the *order* of titles only on the text route (checked step by step by
    c18_widen.relations: file order = object order, object order = file order).  The order in which
    colfile_from_hdf / mmap_h5colf present the titles is modelled (HdfOrder) but not demanded: states
    are compared with sorted title lists and a differing order is only counted."""
    out = {"fs": {}, "mem": {}, "res": w["res"]}
    for p, f in w["fs"].items():
        if f.get("k") == "text" and "titles" in f:
            f = dict(f)
            f["titles"] = sorted(f["titles"])
        out["fs"][p] = f
    for o, m in w["mem"].items():
        if m.get("k") == "table" and "titles" in m:
            m = dict(m)
            m["titles"] = sorted(m["titles"])
        out["mem"][o] = m
    return out


def replay(family, hist, seeds_raw, expA, expF, root, variant=0, relations=None, prep=None):
    """Execute hist[1:] and compare after the seeding and after every step with the model worlds.
    expA / expF : lists (len(hist)) of raw model worlds ("as is" / "intended").
    relations : optional callable(family, op, prev_obs, cur_obs, counter) raising on a broken step law
    prep : optional callable applied to every canonical model world before the comparison (the title
           substitution of the title enumeration; seeds_raw must already carry the substituted titles)
    returns dict(okA, okF, firstA, firstF, nsteps, exc=[...])"""
    r = Runner(family, root, seeds_raw, variant, paths=sorted(expA[0]["fs"]))
    out = {"okA": True, "okF": True, "firstA": None, "firstF": None, "sigA": None, "sigF": None,
           "exc": [], "steps": 0, "order_dev": 0, "checks": 0, "pk": r.pk, "nkinded": r.nkinded[0]}
    nchecks = [0]
    prev = None
    try:
        for i in range(len(hist)):
            if i > 0:
                r.step(hist[i], expF[i])
                out["exc"].append(r.exc)
            real = r.observe()
            if relations is not None and i > 0:
                try:
                    relations(family, hist[i], prev, real, nchecks)
                except Exception as e:
                    if type(e).__name__ != "Fail":
                        raise
                    for key in ("A", "F"):
                        if out["ok" + key]:
                            out["ok" + key] = False
                            out["step" + key] = i
                            out["first" + key] = "step %d %s: step law: %s" % (i, _opstr(hist[i]), e)
                            out["sig" + key] = sig_of(hist[i]["op"], None, None, law=str(e))
            prev = real
            ureal = unordered(real)
            for key, exp in (("A", expA[i]), ("F", expF[i])):
                if not out["ok" + key]:
                    continue
                cw = r.adapt(canon_world(exp, r.tok))
                if prep is not None:
                    cw = prep(cw)
                d = diff(unordered(cw), ureal)
                if d is None and diff(cw, real) is not None:
                    out["order_dev"] += 1
                if d:
                    out["ok" + key] = False
                    out["step" + key] = i
                    out["first" + key] = "step %d %s: %s%s" % (
                        i, _opstr(hist[i]), d, (" [raised %s]" % r.exc) if r.exc else "")
                    # class of the discrepancy: an exception where the model expects success is
                    # classified by operation and exception type, anything else by the place in the state
                    out["sig" + key] = sig_of(hist[i]["op"], d, r.exc if exp["res"] == "ok" else None)
            out["steps"] = i
            if not out["okA"] and not out["okF"]:
                break
    finally:
        r.close()
    out["checks"] = nchecks[0]
    return out


def sig_of(op, d, exc, law=None):
    """class of a discrepancy: the operation at which it shows, plus the exception type when the
    operation raised where the model expects success (one VIOLATION line per class, the shortest
    history of the class is kept as the reproducer)"""
    if exc:
        return "%s raised %s" % (op, exc.split(":")[0])
    return op


def _place(d):
    import re
    s = d.split(": expected")[0].split(": keys")[0].split(": length")[0]
    s = re.sub(r"\[\d+\]", "[]", s)
    s = re.sub(r"/(o1|o2|p1|p2)\b", "/*", s)
    s = re.sub(r"/groups/[a-z]+", "/groups/*", s)
    return s


def _opstr(a):
    if a["op"] == "init":
        return "init%s" % (list(a["sd"]),)
    return "%s(%s)" % (a["op"], ",".join(x for x in (a["o"], a["p"], a["g"]) if x))

"""child process for C13 hook traces: runs localmaxlabel from the IMAGED11_VERIF (hooks) build on the images of an
npz file, one trace file per (image, thread count); the thread counts of image k are in `threads_k`.
The requested thread count is read back (exit code 3 when it did not take effect).
A thread count 0 means "do not call cimaged11_omp_set_num_threads": the team size comes from the OpenMP environment this
child was started in (all such runs are made first, before the setter is ever called).  How many threads the runtime
really DELIVERS is seen by the parent from the per-thread logs (one `T` line per thread that ran), never from here.
usage: c13_hooks_child.py <cases.npz> <outdir>"""
import sys, os
import numpy as np

LAB_FILLS = [-7, 999999, 0, 12345]


def main():
    cases = np.load(sys.argv[1], allow_pickle=True)
    outdir = sys.argv[2]
    from ImageD11 import cImageD11
    names = cases["names"]
    st = {"n": 0}

    def run(k, nt):
        img = cases["img_%d" % k]
        path = os.path.join(outdir, "trace_%d_%d.txt" % (k, int(nt)))
        os.environ["IMAGED11_VERIF_TRACE"] = path
        lab = np.full(img.shape, LAB_FILLS[st["n"] % len(LAB_FILLS)], np.int32)
        st["n"] += 1
        wrk = np.full(img.shape, 77, np.uint8)
        cImageD11.localmaxlabel(img, lab, wrk)
        del os.environ["IMAGED11_VERIF_TRACE"]
        np.save(os.path.join(outdir, "labels_%d_%d.npy" % (k, int(nt))), lab)

    for k, name in enumerate(names):
        if 0 in [int(x) for x in cases["threads_%d" % k]]:
            run(k, 0)
    for k, name in enumerate(names):
        for nt in cases["threads_%d" % k]:
            if int(nt) == 0:
                continue
            cImageD11.cimaged11_omp_set_num_threads(int(nt))
            got = cImageD11.cimaged11_omp_get_max_threads()
            if got != int(nt):
                sys.stderr.write("cimaged11_omp_set_num_threads(%d) did not take effect: cimaged11_omp_get_max_threads() = %d\n"
                                 % (int(nt), got))
                sys.exit(3)
            run(k, nt)


if __name__ == "__main__":
    main()

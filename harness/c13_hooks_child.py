"""child process for C13 hook traces: runs localmaxlabel from the IMAGED11_VERIF (hooks) build on the images of an
npz file, one trace file per (image, thread count); the thread counts of image k are in `threads_k`.
The requested thread count is read back (exit code 3 when it did not take effect).
usage: c13_hooks_child.py <cases.npz> <outdir>"""
import sys, os
import numpy as np


def main():
    cases = np.load(sys.argv[1], allow_pickle=True)
    outdir = sys.argv[2]
    from ImageD11 import cImageD11
    names = cases["names"]
    for k, name in enumerate(names):
        img = cases["img_%d" % k]
        for nt in cases["threads_%d" % k]:
            cImageD11.cimaged11_omp_set_num_threads(int(nt))
            got = cImageD11.cimaged11_omp_get_max_threads()
            if got != int(nt):
                sys.stderr.write("cimaged11_omp_set_num_threads(%d) did not take effect: cimaged11_omp_get_max_threads() = %d\n"
                                 % (int(nt), got))
                sys.exit(3)
            path = os.path.join(outdir, "trace_%d_%d.txt" % (k, int(nt)))
            os.environ["IMAGED11_VERIF_TRACE"] = path
            lab = np.full(img.shape, -7, np.int32)
            wrk = np.full(img.shape, 77, np.uint8)
            n = cImageD11.localmaxlabel(img, lab, wrk)
            del os.environ["IMAGED11_VERIF_TRACE"]
            np.save(os.path.join(outdir, "labels_%d_%d.npy" % (k, int(nt))), lab)


if __name__ == "__main__":
    main()

"""C13 child: the dense thread sweep in THIS process' OpenMP environment (OMP_NUM_THREADS, OMP_THREAD_LIMIT, OMP_DYNAMIC ...).

usage: c13_env_child.py <plan.npz> <out.npz>        (PYTHONPATH = the shadow build, set by the parent)

plan.npz: names, img_<k>, requests_<k>.  A request r > 0 is made with cImageD11.cimaged11_omp_set_num_threads(r) and read
back; r = 0 means "do not call the setter": the team size then comes from the environment alone, so ALL requests 0 are
executed first, before the setter is ever called in this process.
For every (image, request) two calls with different previous buffer content: b = 0 constant fills (rotating), b = 1 the
label / work buffers as the previous call on ANOTHER image of the same shape left them (or other constant fills).
The child only executes and records: out.npz holds lab_<k> (requests x 2 x shape, int32), npk_<k> (requests x 2) and
maxthr_<k> (requests: cimaged11_omp_get_max_threads() at the time of the calls); the parent judges them against the
steepest-ascent definition.  Nothing of the expectation is taken from this process.
"""
import sys
import numpy as np

LAB_FILLS = [-7, 999999, 0, 12345]
WRK_FILLS = [77, 0, 5, 1, 2, 3, 4, 6, 7, 8, 9, 255]


def main():
    plan = np.load(sys.argv[1], allow_pickle=False)
    from ImageD11 import cImageD11
    names = plan["names"]
    out = {"start_max_threads": np.array([cImageD11.cimaged11_omp_get_max_threads()])}
    imgs = [plan["img_%d" % k] for k in range(len(names))]
    reqs = [[int(r) for r in plan["requests_%d" % k]] for k in range(len(names))]
    labs = [np.zeros((len(reqs[k]), 2) + imgs[k].shape, np.int32) for k in range(len(names))]
    npks = [np.full((len(reqs[k]), 2), -1, np.int64) for k in range(len(names))]
    maxt = [np.full(len(reqs[k]), -1, np.int64) for k in range(len(names))]
    prev = {}                   # shape -> (image index, labels, work) of the last call on that shape
    st = {"n": 0}

    def call(k, j, r):
        img = imgs[k]
        maxt[k][j] = cImageD11.cimaged11_omp_get_max_threads()
        for b in (0, 1):
            n = st["n"]
            st["n"] += 1
            p = prev.get(img.shape)
            if b == 1 and p is not None and p[0] != k:
                lab, wrk = p[1].copy(), p[2].copy()
            else:
                lab = np.full(img.shape, LAB_FILLS[(n + b) % len(LAB_FILLS)], np.int32)
                wrk = np.full(img.shape, WRK_FILLS[(n + 5 * b) % len(WRK_FILLS)], np.uint8)
            npks[k][j, b] = cImageD11.localmaxlabel(img, lab, wrk)
            labs[k][j, b] = lab
            prev[img.shape] = (k, lab, wrk)

    for k in range(len(names)):             # the environment's own team size first
        for j, r in enumerate(reqs[k]):
            if r == 0:
                call(k, j, r)
    for k in range(len(names)):
        for j, r in enumerate(reqs[k]):
            if r > 0:
                cImageD11.cimaged11_omp_set_num_threads(r)
                got = cImageD11.cimaged11_omp_get_max_threads()
                if got != r:
                    sys.stderr.write("cimaged11_omp_set_num_threads(%d) did not take effect: cimaged11_omp_get_max_threads() = %d\n"
                                     % (r, got))
                    sys.exit(3)
                call(k, j, r)
    for k in range(len(names)):
        out["lab_%d" % k] = labs[k]
        out["npk_%d" % k] = npks[k]
        out["maxthr_%d" % k] = maxt[k]
    np.savez(sys.argv[2], **out)


if __name__ == "__main__":
    main()

"""C14 - binding mode C: seeded larger cases run through the real code, logged as ndjson events and judged by
TLC against the definitions of specs/TraceSparse.tla.

Recipe kinds: coo (dense image -> sparse frame -> dense image; coo_recipe = a few lit pixels on shapes up to
65535 columns, full_recipe = selections up to the full image with the whole image logged, float cuts below zero
and off the binary32 grid, tall_mask_recipe; field threads = thread count of mask_to_coo's loops), ovl (one frame
pair, fresh objects), hist (hist_recipe: one overlaps_linear / overlaps_matrix pair through 6-8 different frame
pairs, chained ones also through pairrow with the frames stored out of omega order), range.

recipe  (JSON-able, everything needed to re-execute the case: saved in replay files)
  -> exec_*(recipe, mods)  runs the real API, returns (event, direct_failures)
  -> validate(events)      TLC evaluates the property's definitions on each event, one verdict per event
"""
import os, json, math
import numpy as np
import common
import c14_replay

DT = {"uint16": np.uint16, "uint32": np.uint32, "float32": np.float32}


def pair(v):
    """integer -> [hi, lo] with lo in 0..65535 (TLC has 32 bit integers)"""
    v = int(v)
    return [v // 65536, v % 65536]


def scaled(v, dname):
    """value of a pixel as the integer TLC sees: float32 data are multiples of 1/4"""
    if dname == "float32":
        k = float(v) * 4
        assert k == int(k), v
        return int(k)
    return int(v)


def scaled_cut(cut, dname, kernel=True):
    """the cut as the integer TLC compares the scaled pixel values with.  For integer v (all scaled values are
    integers)  v > c  <=>  v > floor(c), so cuts that are no multiples of 1/4 (or no binary32 numbers at all) have
    an exact integer stand-in.  kernel=True (tosparse_* / from_data_cut): uint16 takes the C int itself, uint32
    and float32 receive a C float, so c = float32(cut).  kernel=False (sparse_frame.threshold: a numpy comparison
    of the pixel array with the Python number): c = cut; the seeded float cuts are chosen such that no pixel
    value (a multiple of 1/4) lies between cut and float32(cut), whichever of the two numpy compares with."""
    if dname == "uint16":
        return int(math.floor(cut))
    c = float(np.float32(cut)) if kernel else cut
    return int(math.floor(4.0 * c)) if dname == "float32" else int(math.floor(c))


# ------------------------------------------------------------------------------------------------
# recipes

COO_SHAPES_API = [(2, 65534), (1, 65534), (65534, 1), (3, 4097), (5, 300), (64, 64), (1, 1), (2, 2)]
COO_SHAPES_RAW = [(1, 65535), (3, 65535), (65535, 1), (2, 65535), (7, 257)]


def _positions(rng, ns, nf, k):
    k = min(k, ns * nf)
    pos = set()
    corners = [(0, 0), (0, nf - 1), (ns - 1, 0), (ns - 1, nf - 1)]
    for c in corners:
        if rng.rand() < 0.6 and len(pos) < k:
            pos.add(c)
    while len(pos) < k:
        if rng.rand() < 0.3 and pos:        # neighbours in the same row: runs of consecutive pixels
            r, c = list(pos)[rng.randint(len(pos))]
            c = min(nf - 1, c + 1)
        else:
            r, c = int(rng.randint(ns)), int(rng.randint(nf))
        pos.add((r, c))
    pos = list(pos)
    rng.shuffle(pos)
    return [list(map(int, p)) for p in pos]


def _values(rng, dname, n):
    if dname == "uint16":
        pool = [1, 2, 255, 256, 32767, 32768, 65534, 65535]
        return [int(pool[rng.randint(len(pool))]) if rng.rand() < 0.4 else int(rng.randint(1, 65536)) for _ in range(n)]
    if dname == "uint32":
        pool = [1, 65535, 65536, 2 ** 24 - 1, 2 ** 24, 2 ** 31 - 1, 2 ** 31, 2 ** 32 - 1]
        return [int(pool[rng.randint(len(pool))]) if rng.rand() < 0.5 else int(rng.randint(1, 2 ** 24)) for _ in range(n)]
    # float32: multiples of 1/4 (exact), negative ones too
    pool = [0.25, 0.5, 1.0, 1.25, -0.25, -3.0, 1024.75, 4194303.75, 16777216.0]
    return [float(pool[rng.randint(len(pool))]) if rng.rand() < 0.5 else float(rng.randint(-400, 40000)) / 4.0
            or 0.25 for _ in range(n)]


def coo_recipe(rng, idx):
    dname = ["uint16", "uint32", "float32"][idx % 3]
    routes = ["from_data_mask", "from_data_mask+threshold", "from_data_mask+sort", "mask_to_coo",
              "from_data_cut", "tosparse", "from_data_cut+sort"]
    route = routes[(idx // 3) % len(routes)]
    if dname == "uint32" and route.startswith("from_data_cut"):
        route = "tosparse"                                    # from_data_cut takes uint16 / float32 only
    raw = route in ("mask_to_coo", "tosparse")
    shapes = COO_SHAPES_RAW if raw else COO_SHAPES_API
    ns, nf = shapes[rng.randint(len(shapes))]
    k = int(rng.randint(1, 120))
    pos = _positions(rng, ns, nf, k)
    vals = _values(rng, dname, len(pos))
    lit = [[p[0], p[1], v] for p, v in zip(pos, vals)]
    rec = {"prog": "big", "kind": "coo", "dtype": dname, "route": route, "ns": ns, "nf": nf, "lit": lit,
           "on": [], "off": [], "cut": 0, "maskdtype": ["int8", "bool", "uint8"][rng.randint(3)],
           "perm_seed": int(rng.randint(1 << 30)),
           "threads": [1, 2, 4, 16][(idx // 3) % 4]}           # mask_to_coo's two omp loops (the other routes ignore it)
    extra = _positions(rng, ns, nf, int(rng.randint(0, 20)))          # unlit pixels
    litpos = set((p[0], p[1]) for p in pos)
    extra = [p for p in extra if (p[0], p[1]) not in litpos]
    if route.startswith("from_data_mask") or route == "mask_to_coo":
        on = [p for p in pos if rng.rand() < 0.7]
        if not on:
            on = [pos[0]]               # at least one lit pixel is selected
        on = on + extra
        rec["on"] = on
        if route == "from_data_mask+threshold":
            onvals = sorted(set(v for p, v in zip(pos, vals) if p in on))
            cand = [v for v in onvals if v < max(onvals)] if dname != "float32" else \
                [v for v in onvals if v < max(onvals)]
            rec["cut"] = cand[rng.randint(len(cand))] if cand else (min(onvals) - 1 if onvals else -1)
            if dname != "float32":
                rec["cut"] = max(0, int(rec["cut"]))
    else:
        off = [p for p in pos if rng.rand() < 0.2] + extra
        rec["off"] = off
        offs = set((p[0], p[1]) for p in off)
        live = sorted(set(v for p, v in zip(pos, vals) if (p[0], p[1]) not in offs and v > 0))
        if dname == "uint32":
            live = [v for v in live if v < 2 ** 24]             # the cut travels as a C float
        cand = [0] + [v for v in live if v < max(live)] if live else [0]
        rec["cut"] = cand[rng.randint(len(cand))]
        # the property is about cuts "selecting at least one pixel" (an empty frame is None in the library):
        # if mask and cut leave nothing, switch the first lit pixel on with a positive value
        if not [v for p, v in zip(pos, vals) if (p[0], p[1]) not in offs and v > rec["cut"]]:
            rec["off"] = [p for p in off if (p[0], p[1]) != (pos[0][0], pos[0][1])]
            lit[0][2] = abs(lit[0][2]) or 1
            rec["cut"] = 0
    return rec


FULL_SHAPES = [(64, 64), (5, 300), (3, 3), (1, 1), (300, 5), (2, 2)]
FULL_ROUTES = [("from_data_mask", "uint16"), ("mask_to_coo", "uint16"), ("from_data_cut", "float32"),
               ("from_data_cut", "uint16"), ("tosparse", "uint32"), ("from_data_mask+threshold", "float32"),
               ("tosparse", "float32"), ("from_data_mask+sort", "uint32"), ("from_data_cut+sort", "float32")]
# float cuts: negative, not a multiple of 1/4 (so not a scaled integer), not binary32 numbers
FLOAT_CUTS = [-0.75, -0.3, 0.1, 0.3, -100.0, 0.0, -0.25]


def full_recipe(rng, idx):
    """selections up to the FULL image on shapes that TLC can hold completely (event field img): every pixel set
    in the mask / every pixel above the cut, float cuts below zero (zero pixels are selected too) and cuts that
    are not binary32 numbers, thread counts 2 / 4 / 16.  Plus one tall all-set mask through mask_to_coo."""
    route, dname = FULL_ROUTES[idx % len(FULL_ROUTES)]
    ns, nf = FULL_SHAPES[(idx // 2) % len(FULL_SHAPES)] if idx >= 3 else FULL_SHAPES[idx % 2]
    n = ns * nf
    vals = _values(rng, dname, n)
    if dname == "float32":          # some pixels exactly 0 and some below zero: a negative cut tells them apart
        for k in range(n):
            if rng.rand() < 0.25:
                vals[k] = [0.0, -0.25, -0.5, -1.0, -200.0][rng.randint(5)]
    elif rng.rand() < 0.5:
        for k in range(n):
            if rng.rand() < 0.1:
                vals[k] = 0
    lit = [[k // nf, k % nf, vals[k]] for k in range(n) if vals[k] != 0]
    rec = {"prog": "big", "kind": "coo", "dtype": dname, "route": route, "ns": ns, "nf": nf, "lit": lit, "full": True,
           "on": [], "off": [], "cut": 0, "maskdtype": ["int8", "bool", "uint8"][rng.randint(3)],
           "perm_seed": int(rng.randint(1 << 30)), "threads": [16, 2, 4][idx % 3]}
    allpx = [[k // nf, k % nf] for k in range(n)]
    if route.startswith("from_data_mask") or route == "mask_to_coo":
        rec["on"] = allpx if rng.rand() < 0.7 else [q for q in allpx if rng.rand() < 0.9] or allpx[:1]
        if route == "from_data_mask+threshold":         # below every pixel / inside the range
            rec["cut"] = FLOAT_CUTS[rng.randint(len(FLOAT_CUTS))] if rng.rand() < 0.6 else -1000.0
    else:
        rec["off"] = [] if rng.rand() < 0.5 else [q for q in allpx if rng.rand() < 0.05]
        if dname == "float32":
            rec["cut"] = FLOAT_CUTS[rng.randint(len(FLOAT_CUTS))]
        elif dname == "uint32":
            rec["cut"] = [0.5, 0.0, 1.75, 65535.5][rng.randint(4)]      # truncated by the kernel
        else:
            rec["cut"] = int([0, 0, 1, 254][rng.randint(4)])
    offs = set((q[0], q[1]) for q in rec["off"])
    sc = scaled_cut(rec["cut"], dname, kernel=not route.endswith("+threshold"))
    if route.startswith("from_data_mask") or route == "mask_to_coo":
        if route == "from_data_mask+threshold":
            ons = set((q[0], q[1]) for q in rec["on"])
            if not [1 for k in range(n) if (k // nf, k % nf) in ons and scaled(vals[k], dname) > sc]:
                rec["cut"] = -1000.0
    elif not [1 for k in range(n) if (k // nf, k % nf) not in offs and scaled(vals[k], dname) > sc]:
        # the quantifier wants at least one selected pixel: switch pixel (0, 0) on with a large value
        rec["off"] = [q for q in rec["off"] if (q[0], q[1]) != (0, 0)]
        rec["lit"] = [x for x in lit if (x[0], x[1]) != (0, 0)] + [[0, 0, 1024.75 if dname == "float32" else 65535]]
    return rec


def tall_mask_recipe(rng, nthreads):
    """every pixel of a 65534 x 1 / 1 x 65534 mask set, through mask_to_coo with several threads"""
    ns, nf = [(65534, 1), (1, 65534)][rng.randint(2)]
    return {"prog": "big", "kind": "coo", "dtype": "uint16", "route": "mask_to_coo", "ns": ns, "nf": nf, "lit": [],
            "on": [[k // nf, k % nf] for k in range(ns * nf)], "off": [], "cut": 0, "maskdtype": "int8",
            "perm_seed": 0, "threads": nthreads}


OVL_GRIDS = [(4, 65534), (2, 300), (50, 50), (1, 65534), (65534, 1), (3, 7)]


def ovl_recipe(rng, idx):
    scen = ["partial", "identical", "disjoint", "ending_together", "histogram_length", "one_pixel"][idx % 6]
    ns, nf = OVL_GRIDS[rng.randint(len(OVL_GRIDS))]
    k1 = int(rng.randint(1, 150))
    p1 = sorted(tuple(p) for p in _positions(rng, ns, nf, k1))
    if scen == "identical":
        p2 = list(p1)
    elif scen == "disjoint":
        if len(p1) > (ns * nf) // 2:
            p1 = p1[:max(1, (ns * nf) // 2)]
        s1 = set(p1)
        p2 = sorted(set(tuple(p) for p in _positions(rng, ns, nf, int(rng.randint(1, 150)))) - s1)
        if not p2:
            p2 = [[(r, c) for r in range(ns) for c in range(nf) if (r, c) not in s1][0]]
    elif scen == "one_pixel":
        p1 = p1[:1]
        p2 = list(p1) if rng.rand() < 0.5 else sorted(set(tuple(p) for p in _positions(rng, ns, nf, 3)))
    else:
        keep = [p for p in p1 if rng.rand() < 0.5]
        new = [tuple(p) for p in _positions(rng, ns, nf, int(rng.randint(0, 80)))]
        p2 = sorted(set(keep + new))
        if scen == "ending_together":
            last = max(p1[-1], p2[-1] if p2 else p1[-1])
            p1 = sorted(set(p1 + [last]))
            p2 = sorted(set(p2 + [last]))
        if not p2:
            p2 = [p1[-1]]
    n1 = int(rng.randint(1, 12))
    n2 = int(rng.randint(1, 12))
    nnzmax0 = 4 if rng.rand() < 0.5 else 16384
    npkmax0 = 2 if rng.rand() < 0.5 else 256
    l1 = [int(rng.randint(1, n1 + 1)) for _ in p1]
    l2 = [int(rng.randint(1, n2 + 1)) for _ in p2]
    if scen == "histogram_length":
        # few pixels, many labels: nnzmax is reallocated to max(n1, n2), the histogram has nnzmax + 1 cells and
        # the largest label id (= nnzmax = nt - 1) sits on a shared pixel
        n1 = len(p1) + int(rng.randint(1, 40))
        n2 = max(1, n1 - int(rng.randint(0, 3)))
        nnzmax0 = 4
        l1 = [int(rng.randint(1, n1 + 1)) for _ in p1]
        l2 = [int(rng.randint(1, n2 + 1)) for _ in p2]
        common_px = sorted(set(p1) & set(p2))
        if common_px:
            c = common_px[rng.randint(len(common_px))]
            l1[p1.index(c)] = n1
            l2[p2.index(c)] = n2
    return {"prog": "big", "kind": "ovl", "scenario": scen, "ns": ns, "nf": nf,
            "f1": {"row": [int(p[0]) for p in p1], "col": [int(p[1]) for p in p1], "lab": l1, "n": n1},
            "f2": {"row": [int(p[0]) for p in p2], "col": [int(p[1]) for p in p2], "lab": l2, "n": n2},
            "nnzmax0": nnzmax0, "npkmax0": npkmax0}


# ------------------------------------------------------------------------------------------------
# execution on the real code

def exec_coo(rec, m):
    """returns (event or None, failures)"""
    J = c14_replay.Judge()
    dname, route, ns, nf = rec["dtype"], rec["route"], rec["ns"], rec["nf"]
    dt = DT[dname]
    data = np.zeros((ns, nf), dt)
    for r, c, v in rec["lit"]:
        data[r, c] = v
    full = bool(rec.get("full"))
    ev = {"id": rec.get("id", 0), "kind": "coo", "ns": ns, "nf": nf,
          "lit": [] if full else [[r, c] + pair(scaled(v, dname)) for r, c, v in rec["lit"]],
          "full": full, "img": [pair(scaled(v, dname)) for v in data.ravel().tolist()] if full else [],
          "on": rec["on"], "off": rec["off"],
          "cut": pair(scaled_cut(rec["cut"], dname, kernel=not route.endswith("+threshold"))),
          "hasval": True, "hasdense": False, "dense": [], "hasdense2": False, "dense_out": [],
          "hasdense3": False, "dense_arr": [], "out_row": [], "out_col": [], "out_val": [], "ret": -1}
    fr = None
    nthr = int(rec.get("threads", 1))
    tag = "[big %s %dx%d%s]" % (dname, ns, nf, ", threads=%d" % nthr if nthr != 1 else "")

    seen = []

    def threaded(fn, *a):
        def run():
            seen.append(int(m.c.cimaged11_omp_get_max_threads()))
            return fn(*a)
        return c14_replay.with_threads(m, nthr, run)

    def guard():        # vacuity guard of the thread sweep (not a verdict about the code under test)
        if seen and seen[-1] != nthr:
            raise common.MachineryError("cimaged11_omp_set_num_threads(%d) did not take effect: %r" % (nthr, seen))
    if route.startswith("from_data_mask") or route == "mask_to_coo":
        mdt = {"int8": np.int8, "bool": bool, "uint8": np.uint8}[rec["maskdtype"]]
        msk = np.zeros((ns, nf), mdt)
        for r, c in rec["on"]:
            msk[r, c] = 1
        if route == "mask_to_coo":
            ev["mode"] = "mask"
            nnz = len(rec["on"])
            i = np.full(nnz, c14_replay.P16, np.uint16)
            j = np.full(nnz, c14_replay.P16, np.uint16)
            w = np.full(ns, -1, np.int32)
            ok, ret = J.call("cImageD11.mask_to_coo" + tag, threaded, m.c.mask_to_coo, msk.astype(np.int8), i, j, w)
            guard()
            if not ok:
                return None, J.fails
            J.eq("cImageD11.mask_to_coo" + tag, "return", int(ret), 0)
            ev.update(out_row=i.tolist(), out_col=j.tolist(), hasval=False, ret=nnz)
            # w = cumulative pixel count per row (the model's nrow after the cumsum loop)
            cnt = np.cumsum((msk != 0).sum(axis=1))
            J.eq("cImageD11.mask_to_coo" + tag, "w", w, cnt.astype(np.int32))
            return ev, J.fails
        ok, fr = J.call("sparseframe.from_data_mask" + tag, threaded, m.sf.from_data_mask, msk, data, {})
        guard()
        if not ok:
            return None, J.fails
        ev["mode"] = "mask"
        if route == "from_data_mask+threshold":
            ok, fr = J.call("sparse_frame.threshold" + tag, fr.threshold, rec["cut"])
            if not ok:
                return None, J.fails
            ev["mode"] = "mask_cut"
    else:
        msk = np.ones((ns, nf), np.uint8)
        for r, c in rec["off"]:
            msk[r, c] = 0
        ev["mode"] = "cut"
        if route == "tosparse":
            row = np.full((ns, nf), c14_replay.P16, np.uint16)
            col = np.full((ns, nf), c14_replay.P16, np.uint16)
            val = np.full((ns, nf), c14_replay.poison_of(dt), dt)
            kname = {"uint16": "tosparse_u16", "uint32": "tosparse_u32", "float32": "tosparse_f32"}[dname]
            kcut = int(rec["cut"]) if dname == "uint16" else float(rec["cut"])
            if dname == "uint32":
                ok, ret = J.call("cImageD11." + kname + tag, m.c.tosparse_u32, data, msk, row.ravel(), col.ravel(),
                                 val.ravel(), kcut)
            else:
                ok, ret = J.call("cImageD11." + kname + tag, getattr(m.c, kname), data, msk, row, col, val, kcut)
            if not ok:
                return None, J.fails
            ret = int(ret)
            if not (0 <= ret <= ns * nf):
                J.fails.append(("cImageD11." + kname, "mismatch", "return %d outside 0..ns*nf" % ret))
                return None, J.fails
            # cells after the returned count must be untouched
            J.eq("cImageD11." + kname + tag, "row tail untouched",
                 bool((row.ravel()[ret:] == c14_replay.P16).all() and (col.ravel()[ret:] == c14_replay.P16).all()), True)
            ev.update(out_row=row.ravel()[:ret].tolist(), out_col=col.ravel()[:ret].tolist(),
                      out_val=[pair(scaled(v, dname)) for v in val.ravel()[:ret].tolist()], ret=ret)
            return ev, J.fails
        kcut = int(rec["cut"]) if dname == "uint16" else float(rec["cut"])
        kw = {} if not rec["off"] else {"detectormask": msk}
        ok, fr = J.call("sparseframe.from_data_cut" + tag, m.sf.from_data_cut, data, kcut, {}, **kw)
        if not ok:
            return None, J.fails
    if route.endswith("+sort"):
        perm = np.random.RandomState(rec["perm_seed"]).permutation(fr.nnz)
        fr.reorder(perm)
        ok, _ = J.call("sparse_frame.sort" + tag, fr.sort)
        if not ok:
            return None, J.fails
    px = fr.pixels["intensity"]
    J.eq("sparse_frame" + tag, "intensity dtype", str(px.dtype), dname)
    ev.update(out_row=fr.row.tolist(), out_col=fr.col.tolist(),
              out_val=[pair(scaled(v, dname)) for v in px.tolist()], ret=int(fr.nnz))
    def nonzero(d):
        rr, cc = np.nonzero(np.asarray(d))
        dv = np.asarray(d)[rr, cc]
        return [[int(r), int(c)] + pair(scaled(v, dname)) for r, c, v in zip(rr.tolist(), cc.tolist(), dv.tolist())]
    ok, d = J.call("sparse_frame.to_dense" + tag, fr.to_dense, "intensity")
    if ok:
        J.eq("sparse_frame.to_dense" + tag, "shape", tuple(d.shape), (ns, nf))
        ev["hasdense"] = True
        ev["dense"] = nonzero(d)
    # a caller's array full of a poison value; the intensity array itself as `data`
    out = np.full((ns, nf), c14_replay.poison_of(dt), dt)
    ok, d = J.call("sparse_frame.to_dense(out=dirty)" + tag, fr.to_dense, "intensity", out)
    if ok:
        ev["hasdense2"] = True
        ev["dense_out"] = nonzero(out)
    ok, d = J.call(c14_replay.TD_ARRAY + tag, fr.to_dense, px)
    if ok:
        J.eq(c14_replay.TD_ARRAY + tag, "shape", tuple(np.asarray(d).shape), (ns, nf))
        ev["hasdense3"] = True
        ev["dense_arr"] = nonzero(d)
    J.call("sparse_frame.is_sorted" + tag, fr.is_sorted)
    return ev, J.fails


def exec_ovl(rec, m):
    J = c14_replay.Judge()
    ns, nf = rec["ns"], rec["nf"]
    f1, f2 = rec["f1"], rec["f2"]
    r1, c1, l1 = np.array(f1["row"], np.uint16), np.array(f1["col"], np.uint16), np.array(f1["lab"], np.int32)
    r2, c2, l2 = np.array(f2["row"], np.uint16), np.array(f2["col"], np.uint16), np.array(f2["lab"], np.int32)
    n1, n2 = f1["n"], f2["n"]
    tag = "[big %s]" % rec.get("scenario", "")
    ev = {"id": rec.get("id", 0), "kind": "ovl", "ns": ns, "nf": nf, "f1": f1, "f2": f2,
          "lin": {"has": False, "nedge": 0, "none": False, "rcl": []},
          "mat": {"has": False, "nov": 0, "res": []}, "ovl": {"has": False, "trip": []}}
    ol = m.sf.overlaps_linear(nnzmax=rec["nnzmax0"])
    ok, ans = J.call("sparseframe.overlaps_linear" + tag, c14_replay._quiet, ol, r1, c1, l1, n1, r2, c2, l2, n2)
    if ok:
        ev["lin"] = {"has": True, "nedge": int(ans[0]), "none": ans[1] is None,
                     "rcl": [] if ans[1] is None else np.asarray(ans[1]).tolist()}
    om = m.sf.overlaps_matrix(npkmax=rec["npkmax0"])
    ok, ans = J.call("sparseframe.overlaps_matrix" + tag, c14_replay._quiet, om, r1, c1, l1, n1, r2, c2, l2, n2)
    if ok:
        ev["mat"] = {"has": True, "nov": int(ans[0]), "res": np.asarray(ans[1]).tolist()}
    fa = m.sf.sparse_frame(r1, c1, (ns, nf), pixels={"lab": l1})
    fa.meta["lab"] = {"nlabel": n1}
    fb = m.sf.sparse_frame(r2, c2, (ns, nf), pixels={"lab": l2})
    fb.meta["lab"] = {"nlabel": n2}
    ok, mtx = J.call("sparseframe.overlaps" + tag, m.sf.overlaps, fa, "lab", fb, "lab")
    if ok:
        J.eq("sparseframe.overlaps" + tag, "shape", tuple(mtx.shape), (n1, n2))
        co = mtx.tocoo()
        ev["ovl"] = {"has": True, "trip": [[int(a) + 1, int(b) + 1, int(v)] for a, b, v in
                                           zip(co.row.tolist(), co.col.tolist(), co.data.tolist())]}
    if m.props is not None and ev["lin"]["has"]:
        s = c14_replay._scan(m, [(r1, c1, l1, n1), (r2, c2, l2, n2)], (ns, nf), [0.0, 1.0])
        ok, pairs = J.call("sinograms.properties.pairrow" + tag, c14_replay._quiet, m.props.pairrow, s, 0)
        if ok:      # the consumer must hand on exactly what overlaps_linear returned
            a = pairs.get((0, 0, 0, 1))
            J.eq("sinograms.properties.pairrow" + tag, "nedge", None if a is None else int(a[0]), ev["lin"]["nedge"])
            if a is not None and a[1] is not None:
                J.eq("sinograms.properties.pairrow" + tag, "rcl", np.asarray(a[1]).tolist(), ev["lin"]["rcl"])
    return ev, J.fails


def _next_frame(rng, ns, nf, f1, scen):
    """a second frame for the given first one (which is left as it is)"""
    p1 = list(zip(f1["row"], f1["col"]))
    s1 = set(p1)
    if scen == "identical":
        p2 = list(p1)
    elif scen == "disjoint":
        p2 = sorted(set(tuple(q) for q in _positions(rng, ns, nf, int(rng.randint(1, 150)))) - s1)
        if not p2:
            free = [(r, c) for r in range(min(ns, 3)) for c in range(min(nf, 400)) if (r, c) not in s1]
            p2 = free[:1] or [p1[0]]
    elif scen == "small":
        p2 = sorted(set([p1[rng.randint(len(p1))]] + [tuple(q) for q in _positions(rng, ns, nf, int(rng.randint(0, 3)))]))
    else:   # partial / many_labels
        keep = [q for q in p1 if rng.rand() < 0.5]
        p2 = sorted(set(keep + [tuple(q) for q in _positions(rng, ns, nf, int(rng.randint(0, 120)))])) or [p1[-1]]
    n2 = int(rng.randint(1, 12))
    if scen == "many_labels":       # more labels than pixels: the object grows on the label count
        n2 = len(p2) + int(rng.randint(1, 60))
    l2 = [int(rng.randint(1, n2 + 1)) for _ in p2]
    if scen == "many_labels":
        common_px = sorted(s1 & set(p2))
        if common_px:               # the largest label id sits on a shared pixel
            l2[p2.index(common_px[rng.randint(len(common_px))])] = n2
    return {"row": [int(q[0]) for q in p2], "col": [int(q[1]) for q in p2], "lab": l2, "n": n2}


HIST_SCEN = ["partial", "many_labels", "small", "disjoint", "partial", "identical", "many_labels", "small"]


def hist_recipe(rng, idx, ncalls):
    """ONE overlaps_linear / overlaps_matrix object through ncalls different frame pairs: large then small, many
    labels then few, disjoint in between.  chain: consecutive frames of one scan (also run through pairrow with
    the frames stored out of omega order and an empty frame in between)."""
    chain = idx % 2 == 0
    ns, nf = OVL_GRIDS[rng.randint(len(OVL_GRIDS))]
    calls = []
    for k in range(ncalls):
        if not chain:
            ns, nf = OVL_GRIDS[rng.randint(len(OVL_GRIDS))]
        if chain and calls:
            f1 = calls[-1]["f2"]
        else:
            k1 = int(rng.randint(1, 150))
            p1 = sorted(tuple(q) for q in _positions(rng, ns, nf, k1))
            n1 = int(rng.randint(1, 12))
            f1 = {"row": [int(q[0]) for q in p1], "col": [int(q[1]) for q in p1],
                  "lab": [int(rng.randint(1, n1 + 1)) for _ in p1], "n": n1}
        scen = HIST_SCEN[(idx + k) % len(HIST_SCEN)]
        calls.append({"ns": ns, "nf": nf, "scenario": scen, "f1": f1, "f2": _next_frame(rng, ns, nf, f1, scen)})
    return {"prog": "big", "kind": "hist", "chain": chain, "calls": calls, "nnzmax0": [4, 16384][idx % 2],
            "npkmax0": [2, 256][(idx // 2) % 2], "perm_seed": int(rng.randint(1 << 30))}


HIST_ID0 = 100000


def exec_hist(rec, m):
    """returns (events, failures): one "ovl" event per call with the answers of the two re-used objects (id
    HIST_ID0 + 100 * recipe + 2 * call) and, for chained histories, one per call with pairrow's answer (id + 1)"""
    J = c14_replay.Judge()
    evs = []
    base = HIST_ID0 + 100 * rec.get("id", 0)
    ol = m.sf.overlaps_linear(nnzmax=rec["nnzmax0"])
    om = m.sf.overlaps_matrix(npkmax=rec["npkmax0"])

    def blank(k, which, call):
        return {"id": base + 2 * k + which, "kind": "ovl", "ns": call["ns"], "nf": call["nf"], "f1": call["f1"],
                "f2": call["f2"], "lin": {"has": False, "nedge": 0, "none": False, "rcl": []},
                "mat": {"has": False, "nov": 0, "res": []}, "ovl": {"has": False, "trip": []}}
    for k, call in enumerate(rec["calls"]):
        a1, a2 = c14_replay._arrs(call["f1"]), c14_replay._arrs(call["f2"])
        ev = blank(k, 0, call)
        tag = "[big history, call %d]" % (k + 1)
        ok, ans = J.call("sparseframe.overlaps_linear" + tag, c14_replay._quiet, ol, *(a1 + a2))
        if ok:
            ev["lin"] = {"has": True, "nedge": int(ans[0]), "none": ans[1] is None,
                         "rcl": [] if ans[1] is None else np.asarray(ans[1]).tolist()}
        ok, ans = J.call("sparseframe.overlaps_matrix" + tag, c14_replay._quiet, om, *(a1 + a2))
        if ok:
            ev["mat"] = {"has": True, "nov": int(ans[0]), "res": np.asarray(ans[1]).tolist()}
        evs.append(ev)
    if rec["chain"] and m.props is not None:
        calls = rec["calls"]
        shape = (calls[0]["ns"], calls[0]["nf"])
        chain = [calls[0]["f1"]] + [cl["f2"] for cl in calls]
        rs = np.random.RandomState(rec["perm_seed"])
        # the empty frame sits at one end of the omega order so that every pair of the history is still visited
        order = list(range(len(chain)))
        order.insert([0, len(chain)][int(rs.randint(2))], -1)
        nfr = len(order)
        perm = rs.permutation(nfr)
        if list(perm) == sorted(perm):
            perm = perm[::-1].copy()
        frames, omega = [None] * nfr, [0.0] * nfr
        empty = (np.zeros(0, np.uint16), np.zeros(0, np.uint16), np.zeros(0, np.int32), 0)
        for rank, ci in enumerate(order):
            frames[perm[rank]] = empty if ci < 0 else c14_replay._arrs(chain[ci])
            omega[perm[rank]] = -3.0 + 0.05 * rank
        route = "sinograms.properties.pairrow[big history, %d frames, unsorted omega]" % nfr
        ok, pairs = J.call(route, c14_replay._quiet, m.props.pairrow, c14_replay._scan(m, frames, shape, omega), 9)
        if ok:
            want = {}
            for rank in range(1, nfr):
                a, b = order[rank - 1], order[rank]
                if a >= 0 and b >= 0:
                    want[(9, int(perm[rank - 1]), 9, int(perm[rank]))] = b - 1
            J.eq(route, "keys", sorted(tuple(int(x) for x in kk) for kk in pairs.keys()), sorted(want.keys()))
            for kk, k in sorted(want.items()):
                if kk in pairs:
                    ans = pairs[kk]
                    ev = blank(k, 1, calls[k])
                    ev["lin"] = {"has": True, "nedge": int(ans[0]), "none": ans[1] is None,
                                 "rcl": [] if ans[1] is None else np.asarray(ans[1]).tolist()}
                    evs.append(ev)
    return evs, J.fails


def range_checks(m):
    """return codes 1 / 2 of mask_to_coo (the model's M2C_Check): only reachable with > 65535 rows / columns"""
    J = c14_replay.Judge()
    for shape, exp in (((65536, 1), 1), ((1, 65536), 2)):
        msk = np.zeros(shape, np.int8)
        msk[0, 0] = 1
        i = np.full(1, c14_replay.P16, np.uint16)
        j = np.full(1, c14_replay.P16, np.uint16)
        w = np.full(shape[0], -1, np.int32)
        route = "cImageD11.mask_to_coo[range %dx%d]" % shape
        ok, ret = J.call(route, m.c.mask_to_coo, msk, i, j, w)
        if ok:
            J.eq(route, "return", int(ret), exp)
            J.eq(route, "i untouched", int(i[0]), c14_replay.P16)
            J.eq(route, "w untouched", bool((w == -1).all()), True)
    return J.fails


# ------------------------------------------------------------------------------------------------
CLAUSES = {"coo": ["count", "set", "order", "inimage", "dense", "dense_out", "dense_arr"],
           "ovl": ["lin_set", "lin_once", "lin_none", "mat_set", "mat_once", "lin_eq_mat", "ovl_set", "ovl_once"]}


def validate(chk, events, name):
    """TLC evaluates TraceSparse on the events; returns {id: verdict}"""
    if not events:
        return {}
    path = os.path.join(common.scratch(), "c14_trace_%s.ndjson" % name)
    with open(path, "w") as f:
        for e in events:
            f.write(json.dumps(e) + "\n")
    res = common.run_tlc("TraceSparse", os.path.join(common.SPECS, "TraceSparse.cfg"), workers=1,
                         env_extra={"TRACE_FILE": path}, timeout=1500, heap="4g")
    chk.add_tlc("TraceSparse %s (%d events)" % (name, len(events)), res)
    if res.violated:
        raise common.MachineryError("TraceSparse: unexpected violation %s" % res.violated)
    ver = {}
    for line in res.printed:
        v = json.loads(line)
        ver[v["id"]] = v
    if len(ver) != len(events):
        raise common.MachineryError("TraceSparse: %d verdicts for %d events\n%s" % (len(ver), len(events), res.stdout[-2000:]))
    for v in ver.values():
        if not v["pre"]:
            raise common.MachineryError("TraceSparse: harness produced an event outside the precondition: %s" % v)
    return ver


def judge_events(chk, F, recipes, events, name):
    """TLC verdicts for the logged events of the executed recipes; failing clauses go to F"""
    if not events:
        return {}
    ver = validate(chk, events, name)
    byid = {r["id"]: r for r in recipes}
    for rid, v in ver.items():
        rec = byid[rid] if rid < HIST_ID0 else byid[(rid - HIST_ID0) // 100]
        fails = []
        for cl in CLAUSES[v["kind"]]:
            if not v[cl]:
                route = _route_of(rec, cl, rid)
                fails.append((route, "clause " + cl, "%s: clause %s of TraceSparse does not hold on the logged "
                              "result of a seeded %s case" % (route, cl, rec["kind"])))
        if fails:
            F.add(rec, fails)
    coo = [r for r in recipes if r.get("kind") == "coo"]
    hist = [r for r in recipes if r.get("kind") == "hist"]
    chk.notes["seeded_cases"] = {
        "recipes": len(recipes), "events_judged_by_TLC": len(events),
        "ovl_with_pairs": sum(1 for v in ver.values() if v["kind"] == "ovl" and v["npairs"] > 0),
        # vacuity counts of the instance families
        "full_image_events (whole image in the event)": sum(1 for e in events if e.get("full")),
        "selection_is_every_pixel": sum(1 for e in events if e["kind"] == "coo" and e["ret"] == e["ns"] * e["nf"] and e["ret"] > 4),
        "float_cut_negative": sum(1 for r in coo if r["dtype"] == "float32" and r["route"] != "mask_to_coo" and float(r["cut"]) < 0),
        "cut_not_a_scaled_integer": sum(1 for r in coo if r["dtype"] != "uint16" and float(r["cut"]) * 4 != int(float(r["cut"]) * 4)),
        "mask_routes_by_threads": {str(t): sum(1 for r in coo if r.get("threads", 1) == t and
                                               (r["route"].startswith("from_data_mask") or r["route"] == "mask_to_coo"))
                                   for t in (1, 2, 4, 16)},
        "to_dense_dirty_out": sum(1 for e in events if e.get("hasdense2")),
        "to_dense_array": sum(1 for e in events if e.get("hasdense3")),
        "histories": len(hist), "history_calls_on_shared_objects": sum(1 for e in events if e["id"] >= HIST_ID0 and e["id"] % 2 == 0),
        "history_calls_through_pairrow": sum(1 for e in events if e["id"] >= HIST_ID0 and e["id"] % 2 == 1),
        "history_calls_sharing_no_pixel": sum(1 for e in events if e["id"] >= HIST_ID0 and ver[e["id"]]["npairs"] == 0)}
    e = events[len(events) // 2]
    chk.sample({"seeded_event_kind": e["kind"], "id": e["id"], "verdict": ver[e["id"]]}, limit=8)
    return ver


def _route_of(rec, clause, rid=0):
    if rec["kind"] == "hist":
        if rid % 2 == 1:
            return "sinograms.properties.pairrow (scan with unsorted omega and an empty frame)"
        if clause.startswith("lin_eq"):
            return "sparseframe.overlaps_linear vs overlaps_matrix (objects with a history)"
        return {"lin": "sparseframe.overlaps_linear (object with a history)",
                "mat": "sparseframe.overlaps_matrix (object with a history)"}[clause.split("_")[0]]
    if rec["kind"] == "coo":
        r = rec["route"]
        if clause == "dense":
            return "sparse_frame.to_dense"
        if clause == "dense_out":
            return "sparse_frame.to_dense(out=dirty)"
        if clause == "dense_arr":
            return c14_replay.TD_ARRAY
        return {"mask_to_coo": "cImageD11.mask_to_coo", "tosparse": "cImageD11.tosparse_" + {"uint16": "u16", "uint32": "u32", "float32": "f32"}[rec["dtype"]],
                "from_data_mask": "sparseframe.from_data_mask", "from_data_cut": "sparseframe.from_data_cut",
                "from_data_mask+threshold": "sparse_frame.threshold", "from_data_mask+sort": "sparse_frame.sort",
                "from_data_cut+sort": "sparse_frame.sort"}[r]
    if clause.startswith("lin_eq"):
        return "sparseframe.overlaps_linear vs overlaps_matrix"
    return {"lin": "sparseframe.overlaps_linear", "mat": "sparseframe.overlaps_matrix",
            "ovl": "sparseframe.overlaps"}[clause.split("_")[0]]


def make_recipes(tier):
    rng = np.random.RandomState(common.seed() + 1401)
    ncoo, novl, nfull, nhist, ncalls = (63, 60, 18, 4, 6) if tier == "quick" else (420, 360, 108, 24, 8)
    recipes = []
    for idx in range(ncoo):
        recipes.append(coo_recipe(rng, idx))
    for idx in range(novl):
        recipes.append(ovl_recipe(rng, idx))
    recipes.append({"prog": "big", "kind": "range"})
    # appended (the recipes above keep their ids and their random stream)
    rng2 = np.random.RandomState(common.seed() + 1402)
    for idx in range(nfull):
        recipes.append(full_recipe(rng2, idx))
    for nt in ((16,) if tier == "quick" else (2, 4, 16)):
        recipes.append(tall_mask_recipe(rng2, nt))
    for idx in range(nhist):
        recipes.append(hist_recipe(rng2, idx, ncalls))
    for k, r in enumerate(recipes):
        r["id"] = k
    return recipes


def selftest(mods):
    """a correct event is accepted by TraceSparse, the same event with one corrupted field is rejected"""
    chk = common.Check("C14", "selftest")
    rng = np.random.RandomState(7)
    rec = coo_recipe(rng, 0)
    rec.update(route="tosparse", dtype="uint16", id=0)
    rec["off"] = []
    rec["cut"] = 0
    ev, fl = exec_coo(rec, mods)
    orec = dict(ovl_recipe(rng, 0), id=1)
    oev, ofl = exec_ovl(orec, mods)
    if ev is None or oev is None or not oev["mat"]["has"] or not oev["mat"]["res"]:
        raise common.MachineryError("selftest: could not build events")
    bad = json.loads(json.dumps(ev))
    bad["id"] = 2
    bad["out_col"][0] = (bad["out_col"][0] + 1) % bad["nf"]
    obad = json.loads(json.dumps(oev))
    obad["id"] = 3
    obad["mat"]["res"][0][2] += 1
    ver = validate(chk, [ev, oev, bad, obad], "selftest")
    if not all(ver[0][c] for c in CLAUSES["coo"]) or not all(ver[1][c] for c in ("mat_set", "mat_once")):
        raise common.MachineryError("selftest: TraceSparse rejects a correct event: %s %s" % (ver[0], ver[1]))
    if ver[2]["set"] or ver[3]["mat_set"]:
        raise common.MachineryError("selftest: TraceSparse accepts a corrupted event")
    return True

"""dispatcher:  run.py <ID> [--tier quick|thorough] [--replay path]

exit 0 : property held on everything explored (KNOWN-FINDING lines possible)
exit 1 : violation(s), one `VIOLATION property=<id> replay=<path>` line each
exit 2 : machinery failure (never caused by something the code under test did right or wrong
         at the level of the property - build errors of an edited tree are reported as exit 2)
"""
import sys, os, argparse, importlib, traceback
sys.path.insert(0, os.path.dirname(os.path.abspath(__file__)))
import common


def main():
    ap = argparse.ArgumentParser()
    ap.add_argument("prop")
    ap.add_argument("--tier", default=os.environ.get("VERIF_TIER", "quick"), choices=["quick", "thorough"])
    ap.add_argument("--replay", default=None)
    a = ap.parse_args()
    os.chdir(common.VERIF)
    try:
        mod = importlib.import_module("props." + a.prop.lower())
        rc = mod.run(a.tier, a.replay)
    except common.MachineryError as e:
        print("MACHINERY-ERROR property=%s %s" % (a.prop, e))
        traceback.print_exc()
        rc = 2
    except Exception as e:
        print("MACHINERY-ERROR property=%s unexpected %r" % (a.prop, e))
        traceback.print_exc()
        rc = 2
    sys.stdout.flush()
    sys.exit(rc)


if __name__ == "__main__":
    main()

"""dispatcher:  run.py <ID> [--tier quick|thorough] [--replay path]

exit 0 : property held on everything explored (KNOWN-FINDING lines possible)
exit 1 : violation(s), one `VIOLATION property=<id> replay=<path>` line each
exit 2 : machinery failure (never caused by something the code under test did right or wrong
         at the level of the property - build errors of an edited tree are reported as exit 2)
"""
import sys, os, argparse, importlib, traceback
sys.path.insert(0, os.path.dirname(os.path.abspath(__file__)))
import common


def after_error(prop, msg):
    """A machinery error (vacuity guard, parse failure, harness exception) AFTER the check had already recorded
    violations of the tree under test is a consequence of that tree (a run cut short, a crash on broken output):
    the recorded violations are the verdict (exit 1).  With no violation recorded it is a machinery failure (exit 2)."""
    traceback.print_exc()
    pending = [c for c in common.ACTIVE_CHECKS if c.violations and not c.finished and c.prop == prop.upper()]
    if pending:
        chk = pending[-1]
        chk.notes["machinery_error_after_violations"] = msg[:2000]
        chk.exhaustive = False
        print("note: %s (after %d recorded violation(s); the violations are the verdict)" % (msg[:300], len(chk.violations)))
        return chk.finish()
    print("MACHINERY-ERROR property=%s %s" % (prop, msg))
    return 2


def main():
    ap = argparse.ArgumentParser()
    ap.add_argument("prop")
    ap.add_argument("--tier", default=os.environ.get("VERIF_TIER", "quick"), choices=["quick", "thorough"])
    ap.add_argument("--replay", default=None)
    a = ap.parse_args()
    os.chdir(common.VERIF)
    os.environ.pop("VERIF_SCRATCH_ROOT", None)   # this process owns the scratch directory; every descendant nests in it
    common.scratch()
    try:
        mod = importlib.import_module("props." + a.prop.lower())
        rc = mod.run(a.tier, a.replay)
    except common.MachineryError as e:
        rc = after_error(a.prop, "%s" % (e,))
    except Exception as e:
        rc = after_error(a.prop, "unexpected %r" % (e,))
    sys.stdout.flush()
    sys.exit(rc)


if __name__ == "__main__":
    main()

"""C18 - widened replay: the histories of Storage.tla executed with arbitrary finite doubles.

The model (TLC) supplies the *structure* expected after every step (which files exist, their kind,
titles, dataset names, dtype classes, lengths, parameter names and types, ok / err); the *values* are
judged step by step by relations between consecutive observations of the real state, in exact
rational arithmetic:

   text writers   |d - x| <= 0.5 * 10^-p            "%.pf"   (d = decimal in the file, x = double in memory)
                  |d - x| <= 0.5 * 10^(E - n + 1)   n significant digits, E = floor(log10 |x|)  (%.4e, %.9g, %g)
   text readers   value in memory == the double nearest to the decimal in the file
   hdf            exact equality (integers for integer typed columns holding integral values)
   everything an operation does not touch is unchanged
   hdf routes keep the sign of zero (same_ds; text routes are not asked for it: "-0.0000" is within
   the print precision)

Python's % operator is not used anywhere as an oracle.
"""
from __future__ import print_function
import os, random, math, traceback
from fractions import Fraction
import numpy as np
import c18_replay as R

TEN = Fraction(10)
HALF = Fraction(1, 2)

# ------------------------------------------------------------------------------------------
# PINNED copies of the four class lists of ImageD11/columnfile.py:38-109 of the unchanged tree, as
# literal data (never imported from the module under test), with the print precision documented
# for each class (columnfile.py:123-130; a title in no list is written with "%f").  INTS is also
# the list the two hdf writers test to store int64 (columnfile.py:596,631).
PINNED_FLOATS = [        # "%.4f"
    "fc", "sc", "omega", "f_raw", "s_raw", "sigf", "sigs", "covsf", "sigo", "covso", "covfo",
    "sum_intensity", "sum_intensity^2", "IMax_int", "IMax_o", "avg_intensity", "Min_o", "Max_o",
    "dety", "detz", "gx", "gy", "gz", "hr", "kr", "zr", "xl", "yl", "zl", "drlv2", "tth", "eta",
    "tth_hist_prob"]
PINNED_INTS = [          # "%.0f", int64 in hdf
    "Number_of_pixels", "IMax_f", "IMax_s", "Min_f", "Max_f", "Min_s", "Max_s", "spot3d_id",
    "spot4d_id", "h", "k", "l", "onfirst", "onlast", "labels", "Grain", "grainno", "grain_id",
    "IKEY", "npk2d"]
PINNED_LONGFLOATS = [    # "%.12f"
    "U11", "UBI11", "U12", "UBI12", "U13", "UBI13", "U21", "UBI21", "U22", "UBI22", "U23", "UBI23",
    "U31", "UBI31", "U32", "UBI32", "U33", "UBI33"]
PINNED_EXPONENTIALS = [  # "%.4e"
    "eps11", "eps11_s", "sig11", "sig11_s", "eps22", "eps22_s", "sig22", "sig22_s",
    "eps33", "eps33_s", "sig33", "sig33_s", "eps23", "eps23_s", "sig23", "sig23_s",
    "eps13", "eps13_s", "sig13", "sig13_s", "eps12", "eps12_s", "sig12", "sig12_s",
    "e11e11", "e11e11_s", "s11s11", "s11s11_s", "e11e22", "e11e22_s", "s11s22", "s11s22_s",
    "e11e33", "e11e33_s", "s11s33", "s11s33_s", "e11e23", "e11e23_s", "s11s23", "s11s23_s",
    "e11e13", "e11e13_s", "s11s13", "s11s13_s", "e11e12", "e11e12_s", "s11s12", "s11s12_s",
    "e22e22", "e22e22_s", "s22s22", "s22s22_s", "e22e33", "e22e33_s", "s22s33", "s22s33_s",
    "e22e23", "e22e23_s", "s22s23", "s22s23_s", "e22e13", "e22e13_s", "s22s13", "s22s13_s",
    "e22e12", "e22e12_s", "s22s12", "s22s12_s", "e33e33", "e33e33_s", "s33s33", "s33s33_s",
    "e33e23", "e33e23_s", "s33s23", "s33s23_s", "e33e13", "e33e13_s", "s33s13", "s33s13_s",
    "e33e12", "e33e12_s", "s33s12", "s33s12_s", "e23e23", "e23e23_s", "s23s23", "s23s23_s",
    "e23e13", "e23e13_s", "s23s13", "s23s13_s", "e23e12", "e23e12_s", "s23s12", "s23s12_s",
    "e13e13", "e13e13_s", "s13s13", "s13s13_s", "e13e12", "e13e12_s", "s13s12", "s13s12_s",
    "e12e12", "e12e12_s", "s12s12", "s12s12_s"]
# names in no list: written with "%f" (6 decimals), float64 in hdf
UNKNOWN_TITLES = ["foo", "xyz_1", "a.b", "Intensity", "sc2", "my-col", "zz9", "ring", "phase_id", "Lsqr"]

CLASS_TITLES = {"f4": PINNED_FLOATS, "f0": PINNED_INTS, "f12": PINNED_LONGFLOATS, "e4": PINNED_EXPONENTIALS,
                "f6": UNKNOWN_TITLES}
assert (len(PINNED_FLOATS), len(PINNED_INTS), len(PINNED_LONGFLOATS), len(PINNED_EXPONENTIALS)) == (33, 20, 18, 108)
CLASS_OF = {t: c for c, ts in CLASS_TITLES.items() for t in ts}
assert len(CLASS_OF) == 179 + len(UNKNOWN_TITLES)          # no title in two classes
# titles of Storage.tla and their class (FmtOf / IsInt of the specification)
MODEL_CLASS = {"sc": "f4", "Number_of_pixels": "f0", "eps11": "e4", "e11e12_s": "e4", "s22s33": "e4",
               "UBI11": "f12", "foo": "f6"}
assert all(CLASS_OF[t] == c for t, c in MODEL_CLASS.items())


def title_batches():
    """the title enumeration: batch k maps every model title of table 7 (Storage.tla) to the k-th title
    of its class; the union of the batches is every pinned title and every unknown name"""
    slots = {}
    for t in sorted(MODEL_CLASS):
        slots.setdefault(MODEL_CLASS[t], []).append(t)
    nb = max(-(-len(CLASS_TITLES[c]) // len(ts)) for c, ts in slots.items())
    out = []
    for k in range(nb):
        ren = {}
        for c, ts in slots.items():
            names = CLASS_TITLES[c]
            for j, t in enumerate(ts):
                ren[t] = names[(k * len(ts) + j) % len(names)]
        assert len(set(ren.values())) == len(ren)
        out.append(ren)
    return out


def formats_note():
    """the module's table against the pinned copy: a NOTE for the evidence file, never a verdict"""
    from ImageD11 import columnfile as C
    prec = {"%.4f": "f4", "%.0f": "f0", "%.12f": "f12", "%.4e": "e4"}
    mod = {t: prec.get(f, f) for t, f in C.FORMATS.items()}
    pin = {t: c for t, c in CLASS_OF.items() if c != "f6"}
    return {"pinned_titles": len(pin), "module_titles": len(mod),
            "only_in_module": sorted(set(mod) - set(pin))[:20], "only_pinned": sorted(set(pin) - set(mod))[:20],
            "other_class_in_module": sorted(t for t in pin if t in mod and mod[t] != pin[t])[:20],
            "ints_differ": sorted(set(C.INTS) ^ set(PINNED_INTS))[:20]}


def floor_log10(X):
    """exact floor(log10(X)) for a positive Fraction"""
    e = int(math.floor(math.log10(float(X)))) if 1e-300 < float(X) < 1e300 else 0
    while TEN ** e > X:
        e -= 1
    while TEN ** (e + 1) <= X:
        e += 1
    return e


def bound_ok(fmt, x, d):
    """the property's precision statement; x = number in memory, d = Fraction read from the text"""
    X = Fraction(x)
    if fmt[0] == "f":
        return abs(d - X) <= HALF / TEN ** int(fmt[1:])
    n = {"e4": 5, "g6": 6, "g9": 9}[fmt]
    if X == 0:
        return d == 0
    E = floor_log10(abs(X))
    return abs(d - X) <= HALF * TEN ** (E - n + 1)


def exact_ties(fmt, rng):
    """doubles that are exactly half way between two printed values"""
    if fmt[0] == "f":
        p = int(fmt[1:])
        k = rng.randrange(0, 2000) * 2 + 1
        return k / float(2 ** (p + 1))              # odd / 2^(p+1) : dyadic, tie at the p-th decimal
    n = {"e4": 5, "g6": 6, "g9": 9}[fmt]
    return float(rng.randrange(10 ** (n - 1), 10 ** n) * 10 + 5)      # n+1 digit integer ending in 5


def any_double(rng, fmt):
    r = rng.random()
    if r < 0.06:
        return 0.0
    if r < 0.12:
        return -0.0
    if r < 0.27:
        x = exact_ties(fmt, rng)
        return -x if rng.random() < 0.3 else x
    if r < 0.33:
        return rng.choice([1e12, -1e12, 1e-12, -1e-12, 12345.67891, 0.1, 1.0 / 3.0])
    if r < 0.43:
        return float(rng.randrange(-10 ** 6, 10 ** 6))
    mag = 10.0 ** rng.uniform(-12.0, 12.0)
    x = rng.uniform(1.0, 10.0) * mag / 10.0
    if abs(x) > 1e12:
        x = 1e12
    return -x if rng.random() < 0.5 else x


def any_int_valued(rng):
    r = rng.random()
    if r < 0.2:
        return float(rng.choice([0, 1, -1, 2 ** 31, -2 ** 31 - 1, 10 ** 12, 2 ** 52]))
    return float(rng.randrange(-10 ** rng.randrange(1, 13), 10 ** rng.randrange(1, 13)))


class Widener(object):
    """substitution of values (and titles) for one history"""

    def __init__(self, family, seed, seeds_raw, rename=True, near=False):
        self.rng = random.Random(seed)
        self.family = family
        # near twin: the value drawn for a position (column t row i, parameter n, ubi / translation element
        # of grain k, pixel i of array n) of the FIRST seed object is remembered; the second object gets,
        # at the same position, that value changed in the last bit / in the 6th significant digit / by +-1
        # (integer typed columns) / in the sign of zero / not at all: every write of o2 over what o1 left
        # (same group, same length; a text file rewritten in place) is an overwrite with nearly equal
        # data, and the step laws ask for exactly the NEW values
        self.near = near
        self.first = {}
        self.int_integral = self.rng.random() < 0.7      # integer typed columns hold integers (hdf domain)
        self.rename = {}
        if family == "table" and rename:
            used = set()
            titles = []
            for o in sorted(seeds_raw):
                for t in seeds_raw[o]["titles"]:
                    if t not in titles:
                        titles.append(t)
            for t in titles:
                c = MODEL_CLASS[t]
                cands = [u for u in CLASS_TITLES[c] if u not in used]
                new = self.rng.choice(cands) if self.rng.random() < 0.7 else t
                if new in used:
                    new = t
                used.add(new)
                self.rename[t] = new
        self.back = {v: k for k, v in self.rename.items()}

    def value(self, where, v, isint):
        if not self.near or where[0] not in ("col", "par", "ubi", "tr", "px"):
            return self.draw(where, v, isint)
        if where not in self.first:
            self.first[where] = self.draw(where, v, isint)
            return self.first[where]
        return self.nudge(where, self.first[where])

    def nudge(self, where, x):
        rng = self.rng
        x = float(x)
        r = rng.random()
        if x == 0.0:
            return -x if r < 0.6 else x                               # 0.0 <-> -0.0
        if where[0] == "col" and MODEL_CLASS[where[1]] == "f0" and x == int(x) and abs(x) < 2.0 ** 52:
            return x + rng.choice([1.0, -1.0]) if r < 0.8 else x      # integer typed column: +-1
        if where[0] == "ubi":
            r = r * 0.8                                               # (a grain is its ubi: always a new one)
        if r < 0.4:
            return float(np.nextafter(x, rng.choice([-np.inf, np.inf])))      # the last bit
        if r < 0.8:
            y = x * (1.0 + rng.choice([-3e-6, 3e-6, 2e-7]))                   # 6th / 7th significant digit
            return y if abs(y) <= 1e12 or where[0] == "par" else x
        return x

    def draw(self, where, v, isint):
        kind = where[0]
        rng = self.rng
        if kind == "col":
            c = MODEL_CLASS[where[1]]
            if c == "f0":
                return any_int_valued(rng) if self.int_integral else any_double(rng, "f0")
            return any_double(rng, c)
        if kind == "par":
            return any_double(rng, "g9") * (10.0 ** rng.choice([0, 0, 0, 30, -30, 200, -200]))
        if kind == "ubi":
            x = R.vfloat(v)
            if x == 0.0:
                return rng.choice([0.0, -0.0, rng.uniform(-1e-3, 1e-3), rng.uniform(-1e-9, 1e-9)])
            if rng.random() < 0.15:
                return x
            return x * (1.0 + rng.uniform(-2e-3, 2e-3))
        if kind == "tr":
            return any_double(rng, "g6")
        if kind == "px":
            return any_double(rng, "g9")
        return R.vfloat(v)


# ------------------------------------------------------------------------------------------
# structure of a canonical world (values blanked)
def shape(x):
    if isinstance(x, dict):
        return {k: shape(v) for k, v in x.items()}
    if isinstance(x, tuple) and len(x) == 2 and isinstance(x[0], str) and isinstance(x[1], list):
        return (x[0], len(x[1]))                 # ("f", [values])
    if isinstance(x, tuple) and len(x) == 2 and isinstance(x[0], str):
        # typed scalar (type, value): floats are widened, everything else is kept
        if x[0] in ("float", "F"):
            return (x[0], None)
        return x
    if isinstance(x, list):
        if x and all(isinstance(v, (int, float, Fraction)) and not isinstance(v, bool) for v in x):
            return ("n", len(x))
        return [shape(v) for v in x]
    if isinstance(x, (float, Fraction)):
        return None
    return x


def shape_world(w):
    s = shape(w)
    for o, m in s["mem"].items():
        if m.get("k") == "table" and "titles" in m:
            m["titles"] = sorted(m["titles"])     # order after an hdf read depends on the names
    for p, f in s["fs"].items():
        if f.get("k") == "text" and "titles" in f:
            f["titles"] = sorted(f["titles"])     # (order is checked by the step relations)
    return s


def rename_world(w, ren):
    """apply the title renaming to a canonical *model* world"""
    if not ren:
        return w

    def rt(t):
        return ren.get(t, t)
    out = {"fs": {}, "mem": {}, "res": w["res"]}
    for p, f in w["fs"].items():
        f = dict(f)
        if f["k"] == "text":
            f["titles"] = [rt(t) for t in f["titles"]]
            f["cols"] = {rt(t): c for t, c in f["cols"].items()}
        elif f["k"] == "hdf":
            g2 = {}
            for g, grp in f["groups"].items():
                grp = dict(grp)
                if grp["tag"] == "peaks":
                    grp["ds"] = {rt(t): d for t, d in grp["ds"].items()}
                g2[g] = grp
            f["groups"] = g2
        out["fs"][p] = f
    for o, m in w["mem"].items():
        m = dict(m)
        if m["k"] == "table":
            m["titles"] = [rt(t) for t in m["titles"]]
            m["cols"] = {rt(t): c for t, c in m["cols"].items()}
        out["mem"][o] = m
    return out


# ------------------------------------------------------------------------------------------
class Fail(Exception):
    pass


def need(cond, what):
    if not cond:
        raise Fail(what)


def fmt_of_title(t):
    return CLASS_OF.get(t, "f6")


def is_int_title(t):
    return CLASS_OF.get(t) == "f0"


def cast_hdf(t, col):
    """what the hdf writers must store for a column; None where the property makes no demand"""
    k, vals = col
    if is_int_title(t):
        out = []
        for v in vals:
            if float(v) == int(v):
                out.append(int(v))
            else:
                out.append(None)          # non integral value in an integer typed column: no demand
        return ("i", out)
    return ("f", [float(v) for v in vals])


def same_ds(exp, got, where, signed=True):
    need(exp[0] == got[0], "%s: dtype class expected %s got %s" % (where, exp[0], got[0]))
    need(len(exp[1]) == len(got[1]), "%s: length expected %d got %d" % (where, len(exp[1]), len(got[1])))
    for i, (a, b) in enumerate(zip(exp[1], got[1])):
        if a is None:
            continue
        need(a == b and type(a) == type(b), "%s[%d]: expected %r got %r" % (where, i, a, b))
        if signed and isinstance(a, float) and a == 0.0:      # exactly: the sign of zero as well
            need(math.copysign(1.0, a) == math.copysign(1.0, b), "%s[%d]: expected %r got %r" % (where, i, a, b))


def nearest_double(d):
    return float(d)          # Fraction -> float is correctly rounded (integer true division)


def check_pars_written(src_pars, file_pars, where):
    names = set(src_pars)
    need(set(file_pars) == names, "%s: parameter names expected %s got %s" % (where, sorted(names), sorted(file_pars)))
    for n, (ty, v) in src_pars.items():
        cls, fv = file_pars[n]
        if ty == "int":
            need(cls == "I" and fv == v, "%s: parameter %s expected int %r got %r" % (where, n, v, (cls, fv)))
        elif ty == "float":
            need(cls == "F" and fv == v, "%s: parameter %s expected float %r got %r" % (where, n, v, (cls, fv)))
        elif ty == "str" and in_domain_str(v):
            need(cls == "S" and fv == v.strip(), "%s: parameter %s expected str %r got %r" % (where, n, v, (cls, fv)))


def in_domain_str(s):
    try:
        float(s)
        return False
    except ValueError:
        return True


def check_pars_read(file_pars, mem_pars, where, extra=()):
    for n, (cls, fv) in file_pars.items():
        n2 = n
        need(n2 in mem_pars, "%s: parameter %s missing after read" % (where, n))
        ty, v = mem_pars[n2]
        exp = {"I": "int", "F": "float", "S": "str"}[cls]
        need(ty == exp and v == fv, "%s: parameter %s expected %s %r got %s %r" % (where, n, exp, fv, ty, v))
    need(set(mem_pars) <= set(file_pars) | set(extra), "%s: unexpected parameters %s" % (
        where, sorted(set(mem_pars) - set(file_pars) - set(extra))))


def pick_group(fobs, a):
    groups = fobs["groups"]
    if a["op"] == "ReadHdf":
        return a["g"]
    if a["op"] == "ReadMmap" and a["g"] in groups:
        return a["g"]
    if a["op"] == "ReadMmap":
        return sorted(groups)[0]
    need(len(groups) == 1, "auto group read succeeded with groups %s" % sorted(groups))
    return list(groups)[0]


def other_path(prev, p):
    qs = [q for q in prev["fs"] if q != p]
    return qs[0] if len(qs) == 1 else None


def hdf_source(a, prev):
    """the table an hdf writer is given: the object o, or (ConvHdf) what the text file at the other
    path denotes (decimals -> nearest doubles; the header is not stored by the hdf writers; the
    observed decimals are Fractions and carry no sign of zero: ConvHdf is not asked for it)"""
    if a["op"] != "ConvHdf":
        return prev["mem"][a["o"]]
    f = prev["fs"][other_path(prev, a["p"])]
    need(f.get("k") == "text" and "cols" in f, "ConvHdf succeeded / was offered without a text columnfile")
    return {"k": "table", "titles": list(f["titles"]),
            "cols": {t: ("f", [nearest_double(d) for d in f["cols"][t]]) for t in f["titles"]}}


def relations(family, a, prev, cur, nchecks):
    """value relations between the observations before and after operation a (raises Fail)"""
    op, o, p, g = a["op"], a["o"], a["p"], a["g"]
    ok = cur["res"] == "ok"
    touched_fs, touched_mem = None, None
    if op in ("WriteText", "WriteHdf", "WriteHdfObj", "ConvHdf", "SavePars", "WriteGrains", "WriteUbis",
              "WriteGrainsH5", "PutGrainH5", "WriteSparse"):
        touched_fs = p
    else:
        touched_mem = o
    for q in cur["fs"]:
        if q != touched_fs:
            d = R.diff(prev["fs"][q], cur["fs"][q], "/fs/" + q)
            need(d is None, "file not addressed by %s changed: %s" % (op, d))
    for m in cur["mem"]:
        if m != touched_mem:
            d = R.diff(prev["mem"][m], cur["mem"][m], "/mem/" + m)
            need(d is None, "object not addressed by %s changed: %s" % (op, d))
    if not ok:
        if touched_mem:
            d = R.diff(prev["mem"][o], cur["mem"][o], "/mem/" + o)
            need(d is None, "failed read changed the object: %s" % d)
        elif op in ("WriteHdfObj", "WriteGrainsH5") and prev["fs"][p]["k"] != "none":
            d = R.diff(prev["fs"][p], cur["fs"][p], "/fs/" + p)
            need(d is None, "refused write changed the file: %s" % d)
        elif op in ("WriteHdf", "ConvHdf") and prev["fs"][p]["k"] == "hdf" and not (
                op == "ConvHdf" and prev["fs"][other_path(prev, p)].get("k") != "text"):
            src = hdf_source(a, prev)
            old = prev["fs"][p]["groups"].get(g, {"ds": {}})["ds"]
            new = cur["fs"][p]["groups"][g]["ds"]
            for t, d in new.items():
                if t in src["cols"] and t in old:
                    try:
                        same_ds(old[t], d, "failed write, dataset %s" % t)
                    except Fail:
                        same_ds(cast_hdf(t, src["cols"][t]), d, "failed write, dataset %s" % t, op != "ConvHdf")
                elif t in src["cols"]:
                    same_ds(cast_hdf(t, src["cols"][t]), d, "failed write, new dataset %s" % t, op != "ConvHdf")
                else:
                    need(t in old, "failed write created %s" % t)
                    same_ds(old[t], d, "failed write, untouched dataset %s" % t)
        return
    if op == "WriteText":
        src, f = prev["mem"][o], cur["fs"][p]
        need(f["k"] == "text" and "cols" in f, "file is not a rectangular text columnfile")
        need(f["titles"] == src["titles"], "titles/order expected %s got %s" % (src["titles"], f["titles"]))
        for t in src["titles"]:
            xs, ds = src["cols"][t][1], f["cols"][t]
            need(len(xs) == len(ds), "rows of %s expected %d got %d" % (t, len(xs), len(ds)))
            fm = fmt_of_title(t)
            for i, (x, d) in enumerate(zip(xs, ds)):
                nchecks[0] += 1
                need(bound_ok(fm, x, d), "column %s (%s) row %d: wrote %s for %r: off by %.3e" % (
                    t, fm, i, d, x, float(abs(d - Fraction(x)))))
        check_pars_written(src["pars"], f["pars"], "header")
    elif op == "ReadText" and prev["fs"][p]["k"] == "text":
        f, m = prev["fs"][p], cur["mem"][o]
        need(m["titles"] == f["titles"], "titles/order expected %s got %s" % (f["titles"], m.get("titles")))
        for t in f["titles"]:
            k, vals = m["cols"][t]
            need(k == "f" and len(vals) == len(f["cols"][t]), "column %s: kind/length" % t)
            for i, (d, v) in enumerate(zip(f["cols"][t], vals)):
                nchecks[0] += 1
                need(v == nearest_double(d), "column %s row %d: read %r for %s" % (t, i, v, d))
        check_pars_read(f["pars"], m["pars"], "header", extra=("filename",))
    elif op in ("ReadText", "ReadAuto", "ReadHdf", "ReadMmap"):
        f, m = prev["fs"][p], cur["mem"][o]
        grp = f["groups"][pick_group(f, a)]
        need(sorted(m["titles"]) == sorted(grp["ds"]), "set of titles expected %s got %s" % (
            sorted(grp["ds"]), sorted(m["titles"])))
        for t, d in grp["ds"].items():
            nchecks[0] += len(d[1])
            same_ds(d, m["cols"][t], "column %s read from hdf" % t)
    elif op in ("WriteHdf", "WriteHdfObj", "ConvHdf"):
        src = hdf_source(a, prev)
        old = prev["fs"][p]["groups"].get(g, {"ds": {}})["ds"] if prev["fs"][p]["k"] == "hdf" else {}
        need(cur["fs"][p]["k"] == "hdf" and g in cur["fs"][p]["groups"], "group missing after write")
        new = cur["fs"][p]["groups"][g]["ds"]
        for t in src["titles"]:
            need(t in new, "written title %s missing" % t)
            nchecks[0] += len(new[t][1])
            same_ds(cast_hdf(t, src["cols"][t]), new[t], "dataset %s" % t, op != "ConvHdf")
        for t, d in new.items():
            if t not in src["cols"]:
                need(t in old, "dataset %s appeared" % t)
                same_ds(old[t], d, "dataset %s not in the written object" % t)
        for h, grp in cur["fs"][p]["groups"].items():
            if h != g:
                d = R.diff(prev["fs"][p]["groups"].get(h), grp, "/fs/%s/groups/%s" % (p, h))
                need(d is None, "other group changed: %s" % d)
    elif op == "DropRow":
        src, m = prev["mem"][o], cur["mem"][o]
        need(m["titles"] == src["titles"], "titles changed")
        for t in src["titles"]:
            same_ds((src["cols"][t][0], src["cols"][t][1][:-1]), m["cols"][t], "column %s" % t)
    elif op == "SavePars":
        check_pars_written(prev["mem"][o]["pars"], cur["fs"][p]["pars"], "par file")
        nchecks[0] += len(cur["fs"][p]["pars"])
    elif op in ("LoadFresh", "LoadInto"):
        f, m = prev["fs"][p], cur["mem"][o]
        fp = {n.replace("-", "_"): v for n, v in f["pars"].items()}
        extra = set(prev["mem"][o]["pars"]) if op == "LoadInto" else ()
        check_pars_read(fp, m["pars"], "par file", extra=extra)
        nchecks[0] += len(fp)
    elif op in ("WriteGrains", "WriteUbis"):
        src, f = prev["mem"][o]["gl"], cur["fs"][p]
        if op == "WriteGrains":
            need(f["k"] == "gtext" and len(f["gl"]) == len(src), "number of grains")
            for i, (gs, gf) in enumerate(zip(src, f["gl"])):
                for j in range(9):
                    nchecks[0] += 1
                    need(bound_ok("g9", gs["ubi"][j], gf["ubi"][j]), "grain %d ubi[%d]: wrote %s for %r" % (
                        i, j, gf["ubi"][j], gs["ubi"][j]))
                need((gs["tr"] is None) == (gf["tr"] is None), "grain %d translation presence" % i)
                if gs["tr"] is not None:
                    for j in range(3):
                        nchecks[0] += 1
                        need(bound_ok("g6", gs["tr"][j], gf["tr"][j]), "grain %d t[%d]: wrote %s for %r" % (
                            i, j, gf["tr"][j], gs["tr"][j]))
                for k in ("name", "npks", "nuniq", "ii"):
                    need(gs[k] == gf[k], "grain %d %s expected %r got %r" % (i, k, gs[k], gf[k]))
        else:
            need(f["k"] == "utext" and len(f["ubis"]) == len(src), "number of ubis")
            for i, (gs, u) in enumerate(zip(src, f["ubis"])):
                for j in range(9):
                    nchecks[0] += 1
                    need(bound_ok("f6", gs["ubi"][j], u[j]), "ubi %d [%d]: wrote %s for %r" % (i, j, u[j], gs["ubi"][j]))
    elif op in ("ReadGrains", "ReadUbis"):
        f, m = prev["fs"][p], cur["mem"][o]["gl"]
        items = f["gl"] if f["k"] == "gtext" else [{"ubi": u, "tr": None, "name": None, "npks": None, "nuniq": None,
                                                    "ii": None} for u in f["ubis"]]
        need(len(items) == len(m), "number of grains expected %d got %d" % (len(items), len(m)))
        for i, (gf, gm) in enumerate(zip(items, m)):
            for j in range(9):
                nchecks[0] += 1
                need(gm["ubi"][j] == nearest_double(gf["ubi"][j]), "grain %d ubi[%d]: read %r for %s" % (
                    i, j, gm["ubi"][j], gf["ubi"][j]))
            if op == "ReadGrains":
                need((gf["tr"] is None) == (gm["tr"] is None), "grain %d translation presence" % i)
                if gf["tr"] is not None:
                    need([nearest_double(x) for x in gf["tr"]] == gm["tr"], "grain %d translation" % i)
                for k in ("name", "npks", "nuniq", "ii"):
                    need(gf[k] == gm[k], "grain %d %s expected %r got %r" % (i, k, gf[k], gm[k]))
            else:
                need(gm["tr"] is None and gm["name"] is None and gm["ii"] is None, "bare ubi carries attributes")
    elif op == "WriteGrainsH5":
        d = R.diff(prev["mem"][o]["gl"], cur["fs"][p]["groups"][g]["gl"], "grains", signed=True)
        need(d is None, "h5 grains differ from memory: %s" % d)
        nchecks[0] += 12 * len(prev["mem"][o]["gl"])
    elif op == "ReadGrainsH5":
        d = R.diff(prev["fs"][p]["groups"][g]["gl"], cur["mem"][o]["gl"], "grains", signed=True)
        need(d is None, "grains in memory differ from h5: %s" % d)
    elif op == "PutGrainH5":
        new, old = prev["mem"][o]["gl"][0], prev["fs"][p]["groups"][g]["gl"]
        got = cur["fs"][p]["groups"][g]["gl"]
        need(len(got) == len(old), "number of grains changed")
        need(got[1:] == old[1:], "other grains changed")
        need(R.diff(new["ubi"], got[0]["ubi"], "ubi", signed=True) is None, "ubi not replaced")
        for k in ("tr", "name", "npks", "nuniq", "ii"):
            exp = new[k] if new[k] is not None else old[0][k]
            need(R.diff(exp, got[0][k], k, signed=True) is None, "slot 0 %s expected %r got %r" % (k, exp, got[0][k]))
    elif op == "Reverse":
        need(cur["mem"][o]["gl"] == prev["mem"][o]["gl"][::-1], "not reversed")
    elif op == "WriteSparse":
        src, grp = prev["mem"][o], cur["fs"][p]["groups"][g]
        for k in ("shape", "row", "col", "itype"):
            need(grp[k] == src[k], "%s expected %r got %r" % (k, src[k], grp[k]))
        old = prev["fs"][p]["groups"].get(g, {"px": {}})["px"] if prev["fs"][p]["k"] == "hdf" else {}
        for n, px in src["px"].items():
            need(n in grp["px"], "pixel array %s missing" % n)
            same_ds((px["ty"], px["data"]), (grp["px"][n]["ty"], grp["px"][n]["data"]), "pixels %s" % n)
            for k, v in px["meta"].items():
                need(grp["px"][n]["meta"].get(k) == v, "meta %s.%s expected %r got %r" % (n, k, v, grp["px"][n]["meta"].get(k)))
            nchecks[0] += len(px["data"])
        for n, px in grp["px"].items():
            if n not in src["px"]:
                need(n in old and R.diff(old[n], px, signed=True) is None, "pixel array %s appeared or changed" % n)
    elif op == "ReadSparse":
        grp, m = prev["fs"][p]["groups"][g], cur["mem"][o]
        for k in ("shape", "row", "col", "itype"):
            need(grp[k] == m[k], "%s expected %r got %r" % (k, grp[k], m[k]))
        d = R.diff(grp["px"], m["px"], "px", signed=True)
        need(d is None, "pixels differ: %s" % d)


# ------------------------------------------------------------------------------------------
def unrename(obs, back):
    if not back:
        return obs
    return rename_world(obs, back)


def _leaves(x, path, out):
    if isinstance(x, dict):
        for k in x:
            _leaves(x[k], path + (k,), out)
    elif isinstance(x, tuple) and len(x) == 2 and isinstance(x[1], list):
        _leaves(x[1], path, out)
    elif isinstance(x, list) and x and all(isinstance(v, (int, float, Fraction)) and not isinstance(v, bool) for v in x):
        out[path] = [float(v) for v in x]
    elif isinstance(x, list):
        for i, v in enumerate(x):
            _leaves(v, path + (i,), out)


def near_overwrite(a, prev, cur):
    """vacuity counter of the near twins: the successful write `a` replaced a numeric array of the file by
    one of the same length that differs from it (bits) but is numpy.allclose to it -> name of the operation"""
    p = a.get("p")
    if p not in cur["fs"] or prev["fs"][p].get("k") in (None, "none") or prev["fs"][p].get("k") != cur["fs"][p].get("k"):
        return None
    old, new = {}, {}
    _leaves(prev["fs"][p], (), old)
    _leaves(cur["fs"][p], (), new)
    for path, x in new.items():
        y = old.get(path)
        if y is None or len(y) != len(x):
            continue
        xa, ya = np.array(x), np.array(y)
        if np.allclose(ya, xa) and not np.array_equal(xa.view(np.int64), ya.view(np.int64)):
            return a["op"]
    return None


def replay_widened(family, hist, seeds_raw, expA, expF, root, seed):
    out = {"fail": None, "sig": None, "checks": 0, "seed": seed, "step": None, "f32_columns": 0}
    try:
        # what a *failing* colfile_to_hdf leaves behind depends on the order of the titles, and the order
        # colfile_from_hdf gives depends on the names: histories with a failing WriteHdf keep the model's titles
        failing = any(hist[i]["op"] == "WriteHdf" and "err" in (expA[i]["res"], expF[i]["res"])
                      for i in range(1, len(hist)))
        near = (seed // 3) % 2 == 0          # every second widened history is replayed as a near twin
        out["near"] = near
        w = Widener(family, seed, seeds_raw, rename=not failing, near=near)
        raw = seeds_raw
        if w.rename:
            raw = {}
            for o, x in seeds_raw.items():
                x = dict(x)
                x["titles"] = [w.rename[t] for t in x["titles"]]
                x["cols"] = {w.rename[t]: c for t, c in R.D(x["cols"]).items()}
                x["dt"] = {w.rename[t]: c for t, c in R.D(x["dt"]).items()}
                raw[o] = x

            def vals(where, v, isint, _w=w):
                if where[0] == "col":
                    where = ("col", _w.back[where[1]], where[2])
                return _w.value(where, v, isint)
        else:
            vals = w.value
        # in-memory columns of another float width (the model is covariant in it: every law is stated on
        # the values the object holds): each column is float32 with probability 0.15
        f32 = set()
        if family == "table":
            for o in sorted(raw):
                for t in raw[o]["titles"]:
                    if w.rng.random() < 0.15:
                        f32.add((o, t))
        out["f32_columns"] = len(f32)
        r = R.Runner(family, root, raw, variant=seed % 16, vals=vals,
                     coldt=(lambda o, t: np.float32 if (o, t) in f32 else np.float64) if f32 else None,
                     paths=sorted(expA[0]["fs"]))
    except Exception:
        out["crash"] = traceback.format_exc()
        return out
    nchecks = [0]
    okA = okF = True
    try:
        prev = None
        for i in range(len(hist)):
            if i > 0:
                r.step(hist[i])
            cur = r.observe()
            sreal = shape_world(cur)
            dA = dF = None
            if okA:
                dA = R.diff(shape_world(rename_world(r.adapt(R.canon_world(expA[i], r.tok)), w.rename)), sreal)
                okA = dA is None
            if okF:
                dF = R.diff(shape_world(rename_world(r.adapt(R.canon_world(expF[i], r.tok)), w.rename)), sreal)
                okF = dF is None
            if not okA and not okF:
                out["fail"] = "step %d %s: structure: %s%s" % (i, R._opstr(hist[i]), dF or dA,
                                                               (" [raised %s]" % r.exc) if r.exc else "")
                out["sig"] = R.sig_of(hist[i]["op"], dF or dA or "", r.exc if expF[i]["res"] == "ok" else None)
                out["step"] = i
                break
            if i > 0:
                if near and cur["res"] == "ok":
                    k = near_overwrite(hist[i], prev, cur)
                    if k:
                        out.setdefault("near_overwrites", {})[k] = out.get("near_overwrites", {}).get(k, 0) + 1
                try:
                    relations(family, hist[i], prev, cur, nchecks)
                except Fail as e:
                    out["fail"] = "step %d %s: %s" % (i, R._opstr(hist[i]), e)
                    out["sig"] = R.sig_of(hist[i]["op"], None, None, law=str(e))
                    out["step"] = i
                    break
            prev = cur
    except Exception:
        out["crash"] = traceback.format_exc()
    finally:
        r.close()
    out["checks"] = nchecks[0]
    return out


def selftest(root):
    """the bound oracle must reject a value that is off by one unit in the last place and accept ties"""
    import common
    assert bound_ok("f4", 0.03125, Fraction("0.0312")) and bound_ok("f4", 0.03125, Fraction("0.0313"))
    for fmt, x, good, bad in (("f4", 12345.67891, "12345.6789", "12345.6790"),
                              ("f6", 1e-12, "0.000000", "0.000001"),
                              ("f0", 2.5, "2", "4"),
                              ("e4", 12345.67891, "1.2346e+04", "1.2347e+04"),
                              ("g9", 4.1234567891, "4.12345679", "4.12345678"),
                              ("g6", 1000005.0, "1e+06", "1.00002e+06"),
                              ("f12", 1.0 / 8192, "0.000122070312", "0.000122070314")):
        if not bound_ok(fmt, x, Fraction(good)):
            raise common.MachineryError("selftest: bound oracle rejects %s for %r (%s)" % (good, x, fmt))
        if bound_ok(fmt, x, Fraction(bad)):
            raise common.MachineryError("selftest: bound oracle accepts %s for %r (%s)" % (bad, x, fmt))
    # the hdf step laws tell -0.0 from 0.0, the pinned table is complete and the batches cover it
    try:
        same_ds(("f", [0.0, 1.5]), ("f", [-0.0, 1.5]), "selftest")
        raise common.MachineryError("selftest: same_ds accepts -0.0 for 0.0")
    except Fail:
        pass
    if R.diff([0.0], [-0.0], signed=True) is None or R.diff([0.0], [-0.0]) is not None:
        raise common.MachineryError("selftest: signed diff")
    seen = set(v for ren in title_batches() for v in ren.values())
    if seen != set(CLASS_OF) or len([t for t in CLASS_OF if CLASS_OF[t] != "f6"]) != 179:
        raise common.MachineryError("selftest: the title batches do not cover the pinned table")
    # a relation must reject a corrupted observation
    prev = {"fs": {"p1": {"k": "none"}}, "mem": {"o1": {"k": "table", "titles": ["sc"], "cols": {"sc": ("f", [0.12345])},
                                                         "pars": {}}}, "res": "ok"}
    cur = {"fs": {"p1": {"k": "text", "pars": {}, "titles": ["sc"], "cols": {"sc": [Fraction("0.1236")]}}},
           "mem": prev["mem"], "res": "ok"}
    try:
        relations("table", {"op": "WriteText", "o": "o1", "p": "p1", "g": ""}, prev, cur, [0])
    except Fail:
        return True
    raise common.MachineryError("selftest: widened relation accepted a value off by 1.5 units")

"""Python transcription of specs/Merge3D.tla (C12) + an independent 3-D component oracle.

The transcription mirrors the TLA+ actions one for one (same variables, same control states) so
that it can be cross-checked against TLC state by state (simulation traces) and behaviour by
behaviour (the `out` emitted by TLC at `done`, the observable states of EmitStep).  It generalises
the model to any shape, threshold and (exactly representable) omega sequence, which is what judges
the long random replays that TLC cannot enumerate.  Intensities and omegas may be ints or
Fractions (exact values of float32 inputs); `maxfix` is the spec's MAXFIX (rule for the maximum
pixel of a blob whose pixels are all <= 0).  A not-a-number pixel (the spec's NaN) is a float nan in
a frame: every membership test here is `value > thr`, which is False for nan as Above() is in the
spec, so such a pixel is background, joins nothing and is never summed.

Rows are lists of 22 numbers in the blobs.h column order s_1 .. bb_mn_o (FIELDS).
"""
from fractions import Fraction

FIELDS = ["n", "I", "I2", "fI", "ffI", "sI", "ssI", "sfI", "oI", "ooI", "soI", "foI",
          "mxI", "mxf", "mxs", "mxo", "bxf", "bxs", "bxo", "bnf", "bns", "bno"]
# the names of the same columns in cImageD11 / blobs.h
CNAMES = ["s_1", "s_I", "s_I2", "s_fI", "s_ffI", "s_sI", "s_ssI", "s_sfI", "s_oI", "s_ooI", "s_soI", "s_foI",
          "mx_I", "mx_I_f", "mx_I_s", "mx_I_o", "bb_mx_f", "bb_mx_s", "bb_mx_o", "bb_mn_f", "bb_mn_s", "bb_mn_o"]
(N_, I_, I2_, FI_, FFI_, SI_, SSI_, SFI_, OI_, OOI_, SOI_, FOI_,
 MXI_, MXF_, MXS_, MXO_, BXF_, BXS_, BXO_, BNF_, BNS_, BNO_) = range(22)
NROW = 22
FIRST = -1
ZERO = [0] * NROW


def exact(x):
    """int for an integral value, else the exact Fraction of the float"""
    if isinstance(x, (int, Fraction)):
        return x
    x = float(x)
    if x != x:
        return x                # a not-a-number pixel stays a float nan: `nan > thr` is False (background)
    return int(x) if x.is_integer() else Fraction(x)


def add_pixel(b, s, f, v, o, maxfix=False):
    first = maxfix and b[N_] == 0
    b[N_] += 1
    b[I_] += v
    b[I2_] += v * v
    b[FI_] += f * v
    b[FFI_] += f * f * v
    b[SI_] += s * v
    b[SSI_] += s * s * v
    b[SFI_] += s * f * v
    b[OI_] += o * v
    b[OOI_] += o * o * v
    b[SOI_] += s * o * v
    b[FOI_] += f * o * v
    if v > b[MXI_] or first:
        b[MXI_] = v
        b[MXF_] = f
        b[MXS_] = s
        b[MXO_] = o
    if f > b[BXF_]:
        b[BXF_] = f
    if s > b[BXS_]:
        b[BXS_] = s
    if o > b[BXO_]:
        b[BXO_] = o
    if f < b[BNF_]:
        b[BNF_] = f
    if s < b[BNS_]:
        b[BNS_] = s
    if o < b[BNO_]:
        b[BNO_] = o


def merge_row(b1, b2):
    """merge(): returns the new b1 (b2 is zeroed by the caller)"""
    r = [b1[k] + b2[k] for k in range(12)] + [0] * 10
    if b2[MXI_] > b1[MXI_]:
        r[MXI_:MXO_ + 1] = b2[MXI_:MXO_ + 1]
    else:
        r[MXI_:MXO_ + 1] = b1[MXI_:MXO_ + 1]
    for k in (BXF_, BXS_, BXO_):
        r[k] = b2[k] if b2[k] > b1[k] else b1[k]
    for k in (BNF_, BNS_, BNO_):
        r[k] = b2[k] if b2[k] < b1[k] else b1[k]
    return r


def label2d(img, ns, nf, thr):
    """8-connected components numbered by the raster position of their first pixel"""
    lab = [0] * (ns * nf)
    n = 0
    for p0 in range(ns * nf):
        if img[p0] > thr and lab[p0] == 0:
            n += 1
            lab[p0] = n
            stack = [p0]
            while stack:
                p = stack.pop()
                s, f = divmod(p, nf)
                for ds in (-1, 0, 1):
                    s2 = s + ds
                    if s2 < 0 or s2 >= ns:
                        continue
                    for df in (-1, 0, 1):
                        f2 = f + df
                        if f2 < 0 or f2 >= nf:
                            continue
                        q = s2 * nf + f2
                        if img[q] > thr and lab[q] == 0:
                            lab[q] = n
                            stack.append(q)
    return lab, n


def props(img, lab, n, om, ns, nf, maxfix=False):
    rows = []
    for _ in range(n):
        r = [0] * NROW
        r[BNF_] = nf + 1
        r[BNS_] = ns + 1
        r[BXF_] = -1
        r[BXS_] = -1
        r[BXO_] = om
        r[BNO_] = om
        rows.append(r)
    for p in range(ns * nf):
        k = lab[p]
        if 0 < k <= n:
            add_pixel(rows[k - 1], p // nf, p % nf, img[p], om, maxfix)
    return rows


def _find(S, x):
    r = x
    while S[r] != r:
        r = S[r]
    while S[x] != x:
        S[x], x = r, S[x]
    return r


def _makeunion(S, r1, r2):
    a = _find(S, r1)
    b = _find(S, r2)
    if b > a:
        S[b] = a
    elif b < a:
        S[a] = b


class Model(object):
    """state machine of Merge3D.tla; `trace` (a list) receives (action, snapshot) per action"""

    def __init__(self, ns, nf, thr=0, omega=None, trace=None, maxfix=False):
        self.ns, self.nf, self.thr = ns, nf, thr
        self.maxfix = maxfix
        self.npx = ns * nf
        self.omega = omega or (lambda k: k)          # k = 1, 2, ...
        self.frames = []
        self.pc = "idle"
        self.blim = [0] * self.npx
        self.lastbl = [0] * self.npx
        self.npk = 0
        self.lastnp = FIRST
        self.res = []
        self.lastres = []
        self.link = []
        self.T = []
        self.i = 0
        self.knpk = 0
        self.out = []            # (row, onfirst, onlast, id)
        self.onfirst = 1
        self.onlast = 0
        self.spot = 0
        self.bad = set()
        self.trace = trace
        self.actions = {}        # action -> count (vacuity bookkeeping of the transcription)
        self.kernel_called = False

    def clone(self):
        c = Model.__new__(Model)
        c.__dict__.update(self.__dict__)
        c.frames = list(self.frames)
        c.blim = list(self.blim)
        c.lastbl = list(self.lastbl)
        c.res = [list(r) for r in self.res]
        c.lastres = [list(r) for r in self.lastres]
        c.link = list(self.link)
        c.T = list(self.T)
        c.out = list(self.out)
        c.bad = set(self.bad)
        c.actions = dict(self.actions)
        c.trace = None
        return c

    # -- bookkeeping
    def _did(self, name):
        self.actions[name] = self.actions.get(name, 0) + 1
        if self.trace is not None:
            self.trace.append((name, self.snapshot()))

    def snapshot(self):
        def rows(rr):
            return tuple(dict(zip(FIELDS, r)) for r in rr)

        def arr(a):
            return dict(enumerate(a)) if len(a) else ()
        return {"frames": tuple(tuple(f) for f in self.frames), "pc": self.pc,
                "blim": tuple(self.blim), "lastbl": tuple(self.lastbl), "npk": self.npk,
                "lastnp": self.lastnp, "res": rows(self.res), "lastres": rows(self.lastres),
                "link": arr(self.link), "T": arr(self.T), "i": self.i, "knpk": self.knpk,
                "out": tuple({"row": dict(zip(FIELDS, r)), "onfirst": a, "onlast": b, "id": c}
                             for (r, a, b, c) in self.out),
                "onfirst": self.onfirst, "onlast": self.onlast, "spot": self.spot,
                "bad": frozenset(self.bad)}

    def observable(self):
        """the projection that EmitStep prints / the harness compares with the real object"""
        return {"k": self.pc, "fr": [list(f) for f in self.frames], "npk": self.npk,
                "blim": list(self.blim), "res": [list(r) for r in self.res], "lastnp": self.lastnp,
                "lastbl": list(self.lastbl), "lastres": [list(r) for r in self.lastres],
                "out": [[list(r), a, b, c] for (r, a, b, c) in self.out],
                "onfirst": self.onfirst, "onlast": self.onlast, "spot": self.spot}

    # -- Peaksearch
    def peaksearch(self, img):
        assert self.pc == "idle"
        img = list(img)
        k = len(self.frames) + 1
        lab, n = label2d(img, self.ns, self.nf, self.thr)
        self.frames.append(img)
        self.blim = lab
        self.npk = n
        self.res = props(img, lab, n, self.omega(k), self.ns, self.nf, self.maxfix) if n > 0 else []
        self.pc = "searched"
        self._did("Peaksearch")

    # -- mergelast and everything below it
    def mergelast(self, stop_after_kernel=False):
        """runs MergeFirst, or Enter/SkipOverlaps .. Relabel, Output, Swap.
        stop_after_kernel: return at pc = "output" (the state at return of bloboverlaps)."""
        assert self.pc == "searched"
        self.kernel_called = False
        if self.lastnp == FIRST:
            self.lastbl, self.blim = self.blim, self.lastbl
            self.lastnp = self.npk
            self.lastres = self.res
            self.pc = "idle"
            self._did("MergeFirst")
            return
        if self.npk > 0 and self.lastnp > 0:
            self.kernel_called = True
            self._bloboverlaps()
        else:
            self.pc = "output"
            self._did("SkipOverlaps")
        if stop_after_kernel:
            return
        self.finish_mergelast()

    def finish_mergelast(self):
        assert self.pc == "output"
        if self.lastnp > 0:
            self._emit(self.lastres[:self.lastnp])
        self.pc = "swap"
        self._did("Output")
        self.lastnp = self.npk
        self.lastres = self.res[:self.npk] if self.npk > 0 else []
        self.lastbl, self.blim = self.blim, self.lastbl
        self.pc = "idle"
        self._did("Swap")

    def _emit(self, rows):
        for r in rows:
            if r[N_] < 1:
                continue
            self.out.append((list(r), self.onfirst, self.onlast, self.spot))
            self.spot += 1
        self.onfirst = 0

    def _next_overlap(self, frm):
        for p in range(frm, self.npx + 1):
            if self.lastbl[p - 1] != 0 and self.blim[p - 1] != 0:
                return p
        return self.npx + 1

    def _next_scan(self, frm):
        n2 = self.npk
        for x in range(frm, len(self.link)):
            if self.link[x] != x and x != n2 + 1:
                return x
        return len(self.link)

    def _scan_advance(self, x):
        nx = self._next_scan(x + 1)
        if nx < len(self.link):
            self.pc, self.i = "scan", nx
        else:
            self.pc, self.i = "compress", 1

    def _next_copy(self, frm):
        for x in range(frm, self.npk + 1):
            if self.link[x] != self.T[x]:
                return x
        return self.npk + 1

    def _copy_advance(self, x):
        nx = self._next_copy(x + 1)
        if nx <= self.npk:
            self.pc, self.i = "copy", nx
        else:
            self.pc, self.i = "relabel", 0

    def _bloboverlaps(self):
        n1, n2 = self.lastnp, self.npk
        need = n1 + n2 + 3
        # EnterOverlaps
        self.link = list(range(need))
        self.link[0] = need
        self.link[n2 + 1] = -99999
        self.T = []
        self.knpk = 0
        nx = self._next_overlap(1)
        if nx <= self.npx:
            self.pc, self.i = "overlap", nx
        else:
            self._scan_advance(0)
        self._did("EnterOverlaps")
        # Overlap(px)
        while self.pc == "overlap":
            px = self.i
            p1, p2 = self.lastbl[px - 1], self.blim[px - 1]
            inrange = 1 <= p1 <= n1 and 1 <= p2 <= n2
            whoops = inrange and (self.link[p2] < 0 or self.link[p1 + n2 + 1] < 0)
            if not inrange:
                self.bad.add("overlap index")
            if whoops:
                self.bad.add("Whoops")
            if inrange and not whoops:
                _makeunion(self.link, p2, p1 + n2 + 1)
            nx = self._next_overlap(px + 1)
            if nx <= self.npx:
                self.pc, self.i = "overlap", nx
            else:
                self._scan_advance(0)
            self._did("Overlap")
        # scan loop
        while self.pc == "scan":
            x = self.i
            j = _find(self.link, x)
            if x > n2 + 1 and j < n2 + 1:
                jpk, ipk = j, x - n2 - 1
                if 1 <= jpk <= min(len(self.res), n2) and 1 <= ipk <= min(len(self.lastres), n1):
                    self.res[jpk - 1] = merge_row(self.res[jpk - 1], self.lastres[ipk - 1])
                    self.lastres[ipk - 1] = list(ZERO)
                else:
                    self.bad.add("boundscheck across")
                name = "MergeAcross"
            elif x > n2 + 1 and j > n2 + 1:
                jpk, ipk = j - n2 - 1, x - n2 - 1
                if 1 <= jpk <= min(len(self.lastres), n1) and 1 <= ipk <= min(len(self.lastres), n1):
                    self.lastres[jpk - 1] = merge_row(self.lastres[jpk - 1], self.lastres[ipk - 1])
                    self.lastres[ipk - 1] = list(ZERO)
                else:
                    self.bad.add("boundscheck same1")
                name = "MergeSame1"
            elif x < n2 + 1 and j < n2 + 1:
                jpk, ipk = j, x
                if 1 <= jpk <= min(len(self.res), n2) and 1 <= ipk <= min(len(self.res), n2):
                    self.res[jpk - 1] = merge_row(self.res[jpk - 1], self.res[ipk - 1])
                    self.res[ipk - 1] = list(ZERO)
                else:
                    self.bad.add("boundscheck same2")
                name = "MergeSame2"
            else:
                raise AssertionError("scan loop: no case applies (I am not here!)")
            self._scan_advance(x)
            self._did(name)
        # CompressT
        assert self.pc == "compress"
        T = [0] * (n2 + 3)
        k = 0
        for x in range(1, n2 + 1):
            if self.link[x] == x:
                k += 1
                T[x] = k
            else:
                j = _find(self.link, x)
                if not j < x:
                    self.bad.add("assert j < i")
                T[x] = T[j]
        self.T = T
        self.knpk = k
        nx = self._next_copy(1)
        if nx <= n2:
            self.pc, self.i = "copy", nx
        else:
            self.pc, self.i = "relabel", 0
        self._did("CompressT")
        # copy loop
        while self.pc == "copy":
            x = self.i
            if self.link[x] == x:
                ok = T[x] < self.link[x] and 1 <= T[x] <= len(self.res) and 1 <= self.link[x] <= len(self.res)
                if not ok:
                    self.bad.add("Bad logic in bloboverlaps")
                else:
                    if self.res[T[x] - 1] != ZERO:
                        self.bad.add("copy onto live row")
                    self.res[T[x] - 1] = self.res[self.link[x] - 1]
                    self.res[self.link[x] - 1] = list(ZERO)
                name = "CopyMoved"
            else:
                if not T[x] < self.link[x]:
                    self.bad.add("Bad logic in bloboverlaps")
                if not (1 <= x <= len(self.res) and self.res[x - 1][N_] == 0):
                    self.bad.add("assert empty")
                name = "CopyCheckEmpty"
            self._copy_advance(x)
            self._did(name)
        # Relabel
        assert self.pc == "relabel"
        okidx = all(0 <= v <= n2 + 2 for v in self.blim)
        if not okidx:
            self.bad.add("relabel index")
        else:
            if not all(v == 0 or T[v] == v or 1 <= T[v] <= n2 for v in self.blim):
                self.bad.add("assert ipk in 1..n2")
            self.blim = [0 if v == 0 else T[v] for v in self.blim]
        self.npk = self.knpk
        self.pc = "output"
        self._did("Relabel")

    # -- Finalise
    def finalise(self, again=False):
        """again=True: finalise() on an object that was already finalised (not an action of the
        specification; the transcription of what labelimage.finalise does then, used only for the
        recorded observations)"""
        assert (self.pc == "done" if again else self.pc == "idle") and len(self.frames) >= 1
        self.onlast = 1
        if self.lastres:
            self._emit(self.lastres)
        self.pc = "done"
        self._did("Finalise")

    def reopen(self):
        """peaksearch() on a finalised object simply carries on (observations only)"""
        assert self.pc == "done"
        self.pc = "idle"


def run_model(frames, ns, nf, thr=0, omega=None, trace=None, maxfix=False):
    """whole behaviour: peaksearch+mergelast per frame, then finalise.  Returns the Model."""
    m = Model(ns, nf, thr, omega, trace, maxfix)
    for f in frames:
        m.peaksearch(f)
        m.mergelast()
    m.finalise()
    return m


# --------------------------------------------------------------------------------------
# independent oracle: 3-D connected components and their rows (no union-find, no merging)

def components3d(frames, ns, nf, thr, omega):
    """list of rows (dict with FIELDS minus max position, plus 'argmax' = set of (o, s, f) where
    the maximum is attained, plus 'vox' = number of voxels); flood fill over voxels:
    8-connected in frame, same pixel on adjacent frames."""
    K = len(frames)
    seen = [[False] * (ns * nf) for _ in range(K)]
    comps = []
    for k0 in range(K):
        for p0 in range(ns * nf):
            if frames[k0][p0] > thr and not seen[k0][p0]:
                seen[k0][p0] = True
                stack = [(k0, p0)]
                vox = []
                while stack:
                    k, p = stack.pop()
                    vox.append((k, p))
                    s, f = divmod(p, nf)
                    for ds in (-1, 0, 1):
                        for df in (-1, 0, 1):
                            s2, f2 = s + ds, f + df
                            if 0 <= s2 < ns and 0 <= f2 < nf:
                                q = s2 * nf + f2
                                if frames[k][q] > thr and not seen[k][q]:
                                    seen[k][q] = True
                                    stack.append((k, q))
                    for k2 in (k - 1, k + 1):
                        if 0 <= k2 < K and frames[k2][p] > thr and not seen[k2][p]:
                            seen[k2][p] = True
                            stack.append((k2, p))
                comps.append(vox)
    out = []
    for vox in comps:
        r = dict((n, 0) for n in FIELDS[:12])
        mx = max(frames[k][p] for k, p in vox)
        for k, p in vox:
            v = frames[k][p]
            s, f = divmod(p, nf)
            o = omega(k + 1)
            r["n"] += 1
            r["I"] += v
            r["I2"] += v * v
            r["fI"] += f * v
            r["ffI"] += f * f * v
            r["sI"] += s * v
            r["ssI"] += s * s * v
            r["sfI"] += s * f * v
            r["oI"] += o * v
            r["ooI"] += o * o * v
            r["soI"] += s * o * v
            r["foI"] += f * o * v
        r["mxI"] = mx
        r["bxf"] = max(p % nf for k, p in vox)
        r["bnf"] = min(p % nf for k, p in vox)
        r["bxs"] = max(p // nf for k, p in vox)
        r["bns"] = min(p // nf for k, p in vox)
        r["bxo"] = max(omega(k + 1) for k, p in vox)
        r["bno"] = min(omega(k + 1) for k, p in vox)
        r["argmax"] = set((omega(k + 1), p // nf, p % nf) for k, p in vox if frames[k][p] == mx)
        out.append(r)
    return out


CORE = [n for n in FIELDS if n not in ("mxf", "mxs", "mxo")]
APPROX = ("I2", "oI", "ooI", "soI", "foI")      # sums that may be rounded in double (see approx_tolerances)
UNIT = 2.3e-16                                   # 2 x the unit round-off of a double


def approx_tolerances(n, sum_abs_i, i2, omax, ns, nf):
    """rigorous bound on |double accumulation - exact sum| for the columns whose terms are not exactly
    representable (I*I beyond 2^53, products with a 24-bit omega): n terms, each product rounded at
    most twice, each addition once -> (n + 8) * UNIT * (bound on the sum of |terms|)."""
    k = (n + 8) * UNIT
    a = abs(sum_abs_i)
    return {"I2": k * abs(i2), "oI": k * a * omax, "ooI": k * a * omax * omax,
            "soI": k * a * omax * ns, "foI": k * a * omax * nf}


def judge_against_components(rows, frames, ns, nf, thr, omega, approx=False, asis=False):
    """rows: list of 22-lists (emitted peaks).  Returns None if they are in one-to-one
    correspondence with the 3-D components (the property), else a description.
    approx: the APPROX columns are compared within approx_tolerances instead of exactly (only for
            families with all in-blob intensities > 0).
    asis:   the max-pixel clause only for components whose maximum is > 0; for the others the value
            0 is expected (Merge3D.tla, MAXFIX = FALSE / DoneOKAsIs)."""
    comps = components3d(frames, ns, nf, thr, omega)
    if len(rows) != len(comps):
        return "number of emitted peaks %d != number of 3-D components %d" % (len(rows), len(comps))
    keyf = [n for n in CORE if not (approx and n in APPROX)]
    omax = max([abs(omega(k + 1)) for k in range(len(frames))] + [0]) if approx else 0
    pool = {}
    for c in comps:
        c["free"] = asis and c["mxI"] <= 0
        if c["free"]:
            c["mxI"] = 0
        pool.setdefault(tuple(c[n] for n in keyf), []).append(c)
    for r in rows:
        d = dict(zip(FIELDS, r))
        key = tuple(d[n] for n in keyf)
        lst = pool.get(key)
        if not lst:
            return "emitted peak %r matches no (remaining) 3-D component" % (d,)
        hit, why = None, "max position is not a maximal voxel of its component"
        for c in lst:
            if approx:
                tol = approx_tolerances(c["n"], c["I"], c["I2"], omax, ns, nf)
                off = [n for n in APPROX if abs(d[n] - c[n]) > tol[n]]
                if off:
                    why = "sums %r differ from the component's by more than the rounding bound" % (off,)
                    continue
            if c["free"] or (d["mxo"], d["mxs"], d["mxf"]) in c["argmax"]:
                hit = c
                break
        if hit is None:
            return "emitted peak %r: %s" % (d, why)
        lst.remove(hit)
    return None


def exact_moments(r):
    """compute_moments from exact sums: dict of exact Fractions / (value under sqrt) for one row;
    None when the summed intensity is 0 (only possible with a negative threshold)."""
    import math
    n, tc = Fraction(r[N_]), Fraction(r[I_])
    if tc == 0:
        return None             # intensity-weighted centroid undefined (the code divides 0/0 -> nan)
    out = {"avg_i": tc / n}
    uf = Fraction(r[FI_]) / tc
    us = Fraction(r[SI_]) / tc
    uo = Fraction(r[OI_]) / tc
    vf = Fraction(r[FFI_]) / tc - uf * uf
    vs = Fraction(r[SSI_]) / tc - us * us
    vo = Fraction(r[OOI_]) / tc - uo * uo
    mff = math.sqrt(vf + 1) if vf + 1 > 0 else 1.0
    mss = math.sqrt(vs + 1) if vs + 1 > 0 else 1.0
    moo = math.sqrt(vo + 1) if vo + 1 > 0 else 1.0
    out.update({"f_raw": uf, "s_raw": us, "o_raw": uo, "m_ff": mff, "m_ss": mss, "m_oo": moo,
                "m_so": float(Fraction(r[SOI_]) / tc - us * uo) / mss / moo,
                "m_fo": float(Fraction(r[FOI_]) / tc - uf * uo) / mff / moo,
                "m_sf": float(Fraction(r[SFI_]) / tc - us * uf) / mss / mff})
    return out

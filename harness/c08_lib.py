"""C08 helper: the harness's OWN arithmetic (nothing here imports ImageD11).

 * reciprocal / real metric and a Busing-Levy style B from (a, b, c, alpha, beta, gamma)
 * brute-force hkl list inside a d* sphere with the centring absences written out again here
 * hkl error of g-vectors under a UBI (3 lines of numpy), counts with a margin rule at the tolerance boundary
 * cell parameters of a UBI, distortion of a UBI's cell against a supplied cell, and the bound on the distortion
   that ONE least-squares step (Paciorek: UB' = (sum g h^T)(sum h h^T)^-1) on peaks within hkl_tol can cause:
       g_k = UB (h_k + r_k), |r_k| < tol   =>   UB' = UB (I + E),  E = (sum r h^T) H^-1,
       ||E||_2 <= ||R||_F ||Hm^+||_2 < tol sqrt(N / lambda_min(H))
   so a reported orientation has "the supplied cell's parameters to within what the tolerance allows" iff its metric
   differs from the supplied one by no more than that E (the trial orientation itself must have the cell exactly)
 * expected hit lists of indexer.find (closest-angle mode and the all-candidates mode of cosine_tol < 0)
 * the competing-owner table of fight_over_peaks (which accepted matrices hold a peak within hkl_tol, ranked by error)
 * cells drawn at random inside a lattice class (no pseudo-symmetry: edges at least 10% apart, angles at least 6 degrees
   from 90 / from each other's special values) and a .gve writer (the file indexer.readgvfile reads)
"""
import math
import numpy as np

REL = 1e-9           # margin at strict comparisons against a tolerance (relative, on squared errors / cosines)


# ---------------------------------------------------------------------------------------------- cell
def real_metric(cell):
    a, b, c, al, be, ga = [float(x) for x in cell]
    ca, cb, cg = [math.cos(math.radians(x)) for x in (al, be, ga)]
    return np.array([[a * a, a * b * cg, a * c * cb],
                     [a * b * cg, b * b, b * c * ca],
                     [a * c * cb, b * c * ca, c * c]])


def real_L(cell):
    """rows = a, b, c in a Cartesian frame (a along x, b in xy): L L^T = real metric"""
    a, b, c, al, be, ga = [float(x) for x in cell]
    ca, cb, cg = [math.cos(math.radians(x)) for x in (al, be, ga)]
    sg = math.sin(math.radians(ga))
    cx = c * cb
    cy = c * (ca - cb * cg) / sg
    cz = math.sqrt(max(c * c - cx * cx - cy * cy, 0.0))
    return np.array([[a, 0, 0], [b * cg, b * sg, 0], [cx, cy, cz]])


def recip_B(cell):
    """columns = a*, b*, c* in the Cartesian frame of real_L: B = (L^-1) so that L B = I; B^T B = reciprocal metric"""
    return np.linalg.inv(real_L(cell))


def cellpars(ubi):
    """a, b, c, alpha, beta, gamma of the rows of a UBI"""
    ubi = np.asarray(ubi, float)
    g = ubi @ ubi.T
    a, b, c = [math.sqrt(g[i, i]) for i in range(3)]

    def ang(x):
        return math.degrees(math.acos(max(-1.0, min(1.0, x))))
    return (a, b, c, ang(g[1, 2] / b / c), ang(g[0, 2] / a / c), ang(g[0, 1] / a / b))


def cell_distortion(ubi, cell):
    """|| L^-1 (UBI UBI^T) L^-T - I ||_2 : zero iff the rows of UBI have exactly the supplied lengths and angles"""
    Li = np.linalg.inv(real_L(cell))
    ubi = np.asarray(ubi, float)
    D = Li @ (ubi @ ubi.T) @ Li.T - np.eye(3)
    return float(np.linalg.norm(D, 2))


def cell_cond(cell):
    return float(np.linalg.cond(real_L(cell)))


# ---------------------------------------------------------------------------------------------- hkls
def absent(cen, h, k, l):
    if cen == "P":
        return np.zeros(np.shape(h), bool)
    if cen == "A":
        return (k + l) % 2 != 0
    if cen == "B":
        return (h + l) % 2 != 0
    if cen == "C":
        return (h + k) % 2 != 0
    if cen == "I":
        return (h + k + l) % 2 != 0
    if cen == "F":
        return ((h + k) % 2 != 0) | ((h + l) % 2 != 0) | ((k + l) % 2 != 0)
    if cen == "R":                                    # obverse setting, hexagonal axes
        return (-h + k + l) % 3 != 0
    raise ValueError(cen)


def brute_hkls(cell, cen, dsmax):
    """every allowed hkl (not 000) with |B h| < dsmax: box |h| <= dsmax * a etc. (|h| = |g.a| <= |g| |a|)"""
    B = recip_B(cell)
    n = [int(math.floor(dsmax * float(cell[i]))) + 1 for i in range(3)]
    h, k, l = np.meshgrid(np.arange(-n[0], n[0] + 1), np.arange(-n[1], n[1] + 1), np.arange(-n[2], n[2] + 1), indexing="ij")
    h, k, l = h.ravel(), k.ravel(), l.ravel()
    keep = ~((h == 0) & (k == 0) & (l == 0)) & ~absent(cen, h, k, l)
    hkl = np.stack([h[keep], k[keep], l[keep]], axis=1)
    ds = np.linalg.norm(hkl @ B.T, axis=1)
    m = ds < dsmax
    order = np.lexsort((hkl[m][:, 2], hkl[m][:, 1], hkl[m][:, 0], np.round(ds[m] / dsmax, 9)))
    return hkl[m][order], ds[m][order]


def row_population(hkl):
    """the largest number of reflections of the list on one row through the origin (both directions counted)"""
    hkl = np.asarray(hkl, int)
    if len(hkl) == 0:
        return 0
    g = np.gcd.reduce(np.abs(hkl), axis=1)
    prim = hkl // g[:, None]
    first = np.array([row[np.nonzero(row)[0][0]] for row in prim])
    prim = prim * np.sign(first)[:, None]
    _, counts = np.unique(prim, axis=0, return_counts=True)
    return int(counts.max())


def ring_families(hkl, ds, ringds, ds_tol):
    """own hkl family of each of the code's rings (numbered by the code's ring d*), and whether the ring is CLEAN:
    exactly one distinct own d* lies within 1.01 ds_tol of the ring's d*, and it is the ring's d* (1e-7 relative).
    makerings puts an hkl on the current ring when its d* is within ds_tol of the ring's first d*, so the family of a
    clean ring is exactly that one own d* class; for the others
    the family is the set of own hkls within ds_tol (used for nothing that is judged strictly)."""
    ringds = np.asarray(ringds, float)
    ds = np.asarray(ds, float)
    order = np.argsort(ds)
    top = float(ds.max()) if len(ds) else 1.0
    cl = []                                         # distinct own d*: (value, member indices)
    for i in order:
        if cl and ds[i] - cl[-1][0] <= 1e-7 * top:
            cl[-1][1].append(i)
        else:
            cl.append((float(ds[i]), [i]))
    vals = np.array([c[0] for c in cl])
    members, clean = [], []
    for d in ringds:
        near = np.nonzero(np.abs(vals - d) < 1.01 * ds_tol)[0]
        ok = len(near) == 1 and abs(vals[near[0]] - d) <= 1e-7 * top
        clean.append(bool(ok))
        if ok:
            members.append(hkl[cl[near[0]][1]])
        else:
            members.append(hkl[np.abs(ds - d) < ds_tol])
    return members, clean


def noncollinear_pair(members, rings):
    """do the hkl families of the given rings hold two reflections that are not collinear (so that every grain owns a
    pair of peaks on these rings that fixes an orientation)?"""
    hk = [members[r] for r in rings if 0 <= r < len(members) and len(members[r])]
    if not hk:
        return False
    hk = np.concatenate(hk).astype(float)
    return bool(np.linalg.matrix_rank(hk) >= 2)


def ring_cosines(h1, h2, cell):
    """distinct cosines (1e-5 apart, as far as the statement of find needs) between two hkl families; no +-1"""
    if len(h1) == 0 or len(h2) == 0:
        return np.zeros(0)
    B = recip_B(cell)
    g1 = h1 @ B.T
    g2 = h2 @ B.T
    c = (g1 @ g2.T) / np.outer(np.linalg.norm(g1, axis=1), np.linalg.norm(g2, axis=1))
    c = np.sort(c.ravel())
    c = c[(np.abs(c - 1) >= 1e-5) & (np.abs(c + 1) >= 1e-5)]
    return c


# ---------------------------------------------------------------------------------------------- hkl errors
def hkl_err2(ubi, gv):
    h = np.asarray(gv, float) @ np.asarray(ubi, float).T
    d = h - np.rint(h)
    return (d * d).sum(axis=1)


def hkl_int(ubi, gv):
    return np.rint(np.asarray(gv, float) @ np.asarray(ubi, float).T)


def count_range(err2, tol):
    """(lo, hi): peaks certainly within tol / possibly within tol (a peak within 1e-9 relative of tol^2 may go either way)"""
    t2 = float(tol) ** 2
    return int((err2 < t2 * (1 - REL) - 1e-300).sum()), int((err2 < t2 * (1 + REL)).sum())


def mask_range(err2, tol):
    t2 = float(tol) ** 2
    return err2 < t2 * (1 - REL) - 1e-300, err2 < t2 * (1 + REL)


def refine_bound(ubi_pre, gv, tol):
    """(N, bound on ||E||_2) for one least-squares step from ubi_pre on the peaks of gv within tol (see module doc)"""
    e2 = hkl_err2(ubi_pre, gv)
    m = e2 < float(tol) ** 2 * (1 + REL)
    n = int(m.sum())
    if n < 3:
        return n, float("inf")
    hm = hkl_int(ubi_pre, gv[m])
    lam = float(np.linalg.eigvalsh(hm.T @ hm)[0])
    if lam <= 1e-9:
        return n, float("inf")
    return n, float(tol) * math.sqrt(n / lam)


def distortion_allowed(e, cond):
    """bound on cell_distortion when UB' = UB (I + E), ||E||_2 <= e, for a cell whose L has condition number cond"""
    t = cond * e
    if not (t < 0.5):
        return float("inf")
    t = t / (1 - t)                                   # (I + E)^-1 - I
    return (1 + t) ** 2 - 1


# ---------------------------------------------------------------------------------------------- find
EPS_COS = 2.1e-5     # find() merges allowed cosines closer than 1e-5 and drops those within 1e-5 of +-1


def expected_hits(gv, i1, i2, coses, cosine_tol):
    """what find() must offer, by own arithmetic; d(i, j) = distance of cos(angle between peaks i and j) to the nearest
    allowed cosine.
    closest mode (cosine_tol > 0): ring-1 peak i gets ONE hit iff min_j d(i, j) < cosine_tol, with a partner attaining
    the minimum -> (must_i, may): peaks that certainly have a hit, and the (i, j) pairs a hit may consist of.
    all mode (cosine_tol < 0): every (i, j) with d(i, j) < |cosine_tol| -> (must, may) sets of pairs.
    Everything within EPS_COS of a threshold / of the minimum may go either way."""
    gv = np.asarray(gv, float)
    coses = np.unique(np.asarray(coses, float))
    must, may = set(), set()
    if len(i1) == 0 or len(i2) == 0 or len(coses) == 0:
        return must, may
    n = gv / np.linalg.norm(gv, axis=1)[:, None]
    ct = n[i1] @ n[i2].T                                            # (n1, n2)
    k = np.clip(np.searchsorted(coses, ct), 1, len(coses) - 1) if len(coses) > 1 else np.zeros(ct.shape, int)
    diff = np.minimum(np.abs(ct - coses[k]), np.abs(ct - coses[k - 1])) if len(coses) > 1 else np.abs(ct - coses[0])
    tol = abs(float(cosine_tol))
    i1 = np.asarray(i1)
    i2 = np.asarray(i2)
    if cosine_tol > 0:
        best = diff.min(axis=1)
        for a in np.nonzero(best < tol + EPS_COS)[0]:
            if best[a] < tol - EPS_COS:
                must.add(int(i1[a]))
            for b in np.nonzero(diff[a] <= best[a] + EPS_COS)[0]:
                may.add((int(i1[a]), int(i2[b])))
    else:
        aa, bb = np.nonzero(diff < tol + EPS_COS)
        for a, b in zip(aa, bb):
            may.add((int(i1[a]), int(i2[b])))
            if diff[a, b] < tol - EPS_COS:
                must.add((int(i1[a]), int(i2[b])))
    return must, may


# ---------------------------------------------------------------------------------------------- fight_over_peaks
def fight_table(ubis, gv, tol):
    """fit[p] = [[k, rank], ...] (k = 1-based position of an accepted matrix holding peak p within tol, rank = rank of its
    own hkl error among them, equal ranks = exact tie), amb = 1-based peaks where the order of two errors or of an error
    and tol^2 cannot be trusted in floating point, win[p] = the owner the competing-owner rule gives (0-based, -1 none)"""
    n = len(gv)
    t2 = float(tol) ** 2
    fit = [[] for _ in range(n)]
    errs = [[] for _ in range(n)]
    amb = set()
    for k, u in enumerate(ubis):
        e2 = hkl_err2(u, gv)
        sure = e2 < t2 * (1 - REL) - 1e-300
        maybe = (e2 < t2 * (1 + REL)) & ~sure
        for p in np.nonzero(sure | maybe)[0]:
            errs[p].append((k + 1, float(e2[p])))
        for p in np.nonzero(maybe)[0]:
            amb.add(int(p) + 1)
    win = np.full(n, -1)
    for p in range(n):
        if not errs[p]:
            continue
        vals = sorted(set(e for _, e in errs[p]))
        for a, b in zip(vals, vals[1:]):
            if b - a <= REL * t2:
                amb.add(p + 1)
        fit[p] = [[k, vals.index(e)] for k, e in errs[p]]
        win[p] = min(errs[p], key=lambda ke: (ke[1], ke[0]))[0] - 1
    return fit, sorted(amb), win


# ---------------------------------------------------------------------------------------------- cells of a class
CENTRING_FACTOR = {"P": 1, "A": 2, "B": 2, "C": 2, "I": 2, "F": 4, "R": 3}


def cell_volume(cell):
    return float(abs(np.linalg.det(real_L(cell))))


PRIMITIVE = {"P": [[1, 0, 0], [0, 1, 0], [0, 0, 1]], "I": [[-.5, .5, .5], [.5, -.5, .5], [.5, .5, -.5]],
             "F": [[0, .5, .5], [.5, 0, .5], [.5, .5, 0]], "C": [[.5, -.5, 0], [.5, .5, 0], [0, 0, 1]],
             "A": [[1, 0, 0], [0, .5, -.5], [0, .5, .5]], "B": [[.5, 0, -.5], [0, 1, 0], [.5, 0, .5]],
             "R": [[2 / 3., 1 / 3., 1 / 3.], [-1 / 3., 1 / 3., 1 / 3.], [-1 / 3., -2 / 3., 1 / 3.]]}
_M3 = None


def reduced_basis(cell, cen):
    """rows = a reduced primitive basis of the (centred) lattice: pairwise size reduction and b3 +- b1 +- b2 until stable"""
    P = np.array(PRIMITIVE[cen], float) @ real_L(cell)
    for _ in range(100):
        P = P[np.argsort((P * P).sum(axis=1), kind="stable")]
        changed = False
        for i in range(3):
            for j in range(3):
                if i != j:
                    m = round(float(P[i] @ P[j]) / float(P[j] @ P[j]))
                    if m:
                        P[i] = P[i] - m * P[j]
                        changed = True
        best = P[2]
        for s1 in (-1, 0, 1):
            for s2 in (-1, 0, 1):
                c = P[2] + s1 * P[0] + s2 * P[1]
                if c @ c < best @ best * (1 - 1e-12):
                    best, changed = c, True
        P[2] = best
        if not changed:
            break
    return P


def lattice_symmetries(cell, cen, eps):
    """number of unimodular integer matrices (entries -1, 0, 1: enough on a reduced basis) that keep the metric of the
    lattice within eps (element ij relative to |b_i| |b_j|): the order of the lattice's point group when eps is tiny,
    and the number of approximate symmetries otherwise"""
    global _M3
    if _M3 is None:
        g = np.array(np.meshgrid(*[[-1, 0, 1]] * 9, indexing="ij")).reshape(9, -1).T.reshape(-1, 3, 3).astype(float)
        _M3 = g[np.abs(np.abs(np.linalg.det(g)) - 1) < 1e-9]
    P = reduced_basis(cell, cen)
    G = P @ P.T
    D = _M3 @ G @ np.transpose(_M3, (0, 2, 1)) - G
    d = np.sqrt(np.diag(G))
    return int(((np.abs(D) / np.outer(d, d)).reshape(len(_M3), -1).max(axis=1) <= eps).sum())


HOLOHEDRY = {"cubic": 48, "hexagonal": 24, "tetragonal": 16, "orthorhombic": 8, "monoclinic": 4, "rhombohedral": 12, "triclinic": 2}


def random_cell(rng, cls, nrefl=70):
    """(cell, centring, dsmax) of a cell drawn inside the class and WITHOUT pseudo-symmetry: its lattice has exactly the
    symmetries of the class and no further approximate one (metric kept within 6%); dsmax so that a grain holds about
    nrefl reflections"""
    for _ in range(200):
        cell, cen, dsmax = _draw_cell(rng, cls, nrefl)
        if lattice_symmetries(cell, cen, 1e-9) == HOLOHEDRY[cls] == lattice_symmetries(cell, cen, 0.06):
            return cell, cen, dsmax
    raise ValueError("no cell without pseudo-symmetry drawn for " + cls)


def _draw_cell(rng, cls, nrefl):
    def u(a, b):
        return float(rng.uniform(a, b))

    def pick(seq):
        return seq[int(rng.integers(0, len(seq)))]

    def edges():
        a = u(3.8, 5.0)
        b = a * u(1.1, 1.25)
        c = b * u(1.1, 1.25)
        e = [a, b, c]
        return [e[i] for i in rng.permutation(3)]

    def off90():
        return 90.0 + pick([-1.0, 1.0]) * u(6.0, 18.0)
    if cls == "cubic":
        a = u(2.8, 5.5)
        cell, cen = (a, a, a, 90.0, 90.0, 90.0), pick(["P", "I", "F"])
    elif cls == "hexagonal":
        a = u(2.6, 3.6)
        cell, cen = (a, a, a * u(1.25, 1.9), 90.0, 90.0, 120.0), "P"
    elif cls == "tetragonal":
        a = u(3.2, 4.8)
        cell, cen = (a, a, a * pick([u(0.6, 0.85), u(1.2, 1.8)]), 90.0, 90.0, 90.0), pick(["P", "I"])
    elif cls == "orthorhombic":
        a = u(3.5, 4.5)
        b = a * u(1.1, 1.3)
        cell, cen = (a, b, b * u(1.1, 1.3), 90.0, 90.0, 90.0), pick(["P", "C", "A", "I", "F"])
    elif cls == "monoclinic":
        a, b, c = edges()
        ang = u(96.0, 112.0)
        if rng.random() < 0.5:
            cell, cen = (a, b, c, 90.0, ang, 90.0), pick(["P", "C"])           # unique axis b
        else:
            cell, cen = (a, b, c, 90.0, 90.0, ang), pick(["P", "B"])           # unique axis c
    elif cls == "rhombohedral":
        if rng.random() < 0.5:
            a = u(4.5, 5.5)
            cell, cen = (a, a, a * u(2.3, 2.9), 90.0, 90.0, 120.0), "R"
        else:
            a = u(4.5, 5.5)
            al = pick([u(54.0, 57.5), u(63.0, 80.0)])
            cell, cen = (a, a, a, al, al, al), "P"
    elif cls == "triclinic":
        a, b, c = edges()
        cell, cen = (a, b, c, off90(), off90(), off90()), "P"
    else:
        raise ValueError(cls)
    dsmax = (nrefl * CENTRING_FACTOR[cen] / (4.0 / 3.0 * math.pi * cell_volume(cell))) ** (1.0 / 3.0)
    return tuple(float(x) for x in cell), cen, float(dsmax)


# ---------------------------------------------------------------------------------------------- .gve file
def write_gve(path, cell, cen, wavelength, gv):
    """the text file indexer.readgvfile reads: cell line, wavelength, wedge, (an hkl list the reader skips), then
    gx gy gz xc yc ds eta omega; numbers written with repr so that the g-vectors read back are the supplied ones"""
    gv = np.asarray(gv, float)
    with open(path, "w") as f:
        f.write(" ".join(repr(float(x)) for x in cell) + " " + cen + "\n")
        f.write("# wavelength = %r\n" % float(wavelength))
        f.write("# wedge = 0.000000\n")
        f.write("# ds h k l\n")
        f.write("#  gx  gy  gz  xc  yc  ds  eta  omega\n")
        for k, g in enumerate(gv):
            ds = math.sqrt(float(g[0]) ** 2 + float(g[1]) ** 2 + float(g[2]) ** 2)
            f.write("%r %r %r %.1f %.1f %r %.4f %.4f\n" % (float(g[0]), float(g[1]), float(g[2]), 100.0 + k % 900, 100.0 + k // 900,
                                                          ds, 10.0 + (k * 37) % 160, float(k % 180) - 90.0))

"""X06 helper: synthetic bliss master files, Lima files, sparse segmentation files and peak tables for
ImageD11.sinograms.dataset.DataSet, built with h5py only (offline).

The *content* of every file comes from the dataset table the specification emits (specs/DataSetState.tla,
operator DsTable): the harness does not hold a second copy of the numbers.  One dataset descriptor:

    {"name": "R180", "sample": "smp", "dset": "R180",
     "scans": [ {"name": "1.1", "title": "fscan", "det": "3d" | "2d" | "none", "nfr": 3,
                 "om": [0, 60, 120],          # measurement/<omegamotor>   (units of UNIT degrees)
                 "dty": [ -1 ] or [..nfr..],  # instrument/positioners/<dtymotor>: scalar when dtyscalar
                 "dtyscalar": true,
                 "mon": [..],                 # measurement/fpico6
                 "files": [2, 1],             # frames per Lima file (virtual sources)
                 "slow": 0, "fast": 0,        # fscan2d: instrument/fscan_parameters/{slow,fast}_npoints
                 "nnz": [..nfr..]             # pixels kept per frame by the segmentation
                 }, ...]}
Motor numbers are integers; the value written is  number * scale  (scale = 1.0 for omega in degrees and
0.5 for dty, see OMEGA_SCALE / DTY_SCALE) so that every value is exactly representable.
"""
import os
import numpy as np
import h5py

DETECTOR = "eiger"
OMEGAMOTOR = "rot_center"
DTYMOTOR = "dty"
MONITOR = "fpico6"
LIMAPATH = "/entry_0000/measurement/data"
IMSHAPE = (4, 5)
OMEGA_SCALE = 1.0
DTY_SCALE = 1.0


def lima_name(iscan, ifile):
    return "scan%04d/%s_%04d.h5" % (iscan + 1, DETECTOR, ifile)


def sparse_name(iscan, ifile):
    # what DataSet.import_imagefiles derives
    return os.path.join("sparsefiles", lima_name(iscan, ifile).replace("/", "_").replace(".h5", "_sparse.h5"))


def frame_pixels(iscan, iframe, n):
    """n distinct pixels (row, col, intensity) of frame iframe of scan iscan - deterministic"""
    rows, cols, vals = [], [], []
    for k in range(n):
        p = (3 * iscan + 7 * iframe + 11 * k) % (IMSHAPE[0] * IMSHAPE[1])
        while (p // IMSHAPE[1], p % IMSHAPE[1]) in zip(rows, cols):
            p = (p + 1) % (IMSHAPE[0] * IMSHAPE[1])
        rows.append(p // IMSHAPE[1])
        cols.append(p % IMSHAPE[1])
        vals.append(10 + iscan + 2 * iframe + k)
    return rows, cols, vals


def make_raw(dataroot, d):
    """master file + Lima files of dataset d below dataroot/<sample>/<sample>_<dset>/ ; returns master path"""
    dsname = "%s_%s" % (d["sample"], d["dset"])
    datapath = os.path.join(dataroot, d["sample"], dsname)
    os.makedirs(datapath, exist_ok=True)
    master = os.path.join(datapath, dsname + ".h5")
    with h5py.File(master, "w") as h:
        for isc, sc in enumerate(d["scans"]):
            g = h.create_group(sc["name"])
            g["title"] = "%s %s 0 1 %d 0.1" % (sc["title"], OMEGAMOTOR, sc["nfr"])
            m = g.create_group("measurement")
            m[OMEGAMOTOR] = np.array(sc["om"], float) * OMEGA_SCALE
            m[MONITOR] = np.array(sc["mon"], float)
            p = g.create_group("instrument/positioners")
            if sc["dtyscalar"]:
                p[DTYMOTOR] = float(sc["dty"][0]) * DTY_SCALE
            else:
                p[DTYMOTOR] = np.array(sc["dty"], float) * DTY_SCALE
            fp = g.create_group("instrument/fscan_parameters")
            fp["slow_npoints"] = int(sc.get("slow", 0))
            fp["fast_npoints"] = int(sc.get("fast", 0))
            fp["step_size"] = float(sc.get("step", 0)) * OMEGA_SCALE
            g["instrument/machine/current"] = 100.0 + isc
            if sc["det"] == "none":
                continue
            if sc["det"] == "2d":
                m[DETECTOR] = np.zeros(IMSHAPE, np.uint16)
                continue
            nfr = sc["nfr"]
            layout = h5py.VirtualLayout(shape=(nfr,) + IMSHAPE, dtype=np.uint16)
            lo = 0
            for ifile, nf in enumerate(sc["files"]):
                rel = lima_name(isc, ifile)
                full = os.path.join(datapath, rel)
                os.makedirs(os.path.dirname(full), exist_ok=True)
                with h5py.File(full, "w") as hl:
                    data = np.zeros((nf,) + IMSHAPE, np.uint16)
                    for k in range(nf):
                        r, c, v = frame_pixels(isc, lo + k, sc["nnz"][lo + k])
                        data[k][r, c] = v
                    hl[LIMAPATH] = data
                # an explicit source selection, as bliss writes it (DataSet reads vsrc.src_space.shape[0])
                layout[lo:lo + nf] = h5py.VirtualSource(rel, LIMAPATH, shape=(nf,) + IMSHAPE)[0:nf, :, :]
                lo += nf
            m.create_virtual_dataset(DETECTOR, layout, fillvalue=0)
    return master


def make_segmented(analysispath, d):
    """the per-Lima-file sparse segmentation files (what the segmenter writes) below analysispath/sparsefiles"""
    out = []
    for isc, sc in enumerate(d["scans"]):
        if sc["det"] != "3d":
            continue
        lo = 0
        for ifile, nf in enumerate(sc["files"]):
            full = os.path.join(analysispath, sparse_name(isc, ifile))
            os.makedirs(os.path.dirname(full), exist_ok=True)
            rows, cols, vals, nnz = [], [], [], []
            for k in range(nf):
                r, c, v = frame_pixels(isc, lo + k, sc["nnz"][lo + k])
                o = np.lexsort((c, r))
                rows += list(np.array(r, int)[o])
                cols += list(np.array(c, int)[o])
                vals += list(np.array(v, int)[o])
                nnz.append(len(r))
            with h5py.File(full, "w") as h:
                g = h.require_group(LIMAPATH)
                g["row"] = np.array(rows, np.uint16)
                g["col"] = np.array(cols, np.uint16)
                g["intensity"] = np.array(vals, np.uint16)
                g["nnz"] = np.array(nnz, np.uint32)
            out.append(full)
            lo += nf
    return out


def make_peaks(pksfile, peaks, nlabel):
    """a pks_table file: peaks = list of (s1, sI, srI, scI, frame, glabel)"""
    from ImageD11.sinograms.properties import pks_table
    pk = np.array([p[:5] for p in peaks], np.int64).T.reshape(5, len(peaks))
    gl = np.array([p[5] for p in peaks], np.int64)
    t = pks_table(ipk=np.array([0, len(peaks)]), pk_props=pk, glabel=gl, nlabel=nlabel)
    t.npk = np.array([[len(peaks), 0, 0]])
    os.makedirs(os.path.dirname(pksfile), exist_ok=True)
    if os.path.exists(pksfile):
        os.unlink(pksfile)
    t.save(pksfile)
    return pksfile

"""X05: what the callers of ImageD11.simplex do with the returned triple, on a small simulated 3DXRD problem.

refinegrains.refinepositions / refinegrains.fit (ImageD11/refinegrains.py 588-660) and transformer.fit
(ImageD11/transformer.py 372-432) are run on peaks simulated with harness/c09_sim.py.  ImageD11.simplex.Simplex is
replaced, for the duration of the call and from the harness process only, by a recording subclass: it logs every
evaluation of the objective and, when minimize returns, the returned triple and the vertices / stored values.

Laws judged here (they are what Simplex.tla calls ReturnIsBest and LastEvalIsReturned, seen from the caller):
  stored      what the caller keeps (grain.translation / the parameter object) is the returned point
  best        the returned point is a vertex carrying the smallest stored value
  consistent  returned value = the value the objective gave at the returned point
"""
import os, io, contextlib, types
import numpy as np
import c09_sim


class Recording(object):
    def __init__(self, simplex_mod):
        self.mod = simplex_mod
        self.real = simplex_mod.Simplex
        self.log = []

    def __enter__(self):
        real = self.real
        log = self.log

        class RecSimplex(real):
            def __init__(self, testfunc, guess, increments, *a, **kw):
                rec = {"evals": [], "guess0": list(guess), "inc": list(increments)}
                log.append(rec)

                def tf(args):
                    v = testfunc(args)
                    rec["evals"].append(([float(x) for x in args], float(v)))
                    return v
                real.__init__(self, tf, guess, increments, *a, **kw)
                self._rec = rec

            def minimize(self, *a, **kw):
                r = real.minimize(self, *a, **kw)
                rec = self._rec
                n = self.numvars
                rec["ret"] = ([float(x) for x in r[0]], float(r[1]), int(r[2]))
                rec["E"] = [float(e) for e in self.errors]
                rec["S"] = [[float(x) for x in v] for v in self.simplex[:n + 1]]
                rec["lowest"] = self.lowest
                rec["args"] = [repr(a), repr(sorted(kw.items()))]
                rec["nevals_at_return"] = len(rec["evals"])
                return r
        self.mod.Simplex = RecSimplex
        return self

    def __exit__(self, *exc):
        self.mod.Simplex = self.real
        return False


def simplex_facts(rec):
    """the laws on one recorded simplex run"""
    x, err, it = rec["ret"]
    emin = min(rec["E"])
    best = (err == emin) and any(rec["S"][v] == x and rec["E"][v] == err for v in range(len(rec["E"])))
    fx = [v for p, v in rec["evals"][:rec["nevals_at_return"]] if p == x]
    consistent = bool(fx) and fx[-1] == err
    # the code as it is: vertex `lowest` of the last ranking
    lo = rec["lowest"]
    asis = (lo >= 0 and rec["S"][lo] == x and rec["E"][lo] == err) or lo < 0
    last = rec["evals"][rec["nevals_at_return"] - 1][0]
    return {"best": best, "consistent": consistent, "asis": asis, "last_eval": last, "emin": emin,
            "argmin": rec["S"][rec["E"].index(emin)], "npass_reported": it}


def make_problem(mods, scratch, seed, k=0, ngrains=2, tag="x05"):
    transform, unitcell_mod, parameters, columnfile, grain = mods
    rng = np.random.default_rng(seed)
    pars = c09_sim.make_pars(rng, k)
    uc, grains, tab, worst = c09_sim.simulate(rng, transform, unitcell_mod, pars, ngrains, tmax=300.0)
    if len(tab) < 60 * ngrains or worst > 1e-7:
        raise RuntimeError("simulation produced %d peaks, forward error %g" % (len(tab), worst))
    d = os.path.join(scratch, tag)
    os.makedirs(d, exist_ok=True)
    parfile, fltfile, ubifile = [os.path.join(d, n) for n in ("sim.par", "sim.flt", "start.map")]
    po = parameters.parameters(**pars)
    po.saveparameters(parfile)
    tab = tab[rng.permutation(len(tab))]
    cf = columnfile.colfile_from_dict({"sc": tab[:, 0].copy(), "fc": tab[:, 1].copy(), "omega": tab[:, 2].copy(),
                                       "Number_of_pixels": np.full(len(tab), 10.0), "avg_intensity": np.full(len(tab), 100.0),
                                       "sum_intensity": np.full(len(tab), 1000.0), "spot3d_id": np.arange(len(tab), dtype=float)})
    cf.parameters = po
    cf.writefile(fltfile)
    start = []
    for (ubi, t) in grains:
        u0 = ubi @ c09_sim.small_rotation(rng, 1e-3).T
        t0 = t + rng.uniform(-30, 30, size=3)
        start.append(grain.grain(u0, translation=t0))
    grain.write_grain_file(ubifile, start)
    return {"parfile": parfile, "fltfile": fltfile, "ubifile": ubifile, "pars": pars, "grains": grains, "npeaks": len(tab)}


def new_refiner(rgmod, prob):
    o = rgmod.refinegrains(tolerance=0.05, intensity_tth_range=(0., 180.), OmFloat=False, OmSlop=0.05)
    o.loadparameters(prob["parfile"])
    o.loadfiltered(prob["fltfile"])
    o.readubis(prob["ubifile"])
    o.generate_grains()
    return o


def run_refinepositions(rgmod, simplex_mod, prob, maxiters):
    """-> list of per-grain dicts"""
    out = []
    with contextlib.redirect_stdout(io.StringIO()):
        o = new_refiner(rgmod, prob)
        with Recording(simplex_mod) as R:
            if maxiters is None:
                o.refinepositions()
            else:
                o.refinepositions(maxiters=maxiters)
    keys = sorted(o.grains.keys())
    if len(R.log) != len(keys):
        raise RuntimeError("refinepositions made %d simplex runs for %d grains" % (len(R.log), len(keys)))
    for key, rec in zip(keys, R.log):
        facts = simplex_facts(rec)
        stored = [float(x) for x in o.grains[key].translation]
        out.append({"caller": "refinegrains.refinepositions", "grain": int(key[0]), "maxiters": maxiters, "stored": stored,
                    "returned": rec["ret"], "stored_is_returned": stored == rec["ret"][0],
                    "stored_is_last_eval": stored == facts["last_eval"], "facts": facts, "args": rec["args"],
                    "nevals": rec["nevals_at_return"],
                    "dist_stored_best_um": float(np.abs(np.array(stored) - np.array(facts["argmin"])).max())})
    return out


def run_fit(rgmod, simplex_mod, prob, maxiters, vary=("y_center", "z_center", "t_x")):
    with contextlib.redirect_stdout(io.StringIO()):
        o = new_refiner(rgmod, prob)
        o.parameterobj.varylist = list(vary)
        # start a little off, so that there is something to fit
        o.parameterobj.parameters["y_center"] += 0.4
        with Recording(simplex_mod) as R:
            o.fit(maxiters=maxiters)
    if len(R.log) != 1:
        raise RuntimeError("fit made %d simplex runs" % len(R.log))
    rec = R.log[0]
    facts = simplex_facts(rec)
    stored = [float(o.parameterobj.get(p)) for p in vary]
    ok_t = True
    if "t_x" in vary:
        i = list(vary).index("t_x")
        ok_t = all(float(g.translation[0]) == rec["ret"][0][i] for g in o.grains.values())
    return {"caller": "refinegrains.fit", "maxiters": maxiters, "stored": stored, "returned": rec["ret"],
            "stored_is_returned": stored == rec["ret"][0] and ok_t, "stored_is_last_eval": stored == facts["last_eval"],
            "facts": facts, "args": rec["args"], "nevals": rec["nevals_at_return"]}


def run_transformer_fit(transformer_mod, simplex_mod, prob):
    with contextlib.redirect_stdout(io.StringIO()):
        t = transformer_mod.transformer()
        t.loadfileparameters(prob["parfile"])
        t.loadfiltered(prob["fltfile"])
        t.parameterobj.varylist = ["y_center", "z_center", "distance"]
        t.parameterobj.parameters["z_center"] += 0.3
        t.parameterobj.parameters["distance"] += 150.0
        with Recording(simplex_mod) as R:
            t.fit(0.0, 20.0)
    if len(R.log) != 2:
        raise RuntimeError("transformer.fit made %d simplex runs" % len(R.log))
    out = []
    for i, rec in enumerate(R.log):
        facts = simplex_facts(rec)
        d = {"caller": "transformer.fit run %d" % (i + 1), "returned": rec["ret"], "facts": facts, "args": rec["args"],
             "nevals": rec["nevals_at_return"], "maxiters": 250}
        if i == 0:
            # the second run starts from the first one's answer
            d["stored"] = R.log[1]["guess0"]
            d["stored_is_returned"] = R.log[1]["guess0"] == rec["ret"][0]
        else:
            d["stored"] = [float(t.parameterobj.get(p)) for p in t.parameterobj.varylist]
            d["stored_is_returned"] = d["stored"] == rec["ret"][0]
            # transformer.fit calls gof(newguess) after the run: the objective's side effects are left at the answer
            d["reevaluated_at_answer"] = len(rec["evals"]) == rec["nevals_at_return"] + 1 and rec["evals"][-1][0] == rec["ret"][0]
        d["stored_is_last_eval"] = d["stored"] == facts["last_eval"]
        out.append(d)
    return out

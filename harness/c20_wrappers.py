"""C20 - the Python callers that allocate the kernels' work arrays, and the guard that asserts the kernels' preconditions
on every call such a caller makes (used by c20_driver.py inside the child process).

guard    `install()` replaces every kernel attribute of the module the library's Python code calls through
         (ImageD11.cImageD11.<kernel>) by a function that first evaluates the preconditions KernelCalls!Extents names for
         that kernel - the extents and index ranges the f2py layer does NOT enforce (compress_duplicates: tmp longer than
         the largest label; bloboverlaps: rows(results) >= npk and labels <= npk; coverlaps: labels in 1..npk, results
         long enough; sorted coo lists; indices in range ...) - on the actual arguments, and only then calls the kernel.
         A violated precondition is a finding of the case that is running (the kernel is not entered: the verdict does not
         depend on what the heap looks like behind the array).  The descriptor handlers of c20_driver call the raw
         extension module and are not guarded: they are the well-formed calls of the lattice themselves.
callers  handlers for the descriptors of KernelCalls!Callers (k = "py:..."): sparseframe.overlaps_linear / overlaps_matrix
         / overlaps with label values per frame, exactly at / one above the capacity the caching object was created with,
         and far above the pixel count; the frame functions; SparseScan.cplabel / lmlabel (read from an HDF5 file);
         labelimage peaksearch / mergelast / finalise with every verbose value.  Expected values come from numpy / scipy
         references (never from the code under test); the memory verdict comes from the sanitizers and the guard.
"""
import os, sys, io
import numpy as np

HERE = os.path.dirname(os.path.abspath(__file__))


class GuardError(Exception):
    """a Python caller handed a kernel arguments outside its documented preconditions"""


class Guard(object):
    def __init__(self):
        self.calls = {}          # kernel -> guarded calls
        self.case_calls = {}     # kernel -> guarded calls of the running case
        self.pending = []        # violated preconditions of the running case
        self.installed = False
        self.raw = {}

    def reset_case(self):
        self.case_calls = {}
        self.pending = []


G = Guard()


def _sorted_coo(i, j):
    i = np.asarray(i).astype(np.int64)
    j = np.asarray(j).astype(np.int64)
    if len(i) < 2:
        return True
    p = i * 65536 + j
    return bool((p[1:] > p[:-1]).all())


def _a(x):
    return np.asarray(x)


# kernel -> function(args...) -> list of (tag of KernelCalls!Extents, detail) that do NOT hold
def pre_compress_duplicates(i, j, oi, oj, tmp):
    i, j, tmp = _a(i), _a(j), _a(tmp)
    bad = []
    if len(i) < 1:
        bad.append(("n >= 1", "n = %d" % len(i)))
        return bad
    lo = min(int(i.min()), int(j.min()))
    hi = max(int(i.max()), int(j.max()))
    if lo < 0:
        bad.append(("0 <= i, j", "smallest label %d" % lo))
    if not hi < len(tmp):
        bad.append(("max(i, j) < len(tmp)", "tmp has %d entries, the labels handed over go to %d" % (len(tmp), hi)))
    return bad


def pre_coverlaps(row1, col1, labels1, row2, col2, labels2, mat, results):
    bad = []
    if not (_sorted_coo(row1, col1) and _sorted_coo(row2, col2)):
        bad.append(("coo strictly sorted", "row/col lists not strictly sorted"))
        return bad
    m = _a(mat)
    npk1, npk2 = (m.shape + (0, 0))[:2] if m.ndim == 2 else (0, 0)
    l1, l2 = _a(labels1), _a(labels2)
    p1 = _a(row1).astype(np.int64) * 65536 + _a(col1)
    p2 = _a(row2).astype(np.int64) * 65536 + _a(col2)
    _, a, b = np.intersect1d(p1, p2, return_indices=True)
    if len(a):
        if l1[a].min() < 1 or l1[a].max() > npk1:
            bad.append(("labels1 in 1..npk1", "labels1 of shared pixels %d..%d, npk1 = %d" % (l1[a].min(), l1[a].max(), npk1)))
        if l2[b].min() < 1 or l2[b].max() > npk2:
            bad.append(("labels2 in 1..npk2", "labels2 of shared pixels %d..%d, npk2 = %d" % (l2[b].min(), l2[b].max(), npk2)))
        npairs = len(set(zip(l1[a].tolist(), l2[b].tolist())))
        if _a(results).size < 3 * npairs:
            bad.append(("len(results) >= 3 * overlapping label pairs", "results has %d entries, %d pairs overlap" % (
                _a(results).size, npairs)))
    return bad


def pre_bloboverlaps(labels1, npk1, results1, labels2, npk2, results2, verbose=0):
    bad = []
    r1, r2, l1, l2 = _a(results1), _a(results2), _a(labels1), _a(labels2)
    if r1.ndim != 2 or r1.shape[0] < npk1:
        bad.append(("rows(results1) >= npk1", "results1 shape %s, npk1 = %d" % (r1.shape, npk1)))
    if r2.ndim != 2 or r2.shape[0] < npk2:
        bad.append(("rows(results2) >= npk2", "results2 shape %s, npk2 = %d" % (r2.shape, npk2)))
    if l1.size and (l1.min() < 0 or l1.max() > npk1):
        bad.append(("labels1 in 0..npk1", "labels1 %d..%d, npk1 = %d" % (l1.min(), l1.max(), npk1)))
    if l2.size and (l2.min() < 0 or l2.max() > npk2):
        bad.append(("labels2 in 0..npk2", "labels2 %d..%d, npk2 = %d" % (l2.min(), l2.max(), npk2)))
    return bad


def _min_cols(data, *a, **k):
    s = _a(data).shape
    return [] if len(s) == 2 and s[1] >= 2 else [("nf >= 2", "image shape %s" % (s,))]


def _min_rows(msk, *a, **k):
    s = _a(msk).shape
    return [] if len(s) == 2 and s[0] >= 2 else [("ns >= 2", "mask shape %s" % (s,))]


def pre_make_clean_mask(img, cut, msk, ret):
    return _min_rows(msk)


def _pre_sorted(v, i, j, *a, **k):
    return [] if _sorted_coo(i, j) else [("coo strictly sorted", "row/col list not strictly sorted")]


def pre_sparse_overlaps(i1, j1, k1, i2, j2, k2):
    return [] if (_sorted_coo(i1, j1) and _sorted_coo(i2, j2)) else [("coo strictly sorted", "row/col lists not strictly sorted")]


def pre_sparse_cp_splat(v, i, j, th, lbl, Z, ni, nj):
    bad = _pre_sorted(v, i, j)
    i, j = _a(i), _a(j)
    if len(i) and (int(i.max()) >= ni or int(j.max()) >= nj):
        bad.append(("i < ni, j < nj", "largest row %d column %d on a %d x %d frame" % (i.max(), j.max(), ni, nj)))
    return bad


def pre_sparse_blob2d(v, i, j, labels, npk):
    l = _a(labels)
    return [("labels >= 0", "smallest label %d" % l.min())] if l.size and l.min() < 0 else []


def pre_tosparse_u32(img, msk, row, col, val, cut):
    img, msk = _a(img), _a(msk)
    if img.shape != msk.shape:
        return []
    cnt = int(((msk != 0) & (img > cut)).sum())
    short = min(_a(row).size, _a(col).size, _a(val).size)
    return [] if short >= cnt else [("len(row), len(col), len(val) >= selected pixels", "%d pixels selected, shortest buffer %d" % (cnt, short))]


def pre_put_incr(data, ind, vals, boundscheck=0):
    ind = _a(ind)
    if boundscheck or ind.size == 0:
        return []
    m = _a(data).size
    return [] if (ind.min() >= 0 and ind.max() < m) else [("boundscheck = 0 => 0 <= ind < m", "indices %d..%d, m = %d" % (ind.min(), ind.max(), m))]


def pre_reorder(data, adr, out):
    adr = _a(adr)
    n = _a(data).size
    return [] if adr.size == 0 or (adr.min() >= 0 and adr.max() < n) else [("0 <= adr < N", "addresses %d..%d, N = %d" % (adr.min(), adr.max(), n))]


def pre_reorder_a16(data, adr0, adr1, out):
    a0, a1 = _a(adr0).astype(np.int64), _a(adr1).astype(np.int64)
    if a1.ndim != 2 or a0.shape != a1.shape[:1] or a1.size == 0:
        return []
    adr = a0[:, None] + np.cumsum(a1, axis=1)
    n = a1.size
    return [] if (adr.min() >= 0 and adr.max() < n) else [("0 <= adr0 + cumsum(adr1) < ns * nf", "addresses %d..%d, %d pixels" % (adr.min(), adr.max(), n))]


def pre_cluster1d(ar, order, tol, ids, avgs):
    o = _a(order)
    n = _a(ar).size
    return [] if o.size == 0 or (o.min() >= 0 and o.max() < n) else [("0 <= order < n", "order %d..%d, n = %d" % (o.min(), o.max(), n))]


def pre_array_histogram(img, low, high, hist):
    return [] if _a(hist).size >= 1 else [("nhist >= 1", "nhist = 0")]


PRE = {
    "compress_duplicates": pre_compress_duplicates, "coverlaps": pre_coverlaps, "bloboverlaps": pre_bloboverlaps,
    "connectedpixels": _min_cols, "localmaxlabel": _min_cols, "clean_mask": _min_rows, "make_clean_mask": pre_make_clean_mask,
    "sparse_connectedpixels": _pre_sorted, "sparse_localmaxlabel": _pre_sorted, "sparse_smooth": _pre_sorted,
    "sparse_overlaps": pre_sparse_overlaps, "sparse_connectedpixels_splat": pre_sparse_cp_splat,
    "sparse_blob2Dproperties": pre_sparse_blob2d, "tosparse_u32": pre_tosparse_u32,
    "put_incr32": pre_put_incr, "put_incr64": pre_put_incr,
    "reorder_u16_a32": pre_reorder, "reorder_f32_a32": pre_reorder, "reorderlut_u16_a32": pre_reorder,
    "reorderlut_f32_a32": pre_reorder, "reorder_u16_a32_a16": pre_reorder_a16, "cluster1d": pre_cluster1d,
    "array_histogram": pre_array_histogram,
}

# the tags each precondition function can report (compared with KernelCalls!Extents by props/c20.py)
TAGS = {
    "compress_duplicates": ["n >= 1", "0 <= i, j", "max(i, j) < len(tmp)"],
    "coverlaps": ["coo strictly sorted", "labels1 in 1..npk1", "labels2 in 1..npk2", "len(results) >= 3 * overlapping label pairs"],
    "bloboverlaps": ["rows(results1) >= npk1", "rows(results2) >= npk2", "labels1 in 0..npk1", "labels2 in 0..npk2"],
    "connectedpixels": ["nf >= 2"], "localmaxlabel": ["nf >= 2"], "clean_mask": ["ns >= 2"], "make_clean_mask": ["ns >= 2"],
    "sparse_connectedpixels": ["coo strictly sorted"], "sparse_localmaxlabel": ["coo strictly sorted"],
    "sparse_smooth": ["coo strictly sorted"], "sparse_overlaps": ["coo strictly sorted"],
    "sparse_connectedpixels_splat": ["coo strictly sorted", "i < ni, j < nj"],
    "sparse_blob2Dproperties": ["labels >= 0"],
    "tosparse_u32": ["len(row), len(col), len(val) >= selected pixels"],
    "put_incr32": ["boundscheck = 0 => 0 <= ind < m"], "put_incr64": ["boundscheck = 0 => 0 <= ind < m"],
    "reorder_u16_a32": ["0 <= adr < N"], "reorder_f32_a32": ["0 <= adr < N"], "reorderlut_u16_a32": ["0 <= adr < N"],
    "reorderlut_f32_a32": ["0 <= adr < N"], "reorder_u16_a32_a16": ["0 <= adr0 + cumsum(adr1) < ns * nf"],
    "cluster1d": ["0 <= order < n"], "array_histogram": ["nhist >= 1"],
}


def install():
    """guard every kernel attribute of ImageD11.cImageD11 (the name the library's Python code calls through)"""
    if G.installed:
        return
    import ImageD11.cImageD11 as cmod
    import ImageD11._cImageD11 as raw
    for name in dir(raw):
        fn = getattr(raw, name)
        if type(fn).__name__ != "fortran" or name.startswith("cimaged11_omp"):
            continue
        G.raw[name] = fn
        setattr(cmod, name, _guarded(name, fn))
    if hasattr(cmod, "put_incr"):       # (cImageD11.put_incr redirects to put_incr64 / put_incr32 through the module globals)
        pass
    G.installed = True


def _guarded(name, fn):
    pre = PRE.get(name)

    def call(*a, **k):
        G.calls[name] = G.calls.get(name, 0) + 1
        G.case_calls[name] = G.case_calls.get(name, 0) + 1
        if pre is not None:
            try:
                bad = pre(*a, **k)
            except (TypeError, ValueError, IndexError):
                bad = []            # arguments the f2py layer itself refuses (wrong count / rank): its error is the answer
            if bad:
                msg = "precondition of %s violated by its Python caller: %s" % (
                    name, "; ".join("%s (%s)" % b for b in bad))
                G.pending.append(msg)
                raise GuardError(msg)
        return fn(*a, **k)
    call.__name__ = name
    call.__doc__ = fn.__doc__
    return call


# ================================================================================================
# the callers (descriptors of KernelCalls!Callers)

W = {}


def caller(name):
    def deco(f):
        W[name] = f
        return f
    return deco


def _D():
    import c20_driver
    return c20_driver


class Skip(Exception):
    """the label numbering of the descriptor does not exist on this shape (KernelCalls!WellFormed: base >= 0)"""


def wnum(d, len1, len2, c1n, c2n):
    """mirror of KernelCalls!WCap / WBase / WNum"""
    k, opt, par = d["k"], d["opt"], d["par"]
    if k == "py:overlaps_linear":
        cap = {0: 4 * 4096, 1: max(len1, len2) + 1, 2: 1}[opt]
    elif k == "py:overlaps_matrix":
        cap = {0: 256, 1: max(c1n, c2n, 1), 2: 1}[opt]
    else:
        cap = 0
    if par == "frame":
        return dict(base=0, off2=0, n1=c1n, n2=c2n, cap=cap, len1=len1, len2=len2)
    base = {"atcap": cap - c1n - c2n, "above": cap + 1 - c1n - c2n, "far": 100000}[par]
    return dict(base=base, off2=base + c1n, n1=base + c1n, n2=base + c1n + c2n, cap=cap, len1=len1, len2=len2)


def ref_pairs(la, lb, both):
    """(label1, label2, shared pixels), sorted by (label1, label2): independent count"""
    if not both.any():
        return np.zeros((0, 3), np.int64)
    pr, cnt = np.unique(np.stack([la[both], lb[both]], axis=1), axis=0, return_counts=True)
    return np.concatenate([pr, cnt[:, None]], axis=1).astype(np.int64)


_OBJ = {}       # long-lived caching objects, one per (caller, capacity class): the history of a process


def _overlap_frames(d, mat, cx):
    D = _D()
    im = D.Img(d, cx)
    la, c1n = D.components(im.m1, 1)
    lb, c2n = D.components(im.m2, 1)
    i1, j1 = im.coo(im.m1)
    i2, j2 = im.coo(im.m2)
    w = wnum(d, len(i1), len(i2), c1n, c2n)
    if "mask1" in mat:
        cx.gen("mask1", im.m1.astype(int), mat["mask1"])
        cx.gen("mask2", im.m2.astype(int), mat["mask2"])
        if "w" in mat:
            cx.gen("lab8", la, mat["lab8"])
            cx.gen("lab2", lb, mat["lab2"])
            cx.gen("label numbering", [w[q] for q in sorted(w)], [mat["w"][q] for q in sorted(w)])
    if w["base"] < 0:
        raise Skip()
    l1 = np.where(la > 0, la + w["base"], 0).astype(np.int32)
    l2 = np.where(lb > 0, lb + w["off2"], 0).astype(np.int32)
    both = im.m1 & im.m2
    exp = ref_pairs(l1, l2, both)
    return im, (i1, j1, np.ascontiguousarray(l1[im.m1])), (i2, j2, np.ascontiguousarray(l2[im.m2])), w, exp


def _empty_ok(cx, e, arrays):
    """an exception of a caller handed an empty list is the refusal of the f2py layer (zero-length arrays), recorded"""
    D = _D()
    if isinstance(e, (ValueError, TypeError)) and any(len(a) == 0 for a in arrays):
        raise D.Rejected("%s: %s" % (type(e).__name__, str(e).strip().splitlines()[0][:160]))
    raise e


@caller("py:overlaps_linear")
def w_overlaps_linear(d, mat, cx):
    from ImageD11 import sparseframe
    im, f1, f2, w, exp = _overlap_frames(d, mat, cx)
    objs = [("fresh", sparseframe.overlaps_linear(w["cap"]) if d["opt"] else sparseframe.overlaps_linear())]
    key = ("lin", d["opt"])
    if key not in _OBJ:
        _OBJ[key] = sparseframe.overlaps_linear(w["cap"]) if d["opt"] else sparseframe.overlaps_linear()
    objs.append(("reused", _OBJ[key]))
    for how, ol in objs:
        try:
            nedge, rcl = ol(f1[0], f1[1], f1[2], w["n1"], f2[0], f2[1], f2[2], w["n2"])
        except GuardError:
            raise
        except Exception as e:      # noqa
            _empty_ok(cx, e, (f1[0], f2[0]))
        cx.checked.add("ret")
        if not cx.eq("overlaps_linear (%s object) number of label pairs" % how, nedge, len(exp)):
            continue
        if nedge:
            cx.eq("overlaps_linear (%s object) (label1, label2, shared pixels)" % how, np.asarray(rcl, np.int64), exp)
        # what the object holds after the call: long enough for the labels it was told about
        if len(ol.tmp) <= max(w["n1"], w["n2"]) and len(exp):
            cx.bad("overlaps_linear (%s object): tmp has %d entries after a call with n1 = %d, n2 = %d" % (
                how, len(ol.tmp), w["n1"], w["n2"]))


@caller("py:overlaps_matrix")
def w_overlaps_matrix(d, mat, cx):
    from ImageD11 import sparseframe
    im, f1, f2, w, exp = _overlap_frames(d, mat, cx)
    key = ("mat", d["opt"])
    if key not in _OBJ:
        _OBJ[key] = sparseframe.overlaps_matrix(w["cap"]) if d["opt"] else sparseframe.overlaps_matrix()
    for how, om in (("fresh", sparseframe.overlaps_matrix(w["cap"]) if d["opt"] else sparseframe.overlaps_matrix()),
                    ("reused", _OBJ[key])):
        try:
            nov, res = om(f1[0], f1[1], f1[2], w["n1"], f2[0], f2[1], f2[2], w["n2"])
        except GuardError:
            raise
        except Exception as e:      # noqa
            _empty_ok(cx, e, (f1[0], f2[0]))
        cx.checked.add("ret")
        if cx.eq("overlaps_matrix (%s object) number of label pairs" % how, nov, len(exp)):
            cx.eq("overlaps_matrix (%s object) (label1, label2, shared pixels)" % how, np.asarray(res, np.int64).reshape(-1, 3), exp)


def _frame(sparseframe, i, j, shape, **pixels):
    f = sparseframe.sparse_frame(i, j, shape)
    for name, (vals, meta) in pixels.items():
        f.set_pixels(name, vals, meta)
    return f


@caller("py:overlaps")
def w_overlaps(d, mat, cx):
    from ImageD11 import sparseframe
    im, f1, f2, w, exp = _overlap_frames(d, mat, cx)
    try:
        fr1 = _frame(sparseframe, f1[0], f1[1], (im.ns, im.nf), labels=(f1[2], {"nlabel": w["n1"]}))
        fr2 = _frame(sparseframe, f2[0], f2[1], (im.ns, im.nf), labels=(f2[2], {"nlabel": w["n2"]}))
        m = sparseframe.overlaps(fr1, "labels", fr2, "labels")
    except GuardError:
        raise
    except Exception as e:      # noqa
        _empty_ok(cx, e, (f1[0], f2[0]))
    cx.checked.add("ret")
    m = m.tocoo()
    got = np.stack([m.row + 1, m.col + 1, m.data], axis=1).astype(np.int64) if m.nnz else np.zeros((0, 3), np.int64)
    got = got[np.lexsort((got[:, 1], got[:, 0]))]
    cx.eq("sparseframe.overlaps (label1, label2, shared pixels)", got, exp)
    cx.eq("sparseframe.overlaps matrix shape", m.shape, (w["n1"], w["n2"]))


def _one_frame(d, mat, cx, values=None):
    D = _D()
    from ImageD11 import sparseframe
    im = D.Img(d, cx)
    if "mask1" in mat:
        cx.gen("mask1", im.m1.astype(int), mat["mask1"])
    i, j = im.coo()
    v = im.data[im.m1] if values is None else values(d, im)
    v = cx.inj(np.ascontiguousarray(v).copy())        # value class of the intensities (KernelCalls!FV / FvAt)
    try:
        f = _frame(sparseframe, i, j, (im.ns, im.nf), intensity=(v, {}))
    except Exception as e:      # noqa
        _empty_ok(cx, e, (i,))
    return D, sparseframe, im, i, j, v, f


@caller("py:sparse_connected_pixels")
def w_sparse_cp(d, mat, cx):
    D, sf, im, i, j, v, f = _one_frame(d, mat, cx)
    thr = D.THRVAL[d["par"]]
    try:
        n = sf.sparse_connected_pixels(f, threshold=thr)
    except GuardError:
        raise
    except Exception as e:      # noqa
        _empty_ok(cx, e, (i,))
    cx.checked.add("ret")
    el, en = D.components(im.data > thr, 1)
    cx.eq("sparse_connected_pixels count", n, en)
    cx.eq("sparse_connected_pixels labels", f.pixels["connectedpixels"], el[im.m1])


@caller("py:sparse_localmax")
def w_sparse_lm(d, mat, cx):
    D, sf, im, i, j, v, f = _one_frame(d, mat, cx, values=lambda d, im: _D().sp_values(d, im))
    try:
        n = sf.sparse_localmax(f)
    except GuardError:
        raise
    except Exception as e:      # noqa
        _empty_ok(cx, e, (i,))
    cx.checked.add("ret")
    lab = f.pixels["localmax"]
    if len(lab) and (lab.min() < 1 or lab.max() > n):
        cx.bad("sparse_localmax: labels outside 1..%d: min %d max %d" % (n, lab.min(), lab.max()))
    if d["par"] != "flat" and cx.finite:
        full = np.zeros((im.ns, im.nf), np.float32)
        full[im.m1] = v
        es = D.expected_sparse(full.ravel(), im.ns, im.nf, im.m1)
        if es is not None:
            cx.eq("sparse_localmax labels (definition)", lab, np.array(es[0], np.int32))
            cx.eq("sparse_localmax count", n, es[1])


@caller("py:sparse_smooth")
def w_sparse_smooth(d, mat, cx):
    D, sf, im, i, j, v, f = _one_frame(d, mat, cx, values=lambda d, im: _D().sp_values(d, im))
    try:
        s = sf.sparse_smooth(f)
    except GuardError:
        raise
    except Exception as e:      # noqa
        _empty_ok(cx, e, (i,))
    cx.checked.add("ret")
    cx.close("sparseframe.sparse_smooth", s, D.ref_smooth(im, v), rel=1e-5)


@caller("py:sparse_moments")
def w_sparse_moments(d, mat, cx):
    D, sf, im, i, j, v, f = _one_frame(d, mat, cx)
    l8, n = D.components(im.m1, 1)
    lab = l8[im.m1].astype(np.int32)
    try:
        f.set_pixels("labels", lab, {"nlabel": n})
        res = sf.sparse_moments(f, "intensity", "labels")
    except GuardError:
        raise
    except Exception as e:      # noqa
        _empty_ok(cx, e, (i,))
    cx.checked.add("ret")
    cx.close("sparse_moments", res, D.ref_blob2d(cx.c, i, j, v, lab, n))


@caller("py:from_data_mask")
def w_from_data_mask(d, mat, cx):
    D = _D()
    from ImageD11 import sparseframe
    im = D.Img(d, cx)
    if "mask1" in mat:
        cx.gen("mask1", im.m1.astype(int), mat["mask1"])
    try:
        f = sparseframe.from_data_mask(im.m1.astype(np.int8), im.data, {})
    except GuardError:
        raise
    except Exception as e:      # noqa
        _empty_ok(cx, e, (np.nonzero(im.m1)[0],))
    cx.checked.add("ret")
    ei, ej = im.coo()
    cx.eq("from_data_mask row", f.row, ei)
    cx.eq("from_data_mask col", f.col, ej)
    cx.eq("from_data_mask intensity", f.pixels["intensity"], im.data[im.m1])


@caller("py:from_data_cut")
def w_from_data_cut(d, mat, cx):
    D = _D()
    from ImageD11 import sparseframe
    im = D.Img(d, cx)
    if "mask1" in mat:
        cx.gen("mask1", im.m1.astype(int), mat["mask1"])
    dt = np.float32 if d["opt"] else np.uint16
    data = np.where(im.m1, im.v, 0).astype(dt)
    cutv = D.THRVAL[d["par"]]
    cut = float(cutv) if d["opt"] else int(cutv)
    sel = data > dt(cutv)
    try:
        f = sparseframe.from_data_cut(data, cut)
    except GuardError:
        raise
    except Exception as e:      # noqa
        _empty_ok(cx, e, (np.nonzero(sel)[0],))
    cx.checked.add("ret")
    ei, ej = np.nonzero(sel)
    cx.eq("from_data_cut row", f.row, ei.astype(np.uint16))
    cx.eq("from_data_cut col", f.col, ej.astype(np.uint16))
    cx.eq("from_data_cut intensity", f.pixels["intensity"], data[sel])


_H5 = [0]


def _scan(d, cx, values):
    """a SparseScan of four frames (content 1, content 2, empty, content 1), read back from an HDF5 file"""
    import h5py
    D = _D()
    from ImageD11 import sparseframe
    im = D.Img(d, cx)
    masks = [im.m1, im.m2, np.zeros_like(im.m1), im.m1]
    rows, cols, vals, nnz = [], [], [], []
    v1 = values(d, im)
    full = np.zeros((im.ns, im.nf), np.float32)
    full[im.m1] = v1
    k = np.arange(im.ns * im.nf).reshape(im.ns, im.nf)
    base = (im.v * 10.0 + ((k * 7919) % 1009) / 4096.0).astype(np.float32) if d["par"] not in ("flat",) else np.ones((im.ns, im.nf), np.float32)
    if d["k"] == "py:scan_cplabel":
        base = im.v.astype(np.float32)
    base = cx.inj(np.ascontiguousarray(base).copy())  # value class of the intensities, on the pixel grid of every frame
    for m in masks:
        ii, jj = np.nonzero(m)
        rows.append(ii.astype(np.uint16))
        cols.append(jj.astype(np.uint16))
        vals.append(base[m])
        nnz.append(len(ii))
    _H5[0] += 1
    scr = os.environ.get("C20_SCRATCH") or os.path.dirname(os.path.abspath(sys.argv[2] if len(sys.argv) > 2 else "/var/tmp/x"))
    path = os.path.join(scr, "c20_scan_%d_%d.h5" % (os.getpid(), _H5[0] % 4))
    with h5py.File(path, "w") as h:
        g = h.create_group("1.1")
        g.attrs["nframes"], g.attrs["shape0"], g.attrs["shape1"] = len(masks), im.ns, im.nf
        g["row"] = np.concatenate(rows)
        g["col"] = np.concatenate(cols)
        g["intensity"] = np.concatenate(vals)
        g["nnz"] = np.array(nnz, np.int32)
    s = sparseframe.SparseScan(path, "1.1")
    return D, im, masks, base, s


@caller("py:scan_cplabel")
def w_scan_cplabel(d, mat, cx):
    D, im, masks, base, s = _scan(d, cx, lambda d, im: im.data[im.m1])
    thr = D.THRVAL[d["par"]]
    countall = bool(d["opt"])
    s.cplabel(threshold=thr, countall=countall)
    cx.checked.add("ret")
    nl, exp, ns_ = 0, [], []
    for m in masks:
        el, en = D.components(np.where(m, base, 0) > thr, 1)
        e = el[m]
        exp.append(np.where(e > 0, e + nl, 0))
        ns_.append(en)
        if countall:
            nl += en
    cx.eq("SparseScan.cplabel nlabels", s.nlabels, np.array(ns_))
    cx.eq("SparseScan.cplabel labels", s.labels, np.concatenate(exp))
    cx.eq("SparseScan.cplabel total_labels", s.total_labels, sum(ns_))


@caller("py:scan_lmlabel")
def w_scan_lmlabel(d, mat, cx):
    D, im, masks, base, s = _scan(d, cx, lambda d, im: _D().sp_values(d, im))
    countall, smooth = bool(d["opt"] & 1), bool(d["opt"] & 2)
    s.lmlabel(countall=countall, smooth=smooth)
    cx.checked.add("ret")
    nl, pos = 0, 0
    for q, m in enumerate(masks):
        n = int(m.sum())
        lab = s.labels[pos:pos + n]
        sig = s.signal[pos:pos + n]
        if n:
            if smooth:
                cx.close("SparseScan.lmlabel frame %d smoothed signal" % q, sig, D.ref_smooth_mask(m, base[m]), rel=1e-5)
            if lab.min() < nl + 1 or lab.max() > nl + s.nlabels[q]:
                cx.bad("SparseScan.lmlabel frame %d: labels %d..%d outside %d..%d" % (q, lab.min(), lab.max(), nl + 1, nl + s.nlabels[q]))
            if d["par"] != "flat" and cx.finite:
                full = np.zeros((im.ns, im.nf), np.float32)
                full[m] = sig            # the labelling of the signal the scan holds, by the definition
                es = D.expected_sparse(full.ravel(), im.ns, im.nf, m)
                if es is not None:
                    cx.eq("SparseScan.lmlabel frame %d labels (definition)" % q, lab - nl, np.array(es[0], np.int32))
                    cx.eq("SparseScan.lmlabel frame %d count" % q, s.nlabels[q], es[1])
        else:
            cx.eq("SparseScan.lmlabel empty frame %d" % q, s.nlabels[q], 0)
        pos += n
        if countall:
            nl += int(s.nlabels[q])
    cx.eq("SparseScan.lmlabel total_labels", s.total_labels, int(np.sum(s.nlabels)))


@caller("py:labelimage")
def w_labelimage(d, mat, cx):
    """three frames (content 1, content 2, content 1) through peaksearch / mergelast / finalise; the merged peaks are the
    connected components of the 3D stack (8-connected in a frame, same pixel between consecutive frames)"""
    D = _D()
    from scipy import ndimage
    from ImageD11 import labelimage
    im = D.Img(d, cx)
    if "mask1" in mat:
        cx.gen("mask1", im.m1.astype(int), mat["mask1"])
    thr = D.THRVAL[d["par"]]
    frames = [im.data, im.data2, im.data]
    out, spt = io.StringIO(), io.StringIO()
    lio = labelimage.labelimage((im.ns, im.nf), fileout=out, sptfile=spt)
    lio.verbose = d["vb"]
    for q, fr in enumerate(frames):
        lio.peaksearch(fr, thr, float(q))
        lio.mergelast()
    lio.finalise()
    cx.checked.add("ret")
    stack = np.array([f > thr for f in frames])
    st = np.zeros((3, 3, 3), int)
    st[1] = 1
    st[:, 1, 1] = 1
    _, n3 = ndimage.label(stack, structure=st)
    rows = [l.split() for l in out.getvalue().splitlines() if l.strip() and not l.startswith("#")]
    cx.eq("labelimage merged peaks written", len(rows), n3)
    if rows:
        # columns: sc fc omega Number_of_pixels avg_intensity ...: pixel count and intensity are conserved
        npx = sum(float(r[3]) for r in rows)
        tot = sum(float(r[3]) * float(r[4]) for r in rows)
        cx.close("labelimage pixels in the merged peaks", npx, float(stack.sum()))
        cx.close("labelimage summed intensity of the merged peaks", tot,
                 float(sum(f[s].sum(dtype=np.float64) for f, s in zip(frames, stack))), rel=1e-3)    # (printed with %.4f)


# ================================================================================================
# callers that exist only for the self-test of the binding (props/c20.py selftest): they are NOT well-formed

SELFTEST = {}


def _selftest_short_tmp(d, mat, cx):
    """a caller that sizes the histogram by the pixel count while the labels are larger: the guard must object"""
    from ImageD11 import cImageD11
    i = np.array([5, 6, 7], np.int32)
    j = np.array([7, 7, 5], np.int32)
    cImageD11.compress_duplicates(i, j, np.zeros(3, np.int32), np.zeros(3, np.int32), np.zeros(len(i) + 1, np.int32))


def _selftest_short_results(d, mat, cx):
    """bloboverlaps with fewer result rows than peaks"""
    from ImageD11 import cImageD11
    l = np.array([[1, 0], [0, 2]], np.int32)
    r = np.zeros((1, cImageD11.NPROPERTY))
    cImageD11.bloboverlaps(l, 2, r, l.copy(), 2, r.copy(), 0)


SELFTEST["py:selftest_short_tmp"] = _selftest_short_tmp
SELFTEST["py:selftest_short_results"] = _selftest_short_results
